"""C06 - proposal corrections of the RW, IWLS and MH kernels satisfy detailed balance.

MC : MC_Invariance - on every finite instance (|S| = 3, integer target and proposal
     weights, discretised uniform draw) a kernel whose acceptance is
     min(1, pi(x')q(x|x') / (pi(x)q(x'|x))) with the strict rule u < alpha satisfies
     detailed balance, leaks no mass into zero-density states and is stationary; the
     non-strict rule is refuted.  C06 is the conformance of that premise:
TV : real RW / IWLS / MH kernels behind the wrapping probe on families with analytic
     gradient and information (Gaussian d = 1,2,3; Poisson-type scalar with
     state-dependent information; two-key product; user-supplied chol_info_fn, also one
     that is not the Hessian; multiplicative log-normal MH proposal with declared
     correction), step sizes 0.1 / 0.7 / 1.5: for every transition with a known proposal
     the reported acceptance probability must equal the spec's ReportedAcc computed from
     the Gaussian proposal densities (mean x + s^2/2 F^-1 grad, covariance s^2 F^-1).
"""
from harness import parallel, proposals_driver as P
from vlib.core import Check, MachineryError, run_tlc

INV = "CONSTANTS S = {1,2,3}\n M = 4\n Strict = %s\n PiMax = 2\n WMax = %d\nINIT Init\nNEXT Next\nINVARIANT DB\nINVARIANT NoLeak\nINVARIANT Stat\n"


def run(chk: Check):
    chk.rule = ("one trace = one chain of a real kernel behind the wrapping probe; every transition gives a 'moved' "
                "event and, when the proposal is known, a kernel event with analytic float64 leaves; non-trivial = "
                "the chain contains accepted and rejected transitions with 0 < acc < 1")
    chk.trusted += ["numpy float64 analytic leaves (log-density, gradient, information) in harness/proposals_driver.py",
                    "harness/probes.py WrapKernel"]
    chk.mc("MC_Invariance.tla", INV % ("TRUE", 1 if chk.quick else 2), tag="finite-chains", expect_actions=["Init"],
           timeout=1500, what="all instances |S|=3, pi<=2, weights<=%d, M=4 with exact acceptance grid" % (1 if chk.quick else 2))
    r = run_tlc("MC_Invariance.tla", INV % ("FALSE", 1), tag="C06-nonstrict", timeout=300)
    if r.error is None:
        raise MachineryError("the non-strict acceptance rule should be refuted on finite chains")
    chk.note(f"non-strict rule u <= alpha on finite chains: {r.error}")
    traces = [t for res in parallel.run_jobs("harness.proposals_driver", "run", P.jobs(chk.quick)) for t in res]
    # one kernel object bound to another model of the same state layout in between (eager)
    for sd in range(2 if chk.quick else 8):
        traces += P.rebind_traces(chk.seed + sd)

    def nontrivial(t):
        inner = [e for e in t["ev"] if e["ev"] == "moved" and e["acc"] not in ("0.0", "1.0")]
        return any(e["moved"] for e in inner) and any(not e["moved"] for e in inner)

    chk.extra["rw_replay_matched_chains"] = sum(1 for t in traces if t["hdr"]["rw_replay_matched"])
    chk.tv("Trace_Proposals.tla", traces, tag="kernels", nontrivial=nontrivial, timeout=900,
           keyfn=lambda r: f"{r.trace['hdr']['kernel']}:{r.conjunct}",
           describe=lambda r: f"family {r.trace['hdr']['family']} step {r.trace['hdr']['step']}")
    chk.assumptions += ["rejected RW transitions are only checked when the Gaussian step could be replayed from the key "
                        "(a mismatch of the replay is never an alarm)"]


def replay(chk: Check, data):
    hdr = data["replay"]["trace"]["hdr"]
    if "rebind" in hdr:
        chk.tv("Trace_Proposals.tla", P.rebind_traces(hdr["rebind"]["seed"]), tag="replay",
               keyfn=lambda r: f"{r.trace['hdr']['kernel']}:{r.conjunct}")
        return
    sc = hdr["scenario"]
    chk.tv("Trace_Proposals.tla", P.run(**sc), tag="replay", keyfn=lambda r: f"{r.trace['hdr']['kernel']}:{r.conjunct}")
