"""C05 - exact Metropolis-Hastings acceptance rule.

MC : MC_MHStep (every (cur, prop, corr, u) over a grid with +-inf, NaN, u = 0).
TV : Trace_MHStep on the real mh_step, one trace per PRNG key (hidden uniform draw),
     including keys whose uniform draw is exactly 0.0.
"""
import random

from harness import mh_driver as D
from vlib.core import Check

CFG = """
CONSTANTS Strict = {strict}
INIT Init
NEXT Step
INVARIANT Inv
"""


def run(chk: Check):
    rng = random.Random(500 + chk.seed)
    chk.rule = ("one trace per PRNG key = the real mh_step on every (current, proposed, correction) in "
                "{-inf,-100,-2,-0.5,0,0.25,1,+inf,NaN}^3 plus log-densities of magnitude 1e5..3e7 with exactly representable differences (vmap+jit; a subset also jit-only and eager); "
                "non-trivial = the key's trace contains both accepted and rejected steps with 0 < acc < 1, "
                "or the key's uniform draw is exactly 0")
    chk.trusted += ["DictInterface (log-prob read from the state)", "jax bitcast for exact state comparison"]
    chk.mc("MC_MHStep.tla", CFG.format(strict="TRUE"), tag="grid", expect_actions=["Init"],
           what="strict rule (u < acc): all outcome properties on the 9^3 x 4 grid")
    # vacuity: each class of the grid is reachable (these 'invariants' must FAIL)
    from vlib.core import run_tlc, MachineryError
    for inv in ("ReachNaN", "ReachZero", "ReachOne", "ReachMid"):
        r = run_tlc("MC_MHStep.tla", CFG.format(strict="TRUE").replace("Inv", inv), tag=f"C05-{inv}")
        if r.error != f"invariant:{inv}":
            raise MachineryError(f"vacuity gate: grid never reaches class {inv}")
    # design-level meaning of the non-strict rule: must violate ZeroNeverAccepted
    r = run_tlc("MC_MHStep.tla", CFG.format(strict="FALSE"), tag="C05-le")
    chk.note(f"non-strict rule (u <= acc) on the same grid: {r.error} (expected: invariant:Inv, draw u = 0)")
    if r.error != "invariant:Inv":
        raise MachineryError("the non-strict variant should violate ZeroNeverAccepted on the grid")

    cmb = D.combos() + D.large_magnitude_combos()
    zero = D.find_zero_draw_keys(8 if chk.quick else 48)
    chk.extra["zero_draw_seeds_found"] = zero
    n_keys = 64 if chk.quick else 1024
    seeds = [rng.randrange(1 << 30) for _ in range(n_keys)] + zero
    traces = D.traces_for_keys(seeds, cmb, "vmap_jit")
    sub = cmb[:: (7 if chk.quick else 2)]
    traces += D.traces_for_keys(seeds[:4] + zero[:2], sub, "jit")
    traces += D.traces_for_keys(seeds[:3] + zero[:2], sub[:: (3 if chk.quick else 1)], "eager")

    zs = set(zero)

    def nontrivial(t):
        inner = [e for e in t["ev"] if e["acc"] not in ("0.0", "1.0")]
        return t["hdr"]["seed"] in zs or (any(e["moved"] for e in inner) and any(not e["moved"] for e in inner))

    chk.tv("Trace_MHStep.tla", traces, tag="mh_step", nontrivial=nontrivial,
           keyfn=lambda r: f"mh_step:{r.conjunct}")
    # the same rule at the level of the kernels' transition infos: RW / MH / IWLS kernels whose block's density depends
    # on a quantity another kernel of the sequence moves in between (the log-densities are those of the *current* state)
    from harness import parallel, proposals_driver as P
    js = [j for j in P.jobs(True) if j["family"] in ("coupled", "gamma_coupled", "gamma_cached", "poisson_userchol",
                                                       "gauss2_userchol")]
    ktr = [t for res in parallel.run_jobs("harness.proposals_driver", "run", js) for t in res]
    chk.tv("Trace_Proposals.tla", ktr, tag="kernel_infos", timeout=900,
           keyfn=lambda r: f"kernel:{r.trace['hdr']['kernel']}:{r.conjunct}",
           describe=lambda r: f"family {r.trace['hdr']['family']} step {r.trace['hdr']['step']}")
    # mh_step through every model interface, eagerly, several steps on the same state object with different blocks
    from harness import mhiface_driver as MI
    itr = MI.traces([rng.randrange(1 << 30) for _ in range(6 if chk.quick else 120)])
    chk.tv("Trace_MHIface.tla", itr, tag="interfaces",
           keyfn=lambda r: f"iface:{r.trace['hdr']['family']}:{r.conjunct}",
           describe=lambda r: str(r.trace["ev"][r.line - 1])[:500])
    chk.trusted += ["harness/mhiface_driver.py (closed-form float64 density of the three-field model)"]
    chk.assumptions += ["the uniform draw inside mh_step lies in [0,1) and is a function of the key only "
                        "(inferred per key as a hidden variable, never read)"]


def replay(chk: Check, data):
    """Re-run the recorded key through the real mh_step and re-validate."""
    hdr = data["replay"]["trace"]["hdr"]
    from harness import mhiface_driver as MI
    if hdr.get("family") in MI.FAMILIES and "mode" not in hdr:
        chk.tv("Trace_MHIface.tla", [MI.trace(hdr["seed"], hdr["family"])], tag="interfaces",
               keyfn=lambda r: f"iface:{r.trace['hdr']['family']}:{r.conjunct}")
        return
    cmb = [(float(e["cur"]), float(e["prop"]), float(e["corr"])) for e in data["replay"]["trace"]["ev"]]
    traces = D.traces_for_keys([hdr["seed"]], cmb, hdr["mode"])
    chk.tv("Trace_MHStep.tla", traces, tag="mh_step", keyfn=lambda r: f"mh_step:{r.conjunct}")
