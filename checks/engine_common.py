"""Shared machinery of the engine-level checks (C07, C08, C09-order, C10-keys):
scenario generation (hand-written + TLC-simulated interleavings), real engine runs with
probe kernels, validation against Trace_Engine.tla, and routing of rejections to the
property whose conjunct family failed."""
from __future__ import annotations

import copy
import re

from harness import parallel
from vlib.core import Check, MachineryError, simulate_behaviours, tla_record_to_dict

FAMILY = {
    "C07": {"api_call_only_when_idle", "append_accepted_iff_valid", "sample_next_raises_iff_no_epoch_left",
            "kernel_call_allowed_by_lifecycle_here", "kernels_called_in_sequence_order", "epoch_arguments",
            "adaptive_transition_iff_adaptation_epoch", "tune_only_after_adaptation_epoch",
            "slow_tuning_iff_slow_epoch", "no_history_unless_asked",
            "history_is_this_epochs_stored_chain_length", "history_is_this_epochs_stored_chain_content",
            "init_state_only_at_construction", "kernel_state_initialised_from_the_chains_own_model_state", "design_invariants", "tuning_times_are_the_end_times_of_the_adaptation_epochs", "no_action_matches",
            "sample_all_epochs_does_not_raise", "engine_unusable_after_a_chunk_mismatch",
            "sample_next_raises_iff_no_epoch_left_or_duration_not_a_multiple_of_the_chunk"},
    "C08": {"results_read_when_idle", "one_stored_chain_per_started_epoch",
            "tracked_keys_respect_included_excluded", "stored_chain_is_thinned_per_iteration_states",
            "stored_chain_empty_iff_nothing_kept", "transition_infos_for_every_transition",
            "kernel_states_for_every_transition", "stored_kernel_states_are_those_after_the_transition", "posterior_accessor_returns_exactly_posterior_epochs", "stored_results_unchanged_by_reading_and_summarising", "computed_position_entries_are_computed_from_the_chains_own_state", "results_object_obtained_earlier_shows_what_was_sampled_since", "results_written_to_disk_and_read_back_show_the_same_chains",
            "generated_quantities_once_per_stored_iteration_from_post_transition_state",
            # (a sampling call that raises where the schedule is fine records nothing at all)
            "sample_all_epochs_does_not_raise", "sample_next_raises_iff_no_epoch_left_or_duration_not_a_multiple_of_the_chunk"},
    "C09": {"starts_from_state_left_by_predecessor", "blocks_only_written_by_their_own_kernel",
            "probe_wrote_expected_tag"},
    "C10": {"fresh_random_key_for_every_call", "keys_distinct_across_chains_and_calls",
            "no_call_key_is_derived_from_another_calls_key", "kernel_state_initialised_from_the_chains_own_model_state"},
    # C04's premise: the kernels of a sequence draw from independent streams
    "C04": {"fresh_random_key_for_every_call", "keys_distinct_across_chains_and_calls",
            "no_call_key_is_derived_from_another_calls_key"},
}

MC_CFG = """CONSTANTS FlagSet = {flag}
 Ks = {ks}
 Js = {js}
 Hists = {{{{}}, {{1}}, {{2}}}}
 NQs = {nqs}
 Types = {{1,2,3,4}}
 Durs = {durs}
 Thins = {{1,2}}
 MaxLen = {maxlen}
INIT Init
NEXT Next
CONSTRAINT LenBound
"""
INVS = ["LifecycleOK", "EndWarmupAtMostOnce", "AdaptiveIffAdaptation", "TuneHistoryOK", "StoredOK",
        "QuantsOK", "OrderRespected", "KeysFresh"]

EXPECT_ACTIONS = ["ApiAppend", "ApiAppendRejected", "ApiSampleNext", "ApiSampleNextRaises", "ApiSampleAll",
                  "IStartEpoch", "IEndWarmup", "IInitialValues", "IPreStart", "IKStart", "IChunkBegin",
                  "ITransition", "IIterEnd", "IChunkAppend", "IPreEnd", "IKEnd", "IPreTune", "ITune", "IFinish",
                  "IReturn"]


def C(t, d, k=1):
    return {"type": t, "dur": d, "thin": k}


def handwritten(tier_quick: bool):
    """Scenario = kwargs for harness.engine_driver.run"""
    I = C(0, 1)
    sc = [
        # two posterior epochs, the second appended late; sample_next past the end raises
        dict(ops=[("append", I), ("append", C(1, 4, 2)), ("next",), ("next",), ("read",), ("append", C(2, 2)),
                  ("append", C(4, 4, 2)), ("next",), ("next",), ("read",), ("append", C(4, 2)), ("all",), ("next",)],
             K=2, needs_hist=(2,), chains=2, J=2, nq=2),
        # everything up front through the builder (J = gcd), three kernels, rejected appends
        dict(ops=[("append", C(2, 3)), ("all",), ("append", C(4, 6, 3)), ("append", C(1, 3)), ("all",),
                  ("append", C(0, 1)), ("append", C(4, 4, 3)), ("next",)],
             init_cfgs=[I, C(1, 6, 2), C(3, 3), C(4, 9, 3)], K=3, needs_hist=(), chains=1,
             via_builder=True, included=("const",), excluded=("p2",), store_kernel_states=True, nq=1),
        # a key listed both as included and as excluded: excluded wins
        dict(ops=[("all",)], init_cfgs=[I, C(3, 2), C(4, 4, 2)], K=2, needs_hist=(), chains=1,
             via_builder=True, included=("const", "p2"), excluded=("p2", "const")[:1]),
        # the builder has already built (and run) another engine: the second engine starts from the configured schedule
        dict(ops=[("next",), ("append", C(4, 4, 2)), ("all",)], init_cfgs=[I, C(1, 4), C(3, 2), C(4, 4, 2)], K=2,
             needs_hist=(1,), chains=2, via_builder=True, prebuild=True),
        # a thinned warm-up epoch whose duration is not a multiple of the thinning, followed by an epoch with the same thinning
        dict(ops=[("all",)], init_cfgs=[I, C(3, 5, 2), C(4, 4, 2), C(4, 6, 2)], K=2, needs_hist=(), chains=2, via_builder=True,
             store_kernel_states=True),
        # an appended epoch whose duration is not a multiple of the chunk length: the call raises with the epoch started
        # and every later sampling call raises as well
        dict(ops=[("next",), ("next",), ("append", C(2, 3)), ("next",), ("next",), ("append", C(4, 2)), ("all",)],
             init_cfgs=[I, C(1, 4)], K=2, needs_hist=(), chains=1, J=2),
        # tuning and end-of-warm-up report an error in one chain only (the engine warns; every chain keeps what its own
        # kernel returned); progress bars on
        dict(ops=[("all",), ("append", C(4, 2)), ("next",)], init_cfgs=[I, C(1, 2), C(2, 4, 2), C(3, 2), C(4, 4)], K=2,
             needs_hist=(2,), chains=3, J=2, tune_error_chains=(1,), show_progress=True, store_kernel_states=True),
        # the key of a kernel that asks for the history is excluded from tracking (the history holds tracked keys only)
        dict(ops=[("all",)], init_cfgs=[I, C(1, 4, 2), C(2, 2), C(4, 4, 2)], K=2, needs_hist=(1,), chains=2, via_builder=True,
             excluded=("p1",)),
        # every key excluded: nothing would be tracked (the builder refuses; it must not silently track everything)
        dict(ops=[("all",)], init_cfgs=[I, C(1, 2), C(4, 4, 2)], K=2, needs_hist=(), chains=2, via_builder=True,
             excluded=("p1", "p2")),
        # every kernel key excluded, only an additional key tracked
        dict(ops=[("all",)], init_cfgs=[I, C(1, 2), C(4, 4, 2)], K=2, needs_hist=(), chains=2, via_builder=True,
             included=("const",), excluded=("p1", "p2")),
        # a model interface that computes a tracked quantity from the state (several chains)
        dict(ops=[("all",)], init_cfgs=[I, C(1, 2), C(4, 4, 2)], K=2, needs_hist=(), chains=3, J=2, computing=True,
             included=("nel",)),
        dict(ops=[("all",)], init_cfgs=[I, C(3, 2), C(4, 2)], K=1, needs_hist=(), chains=2, via_builder=True, computing=True,
             included=("nel", "const")),
        # first real epoch is posterior; J = 1; thinning that never keeps anything in a chunk
        dict(ops=[("append", I), ("append", C(4, 3, 3)), ("next",), ("next",), ("append", C(4, 2, 2)),
                  ("next",), ("append", C(4, 1)), ("all",)],
             K=1, needs_hist=(1,), chains=3, J=1),
    ]
    if not tier_quick:
        sc += [
            dict(ops=[("all",), ("append", C(1, 4, 4)), ("next",), ("append", C(2, 8, 3)), ("append", C(3, 4)),
                      ("all",), ("append", C(4, 8, 4)), ("append", C(4, 4, 2)), ("append", C(4, 4)), ("all",)],
                 init_cfgs=[I], K=2, needs_hist=(1,), chains=2, J=4, store_kernel_states=True),
            dict(ops=[("all",)], init_cfgs=[I, C(1, 5, 2), C(2, 10, 5), C(2, 5), C(1, 5, 5), C(4, 10, 2)],
                 # (the history holds the tracked positions only: kernel 1 does not find its own key in it)
                 K=2, needs_hist=(1, 2), chains=2, via_builder=True, excluded=("p1",)),
        ]
    return sc


def chunk_variants(tier_quick: bool):
    """Same schedule with every admissible chunk length J (chunk independence)."""
    I = C(0, 1)
    base = [I, C(1, 6, 2), C(2, 6, 3), C(4, 12, 4)]
    out = []
    for J in ([1, 3, 6] if tier_quick else [1, 2, 3, 6]):
        out.append(dict(ops=[("all",)], init_cfgs=base, K=2, needs_hist=(2,), chains=1, J=J,
                        meta={"family": "chunk_variants"}))
    return out


def simulated(chk: Check, n: int, maxlen: int = 4):
    """Interleavings generated by TLC's simulator from MC_GooseEngine (spec -> code)."""
    cfg = MC_CFG.format(flag="TRUE", ks="{1, 2}", js="{1, 2}", durs="{2, 4}", maxlen=maxlen, nqs="{0}")
    bs = simulate_behaviours("MC_GooseEngine.tla", cfg, tag=f"{chk.prop}-eng", num=n, depth=220,
                             seed=1 + chk.seed)
    out = []
    for b in bs:
        st0 = b[0][1]
        K = int(re.search(r"/\\ K = (\d+)", st0).group(1))
        J = int(re.search(r"/\\ J = (\d+)", st0).group(1))
        nh = tuple(int(x) for x in re.findall(r"\d+", re.search(r"/\\ NeedsHist = \{(.*?)\}", st0).group(1)))
        ops = []
        for a, _ in b[1:]:
            if a.startswith("ApiAppend(") or a.startswith("ApiAppendRejected("):
                ops.append(("append", tla_record_to_dict(a)))
            elif a.startswith("ApiSampleNext"):
                ops.append(("next",))
            elif a.startswith("ApiSampleAll"):
                ops.append(("all",))
        if not any(o[0] != "append" for o in ops):
            ops.append(("all",))
        out.append(dict(ops=ops, K=K, needs_hist=nh, chains=1 + (len(out) % 2), J=J,
                        meta={"family": "tlc_simulated"}))
    return out


def run_scenarios(chk: Check, scenarios, tag: str):
    for i, s in enumerate(scenarios):
        s.setdefault("seed", 100 * chk.seed + i)
    results = parallel.run_jobs("harness.engine_driver", "run", scenarios)
    traces = [t for r in results for t in r]
    return traces


def validate(chk: Check, traces, tag: str):
    """Validates engine traces; violations in this check's family are reported, others
    are noted (they are reported by the check that owns the conjunct)."""
    from vlib.core import validate_traces, digest

    rejects, st = validate_traces("Trace_Engine.tla", traces, tag=f"{chk.prop}-{tag}",
                                  cfg_extra="CONSTANTS FlagSet = TRUE\n")
    chk.states += st["states"]
    chk.transitions += st["transitions"]
    chk.traces += st["traces"]
    chk.events += st["events"]
    chk.evaluations += st["traces"]
    mine = FAMILY[chk.prop]
    other = 0
    for r in rejects:
        if r.conjunct in mine:
            ev = r.trace["ev"][r.line - 1] if r.line - 1 < len(r.trace["ev"]) else {}
            chk.violation(f"engine:{r.conjunct}:{ev.get('ev')}",
                          f"engine trace rejected by Trace_Engine.tla at event {r.line} ({ev.get('ev')}), "
                          f"failing conjunct '{r.conjunct}'; schedule hdr={ {k: r.trace['hdr'][k] for k in ('K', 'J', 'needs', 'chain')} }",
                          {"kind": "rejected_trace", "trace_spec": "Trace_Engine.tla", "line": r.line,
                           "conjunct": r.conjunct, "trace": r.trace, "cfg_extra": "CONSTANTS FlagSet = TRUE\n"})
        else:
            other += 1
            owner = next((p for p, f in FAMILY.items() if r.conjunct in f), "?")
            chk.note(f"trace {r.tid} stopped at event {r.line} on conjunct '{r.conjunct}' owned by {owner}; "
                     f"not a verdict of {chk.prop}")
    # traces that stopped on a conjunct owned by another property are re-validated leniently
    # (per-call observations unchecked) so that this property's own conjuncts are still reached
    stuck = [copy.deepcopy(r.trace) for r in rejects if r.conjunct not in mine]
    if stuck:
        for t in stuck:
            t["hdr"]["lenient"] = True
        rej2, st2 = validate_traces("Trace_Engine.tla", stuck, tag=f"{chk.prop}-{tag}-lenient",
                                    cfg_extra="CONSTANTS FlagSet = TRUE\n")
        chk.states += st2["states"]
        chk.transitions += st2["transitions"]
        for r in rej2:
            if r.conjunct in mine:
                ev = r.trace["ev"][r.line - 1] if r.line - 1 < len(r.trace["ev"]) else {}
                chk.violation(f"engine:{r.conjunct}:{ev.get('ev')}",
                              f"engine trace (lenient re-validation) rejected at event {r.line} ({ev.get('ev')}), "
                              f"failing conjunct '{r.conjunct}'",
                              {"kind": "rejected_trace", "trace_spec": "Trace_Engine.tla", "line": r.line,
                               "conjunct": r.conjunct, "trace": r.trace, "cfg_extra": "CONSTANTS FlagSet = TRUE\n"})
                other -= 1
    chk.tv_runs.append({"trace_spec": "Trace_Engine.tla", "tag": tag, "traces": st["traces"],
                        "events": st["events"], "rejected_own_family": len(rejects) - other,
                        "stopped_in_other_family": other, "wall_s": round(st["wall_s"], 1)})
    if traces and other == len(traces):
        raise MachineryError(f"{chk.prop}: every engine trace stopped on a conjunct of another property; "
                             f"nothing could be evaluated")
    for t in traces:
        if nontrivial(t):
            chk.nontrivial.add(digest(t))
    if traces and len(chk.samples) < 4:
        from vlib.core import _shorten
        chk.samples.append({"source": tag, "trace": _shorten(traces[chk.seed % len(traces)], 14)})
    return rejects


def nontrivial(t):
    types = {e["type"] for e in t["ev"] if e.get("ev") == "start_epoch"}
    ntrans = sum(1 for e in t["ev"] if e.get("ev") == "transition")
    return len(types) >= 2 and ntrans > t["hdr"]["J"] * t["hdr"]["K"]


def mc(chk: Check, invs, quick_maxlen=3, thorough_maxlen=4):
    # durations that are not multiples of the chunk length: the engine refuses them with the epoch started and is
    # unusable afterwards (fail-stop); the invariants hold on that path too
    cfg = MC_CFG.format(flag="TRUE", ks="{1, 2}", js="{2}", durs="{2, 3}", maxlen=3, nqs="{0}")
    chk.mc("MC_GooseEngine.tla", cfg + "".join(f"INVARIANT {i}\n" for i in invs), tag="engine-chunk-mismatch",
           expect_actions=["ApiSampleStuck", "IChunkMismatch", "ApiSampleNext", "IKStart"], timeout=1500,
           what="J = 2 with durations {2, 3}: the refusal path of _sample_for_duration")
    if chk.quick:
        cfg = MC_CFG.format(flag="TRUE", ks="{1, 2}", js="{1, 2}", durs="{2, 4}", maxlen=quick_maxlen, nqs="{1}")
        chk.mc("MC_GooseEngine.tla", cfg + "".join(f"INVARIANT {i}\n" for i in invs), tag="engine",
               expect_actions=EXPECT_ACTIONS, timeout=1500,
               what="all interleavings of append/sample_next/sample_all, <=%d epochs, K in {1,2}, J in {1,2}" % quick_maxlen)
    else:
        cfg = MC_CFG.format(flag="TRUE", ks="{1, 2}", js="{1, 2}", durs="{2, 4}", maxlen=3, nqs="{0, 1}")
        chk.mc("MC_GooseEngine.tla", cfg + "".join(f"INVARIANT {i}\n" for i in invs), tag="engine-cov",
               expect_actions=EXPECT_ACTIONS, timeout=1500, what="<=3 epochs with action coverage")
        cfg = MC_CFG.format(flag="TRUE", ks="{1, 2}", js="{1, 2}", durs="{2, 4}", maxlen=thorough_maxlen, nqs="{0, 2}")
        from vlib.core import run_tlc
        res = run_tlc("MC_GooseEngine.tla", cfg + "".join(f"INVARIANT {i}\n" for i in invs),
                      tag=f"{chk.prop}-engine-deep", timeout=3000)
        chk.states += res.distinct
        chk.transitions += res.generated
        chk.mc_runs.append({"module": "MC_GooseEngine.tla", "tag": "engine-deep", "generated": res.generated,
                            "distinct": res.distinct, "depth": res.depth, "wall_s": round(res.wall_s, 1),
                            "result": res.error or "no error",
                            "what": "<=%d epochs, K in {1,2}, J in {1,2}, durations {2,4}, thinning {1,2}" % thorough_maxlen})
        if res.error:
            chk.violation(f"design:{res.error}", f"TLC counterexample in MC_GooseEngine (deep): {res.error}",
                          {"kind": "tlc_counterexample", "module": "MC_GooseEngine.tla", "cfg": cfg, "trace": res.cex})


def replay(chk: Check, data):
    """Re-run the recorded scenario on the current tree and re-validate."""
    from harness import engine_driver

    sc = dict(data["replay"]["trace"]["hdr"]["scenario"])
    sc["ops"] = [tuple(o) for o in sc["ops"]]
    sc["needs_hist"] = tuple(sc["needs_hist"])
    traces = engine_driver.run(**sc)
    validate(chk, traces, "replay")
