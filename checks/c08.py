"""C08 - recorded chains hold exactly the per-iteration states, thinned as configured.

MC : MC_GooseEngine: StoredOK (initial values at index 0; per epoch the states after
     iterations k, 2k, ...; each stored entry is the state after all kernels of that
     iteration; one transition info per transition) for every interleaving, schedule,
     K and chunk length J - the expected chain does not mention J (chunk independence).
TV : real Engine runs with probe kernels that write (epoch, iteration, kernel) tags
     into position keys of different shapes; the stored arrays of SamplingResults are
     compared entry by entry with the spec's chain; same schedule under every admissible
     J; included / excluded keys; posterior accessor; kernel states.
"""
from checks import engine_common as EC
from vlib.core import Check


def run(chk: Check):
    chk.rule = ("one trace per chain of a real Engine run with tagging probe kernels, closed by a 'results' "
                "event with everything SamplingResults stored; non-trivial = at least two epoch types and more "
                "transitions than one chunk")
    chk.trusted += ["harness/probes.py ProbeKernel tags", "harness/engine_driver.py results_event (decoding of stored arrays)"]
    EC.mc(chk, ["StoredOK", "TuneHistoryOK", "OrderRespected"])
    sc = EC.handwritten(chk.quick) + EC.chunk_variants(chk.quick) + EC.simulated(chk, 8 if chk.quick else 60)
    traces = EC.run_scenarios(chk, sc, "storage")
    EC.validate(chk, traces, "storage")
    # chunk independence, explicitly: the results events of the chunk variants are equal
    cv = [t for t in traces if t["hdr"].get("family") == "chunk_variants"]
    res = {str(t["ev"][-1].get("epochs")) + str(t["ev"][-1].get("posterior")) for t in cv}
    chk.extra["chunk_variants_compared"] = len(cv)
    chk.extra["chunk_variants_distinct_results"] = len(res)


replay = EC.replay
