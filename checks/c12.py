"""C12 - mass-matrix adaptation aligned with the flat position.

MC : MC_MassMatrix (all listings of <= 3 keys x sizes; property tuner aligned and
     order-invariant; listing-order tuner is not).
TV : Trace_MassMatrix on kernel.tune() of real HMC/NUTS kernels with synthetic
     histories (all key orders incl. non-alphabetical, shapes, diag/dense, foreign keys),
     and on real engine runs with two mass-matrix kernels (stored history per slow epoch).
"""
import random

import liesel.goose as gs
from harness import mm_driver as D
from vlib.core import Check, MachineryError, run_tlc

CFG = "CONSTANTS AsCoded = %s\nINIT Init\nNEXT Next\nINVARIANT Aligned\nINVARIANT OrderInvariant\n"


def run(chk: Check):
    rng = random.Random(1200 + chk.seed)
    chk.rule = ("one trace = tune() of a real HMC/NUTS kernel on a slow-adaptation epoch (synthetic history with "
                "well-separated per-coordinate variances), or the slow epochs of a real engine run; "
                "non-trivial = position keys listed in non-alphabetical order")
    chk.trusted += ["numpy reshaping of the stored chain in harness/mm_driver.py"]
    chk.mc("MC_MassMatrix.tla", CFG % "FALSE", tag="aligned", expect_actions=["Init"], workers=4,
           what="all listings of <=3 keys, sizes {1,2}: Aligned, OrderInvariant")
    r = run_tlc("MC_MassMatrix.tla", CFG % "TRUE", tag="C12-ascoded", workers=4)
    chk.note(f"listing-order tuner on the same space: {r.error} (expected a violation)")
    if r.error is None:
        raise MachineryError("the listing-order tuner should violate Aligned/OrderInvariant")
    traces = D.direct_traces(rng, quick=chk.quick)
    # two slow epochs with *identical* configs: each must use its own history
    traces += D.engine_traces(gs.NUTSKernel, ["zz", "aa"], ["mm", "Beta"], True, seed=chk.seed, slow=(8, 8))
    # a mass-matrix kernel next to a kernel that does not need the history
    traces += D.engine_traces(gs.HMCKernel, ["zz", "aa"], ["mm"], True, seed=chk.seed + 9, chains=1, companion="rw")
    # the schedule ends with a slow-adaptation epoch; epochs appended and sampled one at a time
    traces += D.engine_traces(gs.HMCKernel, ["zz", "aa"], ["mm"], True, seed=chk.seed + 10, chains=1, companion="rw",
                              tail_posterior=False)
    traces += D.engine_traces(gs.HMCKernel, ["zz", "aa"], ["mm"], True, seed=chk.seed + 11, chains=1, companion="rw", stepwise=True,
                              slow=(8, 8))
    # a fast and a slow adaptation epoch of the same duration (their tuning calls see histories of the same shape), in both
    # orders: slow after fast tunes the matrix from its own history, fast after slow leaves the matrix alone
    traces += D.engine_traces(gs.NUTSKernel, ["zz", "aa"], ["mm"], True, seed=chk.seed + 12, chains=1, companion="rw", fast=8,
                              slow=(8,), tail_fast=8)
    traces += D.engine_traces(gs.HMCKernel, ["zz", "aa"], ["mm", "Beta"], False, seed=chk.seed + 13, chains=2, fast=6, slow=(9, 6),
                              tail_fast=9)
    # a burn-in epoch before the slow adaptation epochs; thinned slow adaptation epochs (tuned on what was recorded)
    traces += D.engine_traces(gs.NUTSKernel, ["zz", "aa"], ["mm"], True, seed=chk.seed + 15, chains=1, companion="rw", pre_burnin=6,
                              slow=(8, 10))
    traces += D.engine_traces(gs.HMCKernel, ["zz", "aa"], ["mm"], True, seed=chk.seed + 16, chains=2, companion="rw", slow=(12, 16),
                              slow_thin=2)
    # next to a kernel whose own tuning reports an error code (identifiers in non-alphabetical order)
    traces += D.engine_traces(gs.NUTSKernel, ["zz", "aa"], ["mm"], True, seed=chk.seed + 14, chains=3, companion="tuneerr", slow=(8, 10))
    if not chk.quick:
        traces += D.engine_traces(gs.HMCKernel, ["zz", "aa"], ["mm", "Beta"], False, seed=chk.seed + 1)
        traces += D.engine_traces(gs.NUTSKernel, ["k", "b1", "Z"], ["alpha_2"], False, seed=chk.seed + 2, slow=(9, 9, 12))
        traces += D.engine_traces(gs.HMCKernel, ["mm", "aa", "zz"], ["b1", "Beta"], True, seed=chk.seed + 3, chains=3)
    chk.tv("Trace_MassMatrix.tla", traces, tag="mm", nontrivial=lambda t: not t["hdr"]["alphabetical"],
           keyfn=lambda r: f"{r.trace['hdr']['kind']}:{'sorted' if r.trace['hdr']['alphabetical'] else 'unsorted'}:{r.conjunct}")
    chk.assumptions += ["the coordinate order blackjax uses is ravel_pytree of the kernel's own position() "
                        "(observed from the real kernel with marker values and checked against the spec's FlatOrder)"]
