"""C19 - error and sample book-keeping in results and summaries is exact.

MC : MC_Results - every error table over codes {0,1,2} for (K,C,T) = (1,2,4) and
     (2,1,3) and every warm-up/posterior split: the code-shaped derivation (masked error
     log, counts over masked columns, warm-up = total - posterior) reports exactly the
     direct per-kernel/code/chain/phase counts; the log lists exactly the failing
     transitions.
TV : real engine runs with scripted-error probe kernels (patterns none / warm-up only /
     posterior only / single chain / random; one or two posterior epochs; thinning);
     get_error_log (both modes), Summary.error_summary, error_df (per chain and merged),
     sample_info, pickle and ArviZ round trips are compared with the spec's counts.
"""
import random

from harness import parallel, results_driver as R
from vlib.core import Check

CFG = "CONSTANTS KK = %d\n CC = %d\n TT = %d\nINIT Init\nNEXT Next\nINVARIANT Inv\nINVARIANT LogExact\n"


def run(chk: Check):
    rng = random.Random(1900 + chk.seed)
    chk.rule = ("one trace = one real engine run whose probe kernels return error codes from a scripted "
                "(kernel, chain, time) table, followed by everything the results/summary API reports; "
                "non-trivial = the table has a non-zero code in warm-up and in a posterior epoch")
    chk.trusted += ["pandas iteration over error_df rows in harness/results_driver.py", "sha256 digests"]
    chk.mc("MC_Results.tla", CFG % (1, 2, 3 if chk.quick else 4), tag="k1c2", expect_actions=["Init"],
           what="all tables K=1, C=2 over {0,1,2}, all phase splits")
    chk.mc("MC_Results.tla", CFG % (2, 1, 3), tag="k2c1", expect_actions=["Init"],
           what="all tables K=2, C=1, T=3 over {0,1,2}, all phase splits")
    jobs = R.jobs(rng, chk.quick)
    traces = parallel.run_jobs("harness.results_driver", "one_run", jobs)
    # built-in kernels reporting errors of their own
    traces += [R.builtin_codes_run(chk.seed + s) for s in range(2 if chk.quick else 12)]

    def nontrivial(t):
        if t["hdr"].get("kind") == "builtin_codes":
            return any(k["seen"] for k in t["ev"][0]["kernels"])
        ph = [c["type"] == 4 for c in t["hdr"]["sched"] for _ in range(c["dur"])]
        tb = t["hdr"]["tbl"]
        w = any(tb[k][c][j] for k in range(len(tb)) for c in range(len(tb[0])) for j in range(len(ph)) if not ph[j])
        p = any(tb[k][c][j] for k in range(len(tb)) for c in range(len(tb[0])) for j in range(len(ph)) if ph[j])
        return w and p

    chk.tv("Trace_Results.tla", traces, tag="results", nontrivial=nontrivial,
           keyfn=lambda r: f"results:{r.conjunct}",
           describe=lambda r: f"schedule {r.trace['hdr']['sched']} crash={r.trace['ev'][0]['crash'][:200]}"
           if r.trace["hdr"].get("kind") != "builtin_codes" else str(r.trace["ev"][0])[:500])


def replay(chk: Check, data):
    h = data["replay"]["trace"]["hdr"]
    if h.get("kind") == "builtin_codes":
        chk.tv("Trace_Results.tla", [R.builtin_codes_run(h["seed"])], tag="results", keyfn=lambda r: f"results:{r.conjunct}")
        return
    t = R.one_run(h["tbl"], [(c["type"], c["dur"], c["thin"]) for c in h["sched"]], J=h.get("J", 1),
                  shared_book=bool(h.get("shared_book")), local_class=bool(h.get("local_class")))
    chk.tv("Trace_Results.tla", [t], tag="results", keyfn=lambda r: f"results:{r.conjunct}")
