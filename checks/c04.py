"""C04 - every built-in kernel leaves the target invariant - decided BY REDUCTION.

A distributional statement cannot be observed on a finite run by a trace validator.
What is decided here:
MC : the design theorem on finite chains - (a) a Metropolis-Hastings kernel built from
     the acceptance rule of MHStep (strict rule, discretised uniform draw) with the
     reported acceptance min(1, pi(x')q(x|x')/(pi(x)q(x'|x))) is in detailed balance, leaks
     no mass into zero-density states and is stationary (MC_Invariance); (b) a Gibbs
     kernel drawing from the exact conditional leaves the target invariant, for each
     block (MC_GibbsInvariance); blockwise sequences of invariant kernels are invariant
     (composition of invariant kernels; OrderRespected / DerivedCoherent of C09 guarantee
     that each kernel of a sequence starts from its predecessor's coherent state).
TV : premise P6, the glue of the HMC / NUTS kernels with blackjax (Trace_Glue): the
     density handed to blackjax is the model's density over the kernel's block (Liesel
     model with a transformed parameter, dict model), blackjax starts at the current
     position with that log-density, its output position is written back and fully
     refreshed, other parameters and the tuning state are untouched.
Premises decided in depth under their own ids: P0 target density = C02, P1 acceptance rule = C05, P2 corrections =
C06, P3 exact conditionals = C13, P4 sequencing / coherence = C09, P5 frozen tuning = C11.
A reduced conformance run of P1-P5 (same trace specs, fewer scenarios) is part of this
check as well, so that a broken premise is reported under C04 too (keys `premise:P<k>:...`),
plus P7: the kernels of a sequence are handed independent keys (engine traces, `engine:...`).
Not decided: that blackjax's integrators / trajectory samplers are pi-invariant, and PRNG
quality (trusted third-party base).  No statistical sampling test is run.
"""
import random

from harness import glue_driver as G
from vlib.core import Check, MachineryError, run_tlc

INV = "CONSTANTS S = {1,2,3}\n M = 4\n Strict = %s\n PiMax = 2\n WMax = %d\nINIT Init\nNEXT Next\nINVARIANT DB\nINVARIANT NoLeak\nINVARIANT Stat\n"
GIB = "CONSTANTS A = {1,2}\n B = {1,2,3}\n PiMax = 3\n Wrong = FALSE\nINIT Init\nNEXT Next\nINVARIANT InvariantA\nINVARIANT InvariantB\n"


def run(chk: Check):
    rng = random.Random(400 + chk.seed)
    chk.rule = ("glue events = eager transitions of real HMC / NUTS kernels with the blackjax factory wrapped by the "
                "driver; non-trivial = Liesel model with the transformed parameter in the kernel's block")
    chk.trusted += ["blackjax HMC / NUTS integrators and trajectory samplers leave the density they are given invariant",
                    "JAX PRNG", "premises C05, C06, C09, C11, C13 are decided by their own checks"]
    chk.mc("MC_Invariance.tla", INV % ("TRUE", 1 if chk.quick else 2), tag="mh-finite-chains", expect_actions=["Init"],
           timeout=1500, what="MH kernel from the strict acceptance rule: detailed balance / no leak / stationary")
    r = run_tlc("MC_Invariance.tla", INV % ("FALSE", 1), tag="C04-nonstrict", timeout=300)
    if r.error is None:
        raise MachineryError("the non-strict acceptance rule should be refuted")
    chk.mc("MC_GibbsInvariance.tla", GIB, tag="gibbs-finite-product", expect_actions=["Init"], workers=8,
           what="exact-conditional Gibbs updates leave pi invariant on A x B = 2 x 3")
    evs = []
    for kern, model, block in ([("hmc", "liesel", ("b", "sigma_transformed")), ("nuts", "dict", ("b",))] if chk.quick else
                               [("hmc", "liesel", ("b", "sigma_transformed")), ("nuts", "liesel", ("sigma_transformed", "b")),
                                ("nuts", "dict", ("b",)), ("hmc", "dict", ("sigma_transformed", "m")),
                                ("nuts", "liesel", ("m",))]):
        evs.append({"hdr": {"kernel": kern, "model": model, "block": list(block)},
                    "ev": G.glue_events(rng, kern, model, block, n=3 if chk.quick else 6)})
    chk.tv("Trace_Glue.tla", evs, tag="blackjax_glue",
           nontrivial=lambda t: t["hdr"]["model"] == "liesel" or len(t["hdr"]["block"]) >= 1,
           keyfn=lambda r: f"glue:{r.trace['hdr']['kernel']}:{r.trace['hdr']['model']}:{r.conjunct}",
           describe=lambda r: r.trace["ev"][r.line - 1].get("crash", "")[:300])
    premises(chk, rng)
    chk.assumptions += ["C04 is decided by reduction: design theorem (TLC) + conformance of premises; the pi-invariance of "
                        "blackjax's HMC/NUTS and PRNG quality are trusted"]


def premises(chk, rng):
    """Reduced conformance of the premises P1-P3 (decided in depth by C05 / C06 / C13)."""
    from harness import gibbs_driver, mh_driver, parallel, proposals_driver as P
    # P0: the density every kernel reads (Model.log_prob) is the joint density of the model: every distribution node
    # is a factor, also one that is not attached to a variable
    from checks.c02 import TV_CFG as LP_CFG
    from harness import logprob_driver as L
    lt = [L.symbolic_trace(rng) for _ in range(60 if chk.quick else 600)]
    lt += [L.numeric_trace(rng, nm, nassign=2) for nm in L.FAMILY]
    chk.tv("Trace_LogProb.tla", lt, tag="premise_P0_target_density", next_="TNext2", cfg_extra=LP_CFG, timeout=1200,
           keyfn=lambda r: f"premise:P0:{r.trace['hdr'].get('family', 'symbolic')}:{r.conjunct}",
           describe=lambda r: str(r.trace["hdr"].get("family") or r.trace["hdr"].get("plan"))[:300])
    # P1: acceptance rule of mh_step
    cmb = mh_driver.combos()
    seeds = [rng.randrange(1 << 30) for _ in range(8 if chk.quick else 64)]
    chk.tv("Trace_MHStep.tla", mh_driver.traces_for_keys(seeds, cmb, "vmap_jit"), tag="premise_P1_acceptance",
           keyfn=lambda r: f"premise:P1:mh_step:{r.conjunct}")
    # P2: corrections of IWLS / RW / MH proposals (families with state-dependent information first)
    js = [j for j in P.jobs(chk.quick) if j["family"] in ("poisson", "coupled", "poisson_userchol", "gamma_mh", "gamma_coupled", "student_t")]
    tr = [t for res in parallel.run_jobs("harness.proposals_driver", "run", js) for t in res]
    chk.tv("Trace_Proposals.tla", tr, tag="premise_P2_corrections", timeout=900,
           keyfn=lambda r: f"premise:P2:{r.trace['hdr']['kernel']}:{r.conjunct}",
           describe=lambda r: f"family {r.trace['hdr']['family']} step {r.trace['hdr']['step']}")
    # P3: Gibbs kernels draw from the exact full conditional of the *current* model state
    gt = [{"hdr": {"kind": "tau2", "d": 3, "order": 1, "nontrivial": True}, "ev": gibbs_driver.tau2_events(rng, 3, 1, nkeys=3)},
          {"hdr": {"kind": "bernoulli_direct", "nontrivial": True},
           "ev": gibbs_driver.discrete_events(rng, "bernoulli_direct", nkeys=64)},
          {"hdr": {"kind": "finite_via_named_var", "nontrivial": True},
           "ev": gibbs_driver.discrete_events(rng, "finite_via_named_var", nkeys=64)}]
    chk.tv("Trace_Gibbs.tla", gt, tag="premise_P3_conditionals", keyfn=lambda r: f"premise:P3:{r.trace['hdr']['kind']}:{r.conjunct}")
    # P4: the state a kernel hands on is coherent (Liesel model with a weak distributed variable and a default-transformed
    # parameter whose bijector depends on another sampled parameter), closed form as the oracle
    ct = [t for r in parallel.run_jobs("harness.comp_driver", "run", [dict(seq="rw_hi_u_ab", model_kind="liesel2", seed=chk.seed + 3)])
          for t in r]
    chk.tv("Trace_Composition.tla", ct, tag="premise_P4_coherence", keyfn=lambda r: f"premise:P4:{r.conjunct}")
    # P5: tuning parameters are frozen outside adaptation epochs (burn-in and posterior transitions are not adaptive)
    from harness import da_driver
    dt = da_driver.engine_traces(["rw", "mh_on"], (0.3, 0.2, 0.9, 25, 0.5), da_driver.SCHEDULES[0], chains=2, seed=chk.seed)
    # ... and a step size given to HMC / NUTS is what every chain starts (and, without adaptation, stays) with
    dt += da_driver.engine_traces(["hmc"], (0.8, 0.05, 0.75, 10, 0.5), [(2, 3), (4, 3)], chains=3, seed=chk.seed + 1)
    dt += da_driver.engine_traces(["nuts"], (0.8, 0.05, 0.75, 10, 0.5), [(4, 3)], chains=3, seed=chk.seed + 2)
    chk.tv("Trace_DA.tla", dt, tag="premise_P5_frozen_tuning", keyfn=lambda r: f"premise:P5:{r.trace['hdr'].get('kernel', '')}:{r.conjunct}")
    # P7: the kernels of a sequence draw from independent random streams (no call's key is a split child of another's)
    from checks import engine_common as EC
    EC.validate(chk, EC.run_scenarios(chk, EC.handwritten(True)[:2], "premise_P7_keys"), "premise_P7_keys")
