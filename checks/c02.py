"""C02 - model log-probability equals the joint log-density and decomposes as documented.

MC : MC_ModelLogProb - every program with <= 3 distribution nodes over all flag
     combinations (has var / observed / parameter) and possibly equal leaves:
     Decomposition (bags), restricted sums are sub-bags.
TV : (structure, symbolic) random programs of strong / weak / free distribution nodes with
     term-valued fake distributions on real liesel Models: the three totals come back as
     multisets of leaves and must equal the bags over ProbInputs / LikInputs /
     PriorInputs with each leaf = the distribution applied to the current input values;
     user-supplied total nodes are forwarded unchanged;
     (numeric) a family of real TFP models (linear regression with a weak intermediate
     var, both / no flags, user-supplied log-lik node, transformed parameter, degenerate
     multivariate normal prior + free distribution node, hierarchical vector prior,
     DistRegBuilder model): leaves computed outside liesel from the driver's recipe, per_obs
     toggled both ways, at several assignments of admissible values.
"""
import random

from harness import logprob_driver as L
from vlib.core import Check, MachineryError, run_tlc

MC = "INIT Init\nNEXT Next\nINVARIANT DecompositionInv\nINVARIANT SubBags\n"
TV_CFG = 'CONSTANTS None = "-"\n Apply <- ApplyStr\n Draw <- DrawStr\n FromScratch = TRUE\n ErrVal = "ERR"\n'


def run(chk: Check):
    rng = random.Random(200 + chk.seed)
    chk.rule = ("symbolic traces = random programs (1-4 distributed variables, strong/weak/free distribution nodes, all "
                "flag combinations, optional user total node) with totals after build and after each assignment; "
                "numeric traces = real TFP model families at several admissible values; non-trivial = the program has "
                ">= 2 distribution nodes of which at least one is in log-lik or log-prior but not both")
    chk.trusted += ["TFP log_prob (leaves computed by the driver's own recipe)", "splitting of term sums at '+'"]
    chk.mc("MC_ModelLogProb.tla", MC, tag="programs", expect_actions=["Init"], workers=8,
           what="all programs <= 3 distribution nodes x flags x leaves in {x, y}")
    r = run_tlc("MC_ModelLogProb.tla", "INIT Init\nNEXT Next\nINVARIANT ReachBoth\n", tag="C02-vac", workers=4)
    if r.error != "invariant:ReachBoth":
        raise MachineryError("vacuity gate ReachBoth")
    traces = [L.symbolic_trace(rng) for _ in range(300 if chk.quick else 5000)]
    for nm in L.FAMILY:
        for _ in range(1 if chk.quick else 6):
            traces.append(L.numeric_trace(rng, nm, nassign=4 if chk.quick else 8))

    def nontrivial(t):
        if "family" in t["hdr"]:
            return len(t["ev"][0]["leaves"]) >= 2
        d = t["hdr"]["dists"]
        return len(d) >= 2 and any(t["hdr"]["observed"][i - 1] != t["hdr"]["parameter"][i - 1] for i in d)

    chk.tv("Trace_LogProb.tla", traces, tag="totals", next_="TNext2", cfg_extra=TV_CFG, nontrivial=nontrivial,
           timeout=1800,
           keyfn=lambda r: f"{r.trace['hdr'].get('family', 'symbolic')}:{r.conjunct}",
           describe=lambda r: str(r.trace["hdr"].get("family") or r.trace["hdr"].get("plan"))[:400])


def replay(chk: Check, data):
    tr = data["replay"]["trace"]
    if "family" in tr["hdr"]:
        t = L.numeric_trace(random.Random(0), tr["hdr"]["family"])
    else:
        plan = tr["hdr"]["plan"]
        user = {k: tr["hdr"][f"user_{k}"] for k in ("lp", "ll", "lpr") if tr["hdr"][f"user_{k}"]}
        run_ = L.ProgramRun(plan, user)
        hdr = run_.header()
        ev = [run_.totals()]
        for o in tr["hdr"]["ops"]:
            if o["ev"] == "targeted_total":
                ev.append(run_.targeted_total(o["which"]))
                continue
            ev.append(run_.failed_simulate() if o["ev"] == "failed_simulate" else
                      run_.rebuild(o["n"], o["x"]) if o["ev"] == "rebuild" else run_.op(o))
            if run_.model.auto_update:
                ev.append(run_.totals())
        hdr["ops"] = tr["hdr"]["ops"]
        t = {"hdr": hdr, "ev": ev}
    chk.tv("Trace_LogProb.tla", [t], tag="replay", next_="TNext2", cfg_extra=TV_CFG,
           keyfn=lambda r: f"{r.trace['hdr'].get('family', 'symbolic')}:{r.conjunct}")
