"""C15 - built models are complete, acyclic, uniquely named, frozen, and round-trip.

MC : MC_LieselBuild - object-level life-cycle spec: all sequences of add / build(copy) /
     rename attempt / pop / copy / assign on a three-object universe (named, unnamed,
     seeded) with <= 2 models: ClosureOK, UniqueNonEmptyNames, RoundTrip, RebuildAccepted,
     FrozenOK, Frozen (rejected mutation changes nothing), Independent; a cyclic universe
     (CycleRejected).  DetachSeed = FALSE (seed input stays attached after pop) is refuted:
     design-level explanation of finding C15.
TV : real liesel objects (Value, Calc, unnamed Calc, seeded Calc) under random sequences of
     add / build(copy) / every guarded mutator / pop / deepcopy / copy_nodes_and_vars +
     rebuild / save + load / assignment; outcome (accepted / reason of rejection), names,
     wiring, outputs-inverse, topological order, round trip and independence validated.
"""
import random

from harness import build_driver as B
from vlib.core import Check, MachineryError, run_tlc

MC = """CONSTANTS NU = {nu}
 UIn <- {uin}
 Seeded = {seeded}
 InitName <- {names}
 DetachSeed = {detach}
 UserSeeded = {{}}
 MaxModels = 2
 Atoms = {{"p", "q"}}
SPECIFICATION Spec
INVARIANT ClosureOK
INVARIANT UniqueNonEmptyNames
INVARIANT RoundTrip
INVARIANT RebuildAccepted
INVARIANT FrozenOK
INVARIANT CycleRejected
"""
PROPS = "PROPERTY FrozenA\nPROPERTY IndependentA\n"
TV_CFG = ('CONSTANTS NU = 4\n UIn <- UIn1\n Seeded = {4}\n InitName <- Names1\n DetachSeed = TRUE\n UserSeeded = {}\n'
          ' MaxModels = 4\n Atoms = {"1.0"}\n')


def run(chk: Check):
    rng = random.Random(1500 + chk.seed)
    chk.rule = ("one trace = a random sequence of add / build / mutator attempts / pop / copies / assignments on real "
                "liesel objects (named, unnamed and seeded nodes, shared inputs); non-trivial = contains a pop followed "
                "by a rebuild, or a copy, of a model with the seeded node")
    chk.trusted += ["harness/build_driver.py projection of a real Model (names, wiring, values, outdated flags)"]
    chk.mc("MC_LieselBuild.tla", MC.format(nu=3, uin="UIn3", seeded="{3}", names="Names3", detach="TRUE") + PROPS,
           tag="three-objects", expect_actions=["Add", "Build", "Rename", "Pop", "CopyModel", "AssignIn"],
           what="universe a <- (unnamed) -> s(seeded); all operation sequences, <= 2 models", timeout=900)
    chk.mc("MC_LieselBuild.tla", MC.format(nu=4, uin="UInCyc", seeded="{}", names="Names1", detach="TRUE"),
           tag="cyclic", what="deliberately cyclic universe 1 <- 2 <- 3 <- 1: build rejected", timeout=900)
    r = run_tlc("MC_LieselBuild.tla", MC.format(nu=3, uin="UIn3", seeded="{3}", names="Names3", detach="FALSE"),
                tag="C15-attached", timeout=300)
    chk.note(f"design variant 'seed input stays attached after pop': {r.error} (expected invariant:RebuildAccepted)")
    if r.error != "invariant:RebuildAccepted":
        raise MachineryError("DetachSeed = FALSE should violate RebuildAccepted")
    traces = [B.random_trace(rng, nops=rng.randint(8, 18)) for _ in range(400 if chk.quick else 6000)]
    traces += B.dropped_then_subgraph_traces()

    def nontrivial(t):
        evs = t["ev"]
        for i, e in enumerate(evs):
            if e["ev"] == "copy" and e.get("ok") and 4 in e["proj"]["objs"]:
                return True
            if e["ev"] == "pop" and any(x["ev"] == "build" and x.get("ok") for x in evs[i + 1:]):
                return True
        return False

    # models with variables and distribution nodes (random plans): structure of one build; graphs that must be rejected
    plans = [B.plan_build_trace(rng, 8) for _ in range(12 if chk.quick else 150)] + [B.rejected_build_events(), B.copy_behaviour_events(), B.moved_dist_events(), B.user_total_nodes_events(), B.direct_value_consumer_events()]
    chk.tv("Trace_LieselBuild.tla", plans, tag="plans_with_variables", cfg_extra=TV_CFG,
           keyfn=lambda r: f"build:plans:{r.conjunct}:{r.trace['ev'][r.line - 1].get('what', '')}",
           describe=lambda r: str({k: v for k, v in r.trace["ev"][r.line - 1].items() if k != "all_names"})[:400])
    cyc = [B.cyclic_trace(False), B.cyclic_trace(True)]
    chk.tv("Trace_LieselBuild.tla", cyc, tag="cyclic_universe",
           cfg_extra=TV_CFG.replace("UIn <- UIn1", "UIn <- UInCycT").replace("Seeded = {4}", "Seeded = {}"),
           keyfn=lambda r: f"build:cyclic:{r.conjunct}")
    # ... with a seeded node on the cycle, and while the caller still holds the exception of the rejected build
    cyc = [B.cyclic_trace(c, seeded=True, hold=h) for c in (False, True) for h in (False, True)]
    chk.tv("Trace_LieselBuild.tla", cyc, tag="cyclic_universe_seeded",
           cfg_extra=TV_CFG.replace("UIn <- UIn1", "UIn <- UInCycT").replace("Seeded = {4}", "Seeded = {2}"),
           keyfn=lambda r: f"build:cyclic_seeded:{r.conjunct}")
    # a seeded node whose seed the user wired in: the model adds no seed node for it and never takes the input away
    useed = [B.random_trace(rng, nops=rng.randint(8, 18), user_seed=True) for _ in range(80 if chk.quick else 1500)]
    chk.tv("Trace_LieselBuild.tla", useed, tag="objects_user_seed",
           cfg_extra=TV_CFG.replace("NU = 4", "NU = 5").replace("UIn <- UIn1", "UIn <- UIn5").replace("Seeded = {4}", "Seeded = {}")
           .replace("InitName <- Names1", "InitName <- Names5").replace("UserSeeded = {}", "UserSeeded = {4}"),
           keyfn=lambda r: f"build:user_seed:{r.conjunct}:{r.trace['ev'][r.line - 1]['ev']}:{r.trace['ev'][r.line - 1].get('reason', '')}",
           describe=lambda r: str([(x["ev"], x.get("o"), x.get("m"), x.get("copy"), x.get("how"), x.get("which"),
                                    x.get("reason")) for x in r.trace["ev"][: r.line]])[:600])
    chk.tv("Trace_LieselBuild.tla", traces, tag="objects", cfg_extra=TV_CFG, nontrivial=nontrivial,
           keyfn=lambda r: f"build:{r.conjunct}:{r.trace['ev'][r.line - 1]['ev']}:{r.trace['ev'][r.line - 1].get('reason', '')}",
           describe=lambda r: str([(x["ev"], x.get("o"), x.get("m"), x.get("copy"), x.get("how"), x.get("which"),
                                    x.get("reason")) for x in r.trace["ev"][: r.line]])[:600])
