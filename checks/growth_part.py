"""Development helper: run one part of the growth check: GROWTH_PART=<function name> ./check growth_part"""
import os
import random

from checks import growth


def run(chk):
    rng = random.Random(9000 + chk.seed)
    chk.rule = "part of growth"
    getattr(growth, os.environ["GROWTH_PART"])(chk, rng)
