"""C20 - optim_flat: documented stopping rule, restored optimum, fresh mini-batches.

MC : MC_Optim - every loss history of length <= 5 (thorough 6, with -1 and NaN) over a
     small alphabet x patience x tolerances x iteration index: the code-shaped stopper
     (dynamic_slice with clamping, i > p) agrees with the documented rule outside the
     don't-care iterations {p-1, p}; the restored index is the first minimum of the final
     patience window.
TV : the real Stopper (jitted+vmapped and eager) on the same enumerated space; complete
     optim_flat runs (with/without validation model, restore, prune, batch sizes dividing
     and not dividing n) with hook H1 recording the per-iteration sub-key and batches.
"""
from harness import optim_driver as D, parallel
from vlib.core import Check, MachineryError, run_tlc

CFG = """CONSTANTS MaxLen = {maxlen}
 Losses = {losses}
 Ps = {{1, 2, 3, 4}}
 Atols = {{"0.0", "0.5", "1.0"}}
 Rtols = {{"0.0", "0.5"}}
INIT Init
NEXT Next
"""


def run(chk: Check):
    chk.rule = ("stopper events = the real Stopper evaluated on every enumerated (history, patience, atol, rtol, i); "
                "run events = complete optim_flat runs with recorded mini-batches; non-trivial run = stopped early "
                "or used mini-batches with a batch size not dividing n")
    chk.trusted += ["hook H1 (liesel/_verif.py + jax.debug.callback in optim_flat.body_fun, guarded by LIESEL_VERIF)"]
    losses = '{"0.0", "1.0", "2.0", "3.0"}'
    chk.mc("MC_Optim.tla", CFG.format(maxlen=5, losses=losses) + "INVARIANT AgreeInv\nINVARIANT BestInv\n",
           tag="stopper", expect_actions=["Init"], what="all histories len<=5 over {0,1,2,3}")
    if not chk.quick:
        chk.mc("MC_Optim.tla", CFG.format(maxlen=5, losses='{"-1.0", "0.0", "1.0", "2.5", "NaN"}')
               + "INVARIANT AgreeInv\nINVARIANT BestInv\n", tag="stopper-nan",
               what="all histories len<=5 over {-1,0,1,2.5,NaN}")
    for inv in ("ReachStop", "ReachNoStop"):
        r = run_tlc("MC_Optim.tla", CFG.format(maxlen=5, losses=losses) + f"INVARIANT {inv}\n", tag=f"C20-{inv}")
        if r.error != f"invariant:{inv}":
            raise MachineryError(f"vacuity gate {inv}")
    if chk.quick:
        evs = D.stopper_events([0.0, 1.0, 2.0, 3.0], 4, [1, 2, 3, 4], [0.0, 0.5, 1.0], [0.0, 0.5], modes=("jit", "eager"))
    else:
        evs = D.stopper_events([0.0, 1.0, 2.0, 3.0], 5, [1, 2, 3, 4], [0.0, 0.5, 1.0], [0.0, 0.5], modes=("jit", "eager"))
        evs += D.stopper_events([-1.0, 0.0, 2.5, float("nan")], 4, [1, 2, 3], [0.0, 1.0], [0.0, 0.5], modes=("jit",))
    traces = [{"hdr": {"kind": "stopper"}, "ev": evs[i:i + 4000]} for i in range(0, len(evs), 4000)]
    traces += parallel.run_jobs("harness.optim_driver", "one_run", D.run_jobs_list(chk.quick))

    def nontrivial(t):
        if t["hdr"]["kind"] == "stopper":
            return any(e["stop_early"] for e in t["ev"])
        e = t["ev"][0]
        return e.get("iteration", 0) < e["max_iter"] - 1 or e["n"] % e["batch_size"] != 0

    chk.tv("Trace_Optim.tla", traces, tag="optim", nontrivial=nontrivial,
           keyfn=lambda r: f"{r.trace['hdr']['kind']}:{r.conjunct}",
           describe=lambda r: str(r.trace["hdr"].get("kwargs", "")) + " " + str(r.trace["ev"][r.line - 1].get("crash", ""))[:300])
    chk.extra["stopper_evaluations"] = len(evs)
    chk.assumptions += ["patience <= max_iter (otherwise dynamic_slice cannot be traced)",
                        "iterations p-1 and p are a don't-care for the 'full window' clause (documentation vs code wording)"]


def replay(chk: Check, data):
    tr = data["replay"]["trace"]
    if tr["hdr"]["kind"] == "run":
        chk.tv("Trace_Optim.tla", [D.one_run(**tr["hdr"]["kwargs"])], tag="optim",
               keyfn=lambda r: f"{r.trace['hdr']['kind']}:{r.conjunct}")
    else:
        chk.tv("Trace_Optim.tla", [tr], tag="optim", keyfn=lambda r: f"{r.trace['hdr']['kind']}:{r.conjunct}")
