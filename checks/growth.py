"""GROWTH - specification coverage beyond the listed properties (not registered in
MANIFEST.json; run with `./check growth`).  A failure here is reported like any other
check but does not concern one of the given properties."""
import random

from harness import growth_driver as D
from vlib.core import Check


def run(chk: Check):
    rng = random.Random(9000 + chk.seed)
    chk.rule = "events of behaviour beyond the listed properties: builder validation, epoch clocks, set_seed, groups"
    cfg = "CONSTANTS K = 1\n"
    chk.mc("MC_Builder.tla", "INIT Init\nNEXT Next\nINVARIANT AcceptsInv\n", tag="builder", expect_actions=["Init"], workers=4,
           what="every builder configuration over small alphabets: accepts iff buildable")
    traces = [{"hdr": {"kind": "builder"}, "ev": D.builder_events()},
              {"hdr": {"kind": "epoch_time"}, "ev": D.epoch_time_events(rng)},
              {"hdr": {"kind": "set_seed"}, "ev": D.set_seed_events(rng)},
              {"hdr": {"kind": "group"}, "ev": D.group_events(rng)},
              {"hdr": {"kind": "builder_ops"}, "ev": D.builder_ops_events(rng, 60 if chk.quick else 600)},
              {"hdr": {"kind": "gb_update"}, "ev": D.gb_update_events(rng, 40 if chk.quick else 600)},
              {"hdr": {"kind": "builder_order"}, "ev": D.builder_order_events(rng, 5 if chk.quick else 40)},
              {"hdr": {"kind": "replace_var"}, "ev": D.replace_var_events(rng, 60 if chk.quick else 800)},
              {"hdr": {"kind": "distreg_wiring"}, "ev": D.wiring_events()},
              {"hdr": {"kind": "var_graph"}, "ev": D.var_graph_events(rng, 40 if chk.quick else 400)}]
    chk.tv("Trace_Growth.tla", traces, tag="growth", keyfn=lambda r: f"{r.trace['hdr']['kind']}:{r.conjunct}",
           describe=lambda r: str(r.trace["ev"][r.line - 1])[:400])

    var_wiring(chk, rng)
    chains(chk, rng)
    groups(chk, rng)
    distreg(chk, rng)
    logging_(chk, rng)
    node_api(chk, rng)
    mvnd_numeric(chk, rng)
    builder_life(chk, rng)


VW_MC = """CONSTANTS NV = 2 NN = {nn} Kind <- Kind{nn} Names = {names} Atomic = {atomic}
SPECIFICATION Spec
VIEW View
INVARIANT ClaimsImplyHolds
"""
VW_STRICT = "INVARIANT DistAtOwnVar\nINVARIANT HoldsImplyClaims\nINVARIANT AtMostOneVar\nPROPERTY RejectedIsNoOp\n"


def var_wiring(chk, rng):
    """VarWiring.tla: ownership of nodes by variables (Var.value_node / dist_node / name setters, Dist.at)."""
    import re
    from vlib.core import run_tlc, simulate_behaviours
    acts = ["DoSetValueNode", "DoSetDistNode", "DoSetAt", "DoSetVarName", "DoSetNodeName"]
    for nn, names in ((3, '{""}'), (2, '{"", "a"}')):
        chk.mc("MC_VarWiring.tla", VW_MC.format(nn=nn, names=names, atomic="TRUE") + VW_STRICT, tag=f"varwiring-atomic-{nn}",
               expect_actions=acts, what=f"2 vars, {nn} free nodes, names {names}: with atomic setters every ownership invariant holds")
        chk.mc("MC_VarWiring.tla", VW_MC.format(nn=nn, names=names, atomic="FALSE"), tag=f"varwiring-as-coded-{nn}", expect_actions=acts,
               what=f"2 vars, {nn} free nodes, names {names}; as coded: a node never claims a var that does not hold it")
    # the stronger invariants are expected to FAIL for the setters as coded (documented deviation G1, DESIGN 14.7)
    r = run_tlc("MC_VarWiring.tla", VW_MC.format(nn=3, names='{""}', atomic="FALSE") + "INVARIANT AtMostOneVar\n", tag="growth-vw-g1",
                workers=1, timeout=120)
    chk.extra["G1_as_coded_counterexample"] = r.error or "none"
    if r.error == "invariant:AtMostOneVar":
        ops = [re.findall(r'"(\w+)", (\d+), (\d+)', m) for m in re.findall(r"/\\ last = <<(.*?)>>", r.cex)]
        ops = [o[0] for o in ops if o]
        key = {"set_value_node": ("v", "n"), "set_dist_node": ("v", "d"), "set_at": ("d", "w")}
        replay = [{"op": o[0], key[o[0]][0]: int(o[1]), key[o[0]][1]: int(o[2])} for o in ops]
        t = D.wiring_trace(rng, ops=replay, nv=2, kinds=["val", "dist", "dist"])
        last = t["ev"][-1]["obs"]
        shared = [n for n in set(last["vval"]) if last["vval"].count(n) > 1]
        chk.extra["G1_counterexample_reproduced_on_real_objects"] = bool(shared)
        chk.note("G1 (not a listed property): Var.value_node / Var.dist_node setters are not atomic - a rejected call "
                 "releases the var's current node; TLC's counterexample (one node ends up the value node of two vars) "
                 f"replayed on real objects: reproduced={bool(shared)} ops={replay}")
    cfg4 = 'CONSTANTS NV = 3 NN = 4 Kind <- Kind4 Names = {""} Atomic = FALSE\n'
    cfg3 = 'CONSTANTS NV = 2 NN = 3 Kind <- Kind3 Names = {""} Atomic = FALSE\n'
    traces = [D.wiring_trace(rng, 30, nv=3, kinds=["val", "val", "dist", "dist"]) for _ in range(150 if chk.quick else 3000)]
    chk.tv("Trace_VarWiring.tla", traces, tag="var_wiring", cfg_extra=cfg4, keyfn=lambda r: f"var_wiring:{r.conjunct}",
           describe=lambda r: str(r.trace["ev"][r.line - 1])[:400])
    # spec -> code: behaviours of the as-coded spec replayed on real objects
    bs = simulate_behaviours("MC_VarWiring.tla", VW_MC.format(nn=3, names='{"", "a", "b"}', atomic="FALSE"), tag="growth-vw-rp",
                             num=60 if chk.quick else 1000, depth=14, seed=chk.seed + 3)
    rp = []
    names = {"set_value_node": ("v", "n"), "set_dist_node": ("v", "d"), "set_at": ("d", "w"), "set_var_name": ("v", "s"),
             "set_node_name": ("n", "s")}
    for b in bs:
        ops = []
        for _, st in b[1:]:
            m = re.search(r'/\\ last = <<"(\w+)", (\d+), ("?)(\w*)"?>>', st)
            a, c = names[m.group(1)]
            ops.append({"op": m.group(1), a: int(m.group(2)), c: m.group(4) if m.group(3) else int(m.group(4))})
        rp.append(D.wiring_trace(rng, ops=ops, nv=2, kinds=["val", "dist", "dist"]))
    chk.extra["varwiring_tlc_behaviours_replayed"] = len(rp)
    chk.tv("Trace_VarWiring.tla", rp, tag="var_wiring_replay", cfg_extra=cfg3, keyfn=lambda r: f"var_wiring_replay:{r.conjunct}",
           describe=lambda r: str(r.trace["ev"][r.line - 1])[:400])


CH_MC = """CONSTANTS ApplyThinning = {at} MaxEpochs = 2 MaxItems = {mi} Thins = {{1,2,3}} Sizes = {{0,1,2,3,5}}
SPECIFICATION Spec
INVARIANT ThinningIndependentOfChunking
INVARIANT NoneIffNothingHeld
"""


def chains(chk, rng):
    """Chain.tla: ListEpochChain thinning is independent of the chunking; EpochChainManager combination."""
    for at in ("TRUE", "FALSE"):
        chk.mc("MC_Chain.tla", CH_MC.format(at=at, mi=7 if chk.quick else 10), tag=f"chain-thinning-{at}",
               expect_actions=["AdvanceEpoch", "AppendChunk", "DoGet"],
               what="2 epochs, thinning 1..3, every sequence of chunk sizes {0,1,2,3,5}: stored = items th, 2th, ...")
    for at in (True, False):
        trs = [D.chain_trace(rng, at, 30) for _ in range(60 if chk.quick else 1500)]
        cfg = "CONSTANTS ApplyThinning = %s MaxEpochs = 99 MaxItems = 100000 Thins = {} Sizes = {}\n" % ("TRUE" if at else "FALSE")
        chk.tv("Trace_Chain.tla", trs, tag=f"chain_{at}", cfg_extra=cfg, keyfn=lambda r: f"chain:{r.conjunct}",
               describe=lambda r: str(r.trace["ev"][r.line - 1])[:300])


GR_MC = """CONSTANTS NM = 3 GNames = {{"a", "b"}} Atomic = {at} MaxGroups = 4
SPECIFICATION Spec
"""


def groups(chk, rng):
    """Groups.tla: registration of group members; atomic (intended) vs as coded (G3)."""
    from vlib.core import run_tlc
    chk.mc("MC_Groups.tla", GR_MC.format(at="TRUE") + "INVARIANT RegistrationsAreReal\nINVARIANT MembersAreRegistered\n"
           "PROPERTY RejectedIsNoOp\n", tag="groups-atomic", expect_actions=["NewGroup"], workers=4,
           what="3 members, names {a,b}, <= 4 groups: with an atomic constructor registrations and memberships agree")
    chk.mc("MC_Groups.tla", GR_MC.format(at="FALSE") + "INVARIANT MembersAreRegistered\n", tag="groups-as-coded",
           expect_actions=["NewGroup"], workers=4, what="as coded: every member of a constructed group is registered to it")
    r = run_tlc("MC_Groups.tla", GR_MC.format(at="FALSE") + "INVARIANT RegistrationsAreReal\n", tag="growth-groups-g3", workers=1,
                timeout=120)
    chk.extra["G3_as_coded_counterexample"] = r.error or "none"
    chk.note("G3 (not a listed property): a rejected Group(name, ...) constructor has already registered the members listed "
             "before the offending one to a group object that is never returned; they can no longer join a group of that name "
             f"(TLC: {r.error}); the traces of real objects are validated against the as-coded spec")
    trs = [D.groups_trace(rng) for _ in range(100 if chk.quick else 3000)]
    cfg = 'CONSTANTS NM = 4 GNames = {"a", "b"} Atomic = FALSE MaxGroups = 99\n'
    chk.tv("Trace_Groups.tla", trs, tag="groups", cfg_extra=cfg, keyfn=lambda r: f"groups:{r.conjunct}",
           describe=lambda r: str(r.trace["ev"][r.line - 1])[:300])


def distreg(chk, rng):
    """DistReg.tla: order-dependent assembly rules of DistRegBuilder, as coded."""
    cfg = 'CONSTANTS Preds = {"loc", "scale"} Explicit = {"", "s"}\n'
    chk.mc("MC_DistReg.tla", cfg + "SPECIFICATION Spec\nCONSTRAINT Bound\nINVARIANT InputsAreRegistered\n"
           "INVARIANT InputNamesDistinct\nINVARIANT ResponseWiredToAllPredictors\n", tag="distreg",
           expect_actions=["AddResponse", "AddPredictor", "AddPSmooth", "AddNPSmooth"], workers=4,
           what="2 predictors, automatic / one explicit smooth name, <= 3 smooths per predictor, every call order")
    trs = [D.distreg_trace(rng, 12) for _ in range(80 if chk.quick else 2000)]
    chk.tv("Trace_DistReg.tla", trs, tag="distreg", cfg_extra=cfg, keyfn=lambda r: f"distreg:{r.conjunct}",
           describe=lambda r: str([(e["op"], e.get("p"), e.get("name"), e["rej"]) for e in r.trace["ev"][:r.line]])[:400])
    chk.note("G4 (not a listed property): DistRegBuilder error paths are not atomic - add_np_smooth for an unknown predictor "
             "registers the smooth name before failing with a KeyError; a smooth whose explicit name clashes with a group of "
             "another predictor is wired into its predictor before add_groups raises; re-adding a predictor keeps the old "
             "smooth names taken (RegistryIsInputs is refuted by TLC for the as-coded spec)")


LG_MC = """CONSTANTS ResetAsCoded = {ac} MaxHandlers = 3
SPECIFICATION Spec
INVARIANT NoDuplicationViaRoot
PROPERTY SetupState
"""


def logging_(chk, rng):
    """Logging.tla: setup_logger / reset_logger / add_file_handler and the delivery rule; reset as documented vs as coded (G7)."""
    from vlib.core import run_tlc
    acts = ["Setup", "Reset", "AddFile"]
    chk.mc("MC_Logging.tla", LG_MC.format(ac="FALSE") + "PROPERTY ResetRemovesAllHandlers\nPROPERTY AfterResetOnlyRoot\n",
           tag="logging-documented", expect_actions=acts, workers=2,
           what="<= 3 handlers per logger, every call order: a documented reset removes all handlers; afterwards only the root sees records")
    chk.mc("MC_Logging.tla", LG_MC.format(ac="TRUE"), tag="logging-as-coded", expect_actions=acts, workers=2,
           what="as coded: setup state and no duplication via the root logger")
    r = run_tlc("MC_Logging.tla", LG_MC.format(ac="TRUE") + "PROPERTY ResetRemovesAllHandlers\n", tag="growth-logging-g7", workers=1,
                timeout=120)
    chk.extra["G7_as_coded_counterexample"] = r.error or "none"
    trs = [D.logging_trace(rng, 16) for _ in range(40 if chk.quick else 1000)]
    survived = sum(1 for t in trs for e in t["ev"] if e["ev"] == "reset" and e["obs"]["handlers"]["liesel"])
    chk.extra["G7_resets_leaving_handlers_on_real_logger"] = survived
    chk.note("G7 (not a listed property): reset_logger is documented to remove all handlers of the liesel logger but removes "
             "from the list it iterates over - with two or more handlers every second one survives "
             f"(TLC: {r.error}; observed on the real logger in {survived} recorded resets); traces are validated against the as-coded spec")
    cfg = "CONSTANTS ResetAsCoded = TRUE MaxHandlers = 99\n"
    chk.tv("Trace_Logging.tla", trs, tag="logging", cfg_extra=cfg, keyfn=lambda r: f"logging:{r.conjunct}",
           describe=lambda r: str(r.trace["ev"][r.line - 1])[:400])


def node_api(chk, rng):
    """LieselGraph.tla: Node.update() on a single node without its precondition (G8)."""
    import re
    from checks.c01 import CFG, AB
    from harness import graph_driver as GD
    from vlib.core import run_tlc
    cfg = CFG.format(n=3, kinds='{"v", "c"}', atoms=AB).replace("SPECIFICATION Spec", "SPECIFICATION SpecAny")
    r = run_tlc("MC_LieselGraph.tla", cfg, tag="growth-node-update-g8", workers=1, timeout=300)
    chk.extra["G8_as_coded_counterexample"] = r.error or "none"
    # the shortest history of that kind on a real model: v -> c2 -> c3, assignment with auto-update off,
    # c3.update() (reads the stale c2), full update
    plan = [{"kind": "v", "inp": []}, {"kind": "c", "inp": [1]}, {"kind": "c", "inp": [2]}]
    run = GD.GraphRun(plan)
    run.header()
    evs = [run.op(o) for o in ({"ev": "set_auto", "b": False}, {"ev": "assign", "n": 1, "x": "z9", "via_var": False},
                               {"ev": "node_update", "n": 3}, {"ev": "update_all"})]
    run.close()
    last = evs[-1]
    stale = (not last["outd"][2]) and last["val"][2] != f"f3(f2(z9))"
    chk.extra["G8_reproduced_on_real_model"] = bool(stale)
    chk.note("G8 (not one of the operations C01 lists): Node.update() on a single caching node whose inputs are outdated "
             "computes from the stale inputs and reports the node up to date; a later full update skips it, so an up-to-date "
             f"node holds a value that is not the from-scratch one (TLC with NodeUpdate unrestricted: {r.error}; on a real "
             f"model: c3 = {last['val'][2]} after update(), outdated = {last['outd'][2]}; reproduced = {bool(stale)}). "
             "With the precondition InputsUpToDate every C01 invariant holds (part of C01's model and traces).")


def mvnd_numeric(chk, rng):
    """G9 (numeric, recorded only; C18 is not applicable to this technique): MultivariateNormalDegenerate decides which
    eigenvalues of the precision matrix are zero with an *absolute* tolerance (1e-6).  For a penalty matrix K and a small
    variance parameter the precision K / tau2 is large, the float32 noise in its null eigenvalues exceeds the tolerance,
    and the sampler scales the corresponding null direction by 1 / sqrt(noise): the draw leaves the support."""
    import jax
    import jax.numpy as jnp
    import numpy as np
    from liesel.distributions import MultivariateNormalDegenerate as MVND
    d = 6
    D_ = np.diff(np.eye(d), 2, axis=0)
    K = (D_.T @ D_).astype(np.float32)
    w, V = np.linalg.eigh(K.astype(np.float64))
    null = V[:, w < 1e-8]
    bad, worst = [], 0.0
    grid = np.geomspace(0.01, 25.0, 60)
    for tau2 in grid:
        dist = MVND.from_penalty(loc=0.0, var=jnp.float32(tau2), pen=jnp.asarray(K))
        x = np.asarray(dist.sample(seed=jax.random.PRNGKey(1)), np.float64)
        r = float(np.linalg.norm(null.T @ x) / max(np.linalg.norm(x), 1e-30))
        if r > 1e-2:
            bad.append(float(tau2))
            worst = max(worst, float(np.linalg.norm(x)))
    chk.extra["G9_variances_with_draws_outside_the_support"] = len(bad)
    chk.extra["G9_largest_variance_affected"] = max(bad) if bad else None
    chk.note("G9 (numeric, not a listed property that this technique claims): MultivariateNormalDegenerate.sample for a "
             f"second-order difference penalty (d = 6): for {len(bad)} of {len(grid)} variance parameters in [0.01, 25] the draw "
             f"is dominated by a null-space component (norm up to {worst:.0f}); largest affected variance {max(bad) if bad else None}. "
             "C17's support check fixes the variance at 25 for that reason.")


def gb_update_only(chk, rng):
    chk.tv("Trace_Growth.tla", [{"hdr": {"kind": "gb_update"}, "ev": D.gb_update_events(rng, 60)}], tag="gb_update",
           keyfn=lambda r: f"{r.trace['hdr']['kind']}:{r.conjunct}", describe=lambda r: str(r.trace["ev"][r.line - 1])[:600])


EBL_MC = """CONSTANTS NM = 2 MaxK = 2 MaxE = 2 Rebind = {rb}
SPECIFICATION Spec
PROPERTY IdentsStable
PROPERTY UserBindingRespected
"""


def builder_life(chk, rng):
    """EngineBuilderLife.tla: which model the kernels of each built engine are bound to (G10)."""
    from vlib.core import run_tlc
    acts = ["SetModel", "AddKernel", "SetInit", "SetEpochs", "Build"]
    chk.mc("MC_EngineBuilderLife.tla", EBL_MC.format(rb="TRUE") + "INVARIANT EnginesCoherent\nPROPERTY RejectedBuildIsNoOp\n",
           tag="builder-life-documented", expect_actions=acts, workers=2,
           what="2 interfaces, <= 2 kernels, <= 2 builds, every call order: documented binding keeps every engine coherent")
    chk.mc("MC_EngineBuilderLife.tla", EBL_MC.format(rb="FALSE"), tag="builder-life-as-coded", expect_actions=acts, workers=2,
           what="as coded: identifiers and user bindings are stable")
    r1 = run_tlc("MC_EngineBuilderLife.tla", EBL_MC.format(rb="FALSE") + "INVARIANT EnginesCoherent\n", tag="growth-ebl-g10", workers=1, timeout=120)
    r2 = run_tlc("MC_EngineBuilderLife.tla", EBL_MC.format(rb="FALSE") + "PROPERTY RejectedBuildIsNoOp\n", tag="growth-ebl-g10b", workers=1,
                 timeout=120)
    chk.extra["G10_as_coded_counterexamples"] = [r1.error or "none", r2.error or "none"]
    # the shortest history of that kind on the real builder
    t = D.builder_life_trace(rng, ops=[("set_model", 1), ("add_kernel", 0, False), ("set_initial_values",), ("set_epochs",), ("build",),
                                       ("set_model", 2), ("build",)])
    last = t["ev"][-1]
    repro = last["reason"] == "none" and last["engine_model"] == 2 and last["engine_kmodels"] == [1]
    chk.extra["G10_reproduced_on_real_builder"] = bool(repro)
    chk.note("G10 (not a listed property): EngineBuilder.set_model is documented to set the interface for all kernels, but build() "
             "only binds kernels that have no model yet - after `build(); set_model(other); build()` the second engine stores "
             f"positions with the new interface while its kernels sample the old one (TLC: {r1.error}; real builder: engine model "
             f"{last.get('engine_model')}, kernel models {last.get('engine_kmodels')}; reproduced = {bool(repro)}); and a build "
             f"rejected for missing initial values has already bound and named the kernels (TLC: {r2.error}).")
    trs = [D.builder_life_trace(rng, 12) for _ in range(60 if chk.quick else 1500)] + [t]
    cfg = "CONSTANTS NM = 2 MaxK = 99 MaxE = 99 Rebind = FALSE\n"
    chk.tv("Trace_EngineBuilderLife.tla", trs, tag="builder_life", cfg_extra=cfg, keyfn=lambda r: f"builder_life:{r.conjunct}",
           describe=lambda r: str([(e["ev"], e.get("m"), e.get("u"), e["reason"]) for e in r.trace["ev"][:r.line]])[:500])
