"""GROWTH - specification coverage beyond the listed properties (not registered in
MANIFEST.json; run with `./check growth`).  A failure here is reported like any other
check but does not concern one of the given properties."""
import random

from harness import growth_driver as D
from vlib.core import Check


def run(chk: Check):
    rng = random.Random(9000 + chk.seed)
    chk.rule = "events of behaviour beyond the listed properties: builder validation, epoch clocks, set_seed, groups"
    cfg = "CONSTANTS K = 1\n"
    chk.mc("MC_Builder.tla", "INIT Init\nNEXT Next\nINVARIANT AcceptsInv\n", tag="builder", expect_actions=["Init"], workers=4,
           what="every builder configuration over small alphabets: accepts iff buildable")
    traces = [{"hdr": {"kind": "builder"}, "ev": D.builder_events()},
              {"hdr": {"kind": "epoch_time"}, "ev": D.epoch_time_events(rng)},
              {"hdr": {"kind": "set_seed"}, "ev": D.set_seed_events(rng)},
              {"hdr": {"kind": "group"}, "ev": D.group_events(rng)},
              {"hdr": {"kind": "builder_ops"}, "ev": D.builder_ops_events(rng, 60 if chk.quick else 600)},
              {"hdr": {"kind": "distreg_wiring"}, "ev": D.wiring_events()},
              {"hdr": {"kind": "var_graph"}, "ev": D.var_graph_events(rng, 40 if chk.quick else 400)}]
    chk.tv("Trace_Growth.tla", traces, tag="growth", keyfn=lambda r: f"{r.trace['hdr']['kind']}:{r.conjunct}",
           describe=lambda r: str(r.trace["ev"][r.line - 1])[:400])
