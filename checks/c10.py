"""C10 - reproducibility, fresh keys, chain independence, initial values honoured.

MC : MC_GooseEngine KeysFresh (key tree: nothing handed out twice, nothing handed out
     is an ancestor of another key or of the carry), MC_Runs (run-table properties on an
     abstract sampler; a leaky sampler violates ChainIsolation).
TV : (i) probe-kernel engine traces: every call in every chain has a distinct key
     (Trace_Engine: fresh_random_key_for_every_call, keys_distinct_across_chains_and_calls);
     (ii) tables of real runs through EngineBuilder (Trace_Runs): determinism, int seed =
     PRNG key, chain isolation under per-chain initial states, first sample = supplied
     initial value after jitter (jitter keys observed through jax.debug.callback).
"""
from checks import engine_common as EC
from harness import parallel, runs_driver
from vlib.core import Check, MachineryError, run_tlc

RUNS_CFG = "CONSTANTS Leaky = %s\nINIT Init\nNEXT Next\nINVARIANT Inv\n"


def run(chk: Check):
    chk.rule = ("engine traces as in C07 (distinct key per kernel call in every chain), and run tables: each table "
                "is a sequence of complete real engine runs through EngineBuilder that differ in seed form, jitter, "
                "single/per-chain initial states and one chain's initial value; non-trivial = table contains a "
                "repeated configuration, both seed forms and a per-chain-state pair differing in one chain")
    chk.trusted += ["sha256 digests of stored arrays per chain", "jax.debug.callback to observe jitter keys"]
    EC.mc(chk, ["KeysFresh"])
    chk.mc("MC_Runs.tla", RUNS_CFG % "FALSE", tag="runs", expect_actions=["Next"],
           what="run-table consistency for a sampler whose chain c depends only on (config, key_c, init_c)")
    r = run_tlc("MC_Runs.tla", RUNS_CFG % "TRUE", tag="C10-leaky")
    if r.error != "invariant:Inv":
        raise MachineryError("a sampler leaking other chains' initial values should violate ChainIsolation")
    chk.note("leaky abstract sampler violates ChainIsolation as expected")
    # (i) keys
    sc = EC.handwritten(chk.quick)[:3] + EC.simulated(chk, 4 if chk.quick else 40)
    traces = EC.run_scenarios(chk, sc, "keys")
    EC.validate(chk, traces, "keys")
    # (ii) run tables
    tabs = runs_driver.table_jobs(chk.quick)
    jobs = [kw for t in tabs for kw in t]
    evs = parallel.run_jobs("harness.runs_driver", "one_run", jobs)
    tables, i = [], 0
    for t in tabs:
        tables.append({"hdr": {"kind": "run_table", "jobs": t}, "ev": evs[i:i + len(t)]})
        i += len(t)

    def key(r):
        ev = r.trace["ev"][r.line - 1]
        return f"runs:{r.conjunct}:{'multi' if ev.get('multi') else 'single'}"

    chk.tv("Trace_Runs.tla", tables, tag="run_tables", keyfn=key,
           describe=lambda r: str({k: r.trace["ev"][r.line - 1].get(k) for k in ("cid", "seedform", "multi", "inits", "crash")}))


def replay(chk: Check, data):
    tr = data["replay"]["trace"]
    if tr["hdr"].get("kind") == "run_table":
        evs = [runs_driver.one_run(**kw) for kw in tr["hdr"]["jobs"]]
        chk.tv("Trace_Runs.tla", [{"hdr": tr["hdr"], "ev": evs}], tag="run_tables",
               keyfn=lambda r: f"runs:{r.conjunct}")
    else:
        EC.replay(chk, data)
