"""C16 - epoch schedules accepted iff valid; Stan warm-up adds up; chunk divides.

MC : MC_Epochs (all reachable manager states x all candidate configs),
     MC_Stan (every argument tuple in a box).
TV : Trace_Epochs on traces of the real EpochManager / stan_epochs / EngineBuilder.
"""
import random

from harness import epochs_driver as D
from vlib.core import Check

MGR_CFG = """
CONSTANTS
 Types = {{0,1,2,3,4}}
 NegLo = 1
 DurHi = {durhi}
 ThinHi = {thinhi}
 MaxLen = {maxlen}
INIT MInit
NEXT Next
CONSTRAINT LenBound
INVARIANT AlwaysValid
INVARIANT AcceptedIffValid
INVARIANT ConsecutiveIndices
INVARIANT StartTimesAddUp
INVARIANT HandedOK
INVARIANT ChunkOK
"""

STAN_CFG = """
CONSTANTS
 WarmR = {warm} PostR = {post} InitR = {init} TermR = {term} BaseR = {base} ThinR = {thin}
INIT StanInit
NEXT StanNext
INVARIANT StanInv
"""


def tlaset(xs):
    return "{" + ",".join(str(x) for x in xs) + "}"


def run(chk: Check):
    rng = random.Random(1000 + chk.seed)
    chk.rule = (
        "traces = histories of one real EpochManager (append/next/has_more interleaved), "
        "optionally fed by a real stan_epochs call and followed by EngineBuilder.build's chunk; "
        "distinct by digest of the whole trace; non-trivial = contains at least one accepted "
        "append beyond the initial epoch or a non-raising stan_epochs call"
    )
    chk.trusted += ["TLC/SANY", "harness/epochs_driver.py Recorder (one event per public call)"]

    # ---- MC ---------------------------------------------------------------------------
    if chk.quick:
        chk.mc("MC_Epochs.tla", MGR_CFG.format(durhi=3, thinhi=3, maxlen=3), tag="mgr",
               expect_actions=["MAppend", "MAppendRejected", "MNext", "MNextRejected"],
               what="manager: types 0..4, dur/thin -1..3, sequences <= 3")
        box = dict(warm=[19, 20, 21, 30, 45, 60, 100, 160], post=[1, 4, 6], init=[0, 1, 5, 15],
                   term=[0, 1, 5, 10], base=[1, 2, 5, 25], thin=[1, 2, 3])
    else:
        chk.mc("MC_Epochs.tla", MGR_CFG.format(durhi=3, thinhi=3, maxlen=3), tag="mgr-cov",
               expect_actions=["MAppend", "MAppendRejected", "MNext", "MNextRejected"],
               what="manager: types 0..4, dur/thin -1..3, sequences <= 3 (with coverage)")
        chk.mc("MC_Epochs.tla", MGR_CFG.format(durhi=4, thinhi=4, maxlen=3), tag="mgr-wide", coverage=False,
               what="manager: types 0..4, dur/thin -1..4, sequences <= 3", timeout=1500)
        chk.mc("MC_Epochs.tla", MGR_CFG.format(durhi=2, thinhi=2, maxlen=5), tag="mgr-long", coverage=False,
               what="manager: types 0..4, dur/thin -1..2, sequences <= 5", timeout=1500)
        box = dict(warm=[19, 20, 21, 25, 30, 45, 60, 75, 100, 150, 160, 320], post=[1, 4, 6, 9],
                   init=[0, 1, 5, 15, 40], term=[0, 1, 5, 10, 30], base=[1, 2, 5, 10, 25],
                   thin=[1, 2, 3, 4])
    chk.mc("MC_Stan.tla", STAN_CFG.format(**{k: tlaset(v) for k, v in box.items()}), tag="stan",
           what=f"stan_epochs: all argument tuples in {box}")

    # ---- TV ---------------------------------------------------------------------------
    traces = []
    alpha = D.alphabet(1, 4, 4)
    traces += D.prefix_times_alphabet(rng, alpha)
    traces += D.rejected_then_valid()
    if chk.quick:
        traces += D.all_sequences(D.alphabet(1, 2, 2), 2)
        traces += D.random_histories(rng, 600)
        n_stan, n_chunk = 2500, 25
        sbox = D.stan_box([19, 20, 45, 100], [4, 6], [0, 1, 15], [1, 10], [1, 5, 25], [1, 3])
    else:
        traces += D.all_sequences(D.alphabet(1, 4, 4), 2)
        traces += D.all_sequences(D.alphabet(0, 2, 2), 3)
        traces += D.random_histories(rng, 20000, maxops=20)
        n_stan, n_chunk = 60000, 200
        sbox = D.stan_box(box["warm"], box["post"], box["init"], box["term"], box["base"], [1, 2, 3])
    hangs = 0
    for a in sbox:
        traces.append(D.stan_trace(a))
    for i in range(n_stan):
        a = D.random_stan_args(rng, wide=(i % 3 == 0))
        try:
            traces.append(D.stan_trace(a, with_chunk=(i < n_chunk)))
        except D._Hang:
            hangs += 1
            chk.violation("stan:hang", f"stan_epochs did not return within 5 s for {a}",
                          {"kind": "hang", "args": a})
    # EngineBuilder.set_duration is stan_epochs with init_duration = 75, base_duration = 25
    for i in range(300 if chk.quick else 6000):
        a = D.random_stan_args(rng, wide=(i % 3 == 0))
        a["init"], a["base"] = 75, 25
        if i % 2 == 0:
            a["warmup"] = 75 + 25 + a["term"] + rng.choice([0, 1, 7, rng.randint(0, 900)])
        traces.append(D.stan_trace(a, via_builder=True))
    # chunk for manager-style schedules as well
    for _ in range(n_chunk):
        k = rng.choice([1, 2, 3, 4, 6])
        cfgs = [D.cfg_rec(0, 1, 1)] + [
            D.cfg_rec(rng.choice([1, 2, 3]), k * rng.randint(1, 5), 1) for _ in range(rng.randint(1, 3))
        ] + [D.cfg_rec(4, k * rng.randint(1, 5), 1)]
        r = D.Recorder()
        for c in cfgs:
            r.append(c)
        ch = D.builder_chunk([D.mk(c) for c in cfgs])
        r.ev.append({"ev": "chunk", "cfgs": cfgs, "chunk": ch})
        traces.append(r.trace(kind="chunk"))

    # ... and for long epochs (common divisors in the thousands)
    for g in ([1001, 1500, 2200, 2500, 4999] if chk.quick else [1001, 1250, 1333, 1500, 1999, 2000, 2200, 2300, 2500, 2600, 2900,
                                                                   3000, 4999, 7001, 12500]):
        cfgs = [D.cfg_rec(0, 1, 1), D.cfg_rec(1, g * rng.randint(1, 3), 1), D.cfg_rec(4, g * rng.randint(1, 4), 1)]
        r = D.Recorder()
        for c in cfgs:
            r.append(c)
        r.ev.append({"ev": "chunk", "cfgs": cfgs, "chunk": D.builder_chunk([D.mk(c) for c in cfgs])})
        traces.append(r.trace(kind="chunk"))

    # the schedule handed to set_epochs as a tuple / generator / iterator (its signature takes any iterable)
    for how in ("tuple", "generator", "iter"):
        cfgs = [D.cfg_rec(0, 1, 1), D.cfg_rec(1, 6, 2), D.cfg_rec(3, 9, 1), D.cfg_rec(4, 12, 3)]
        r = D.Recorder()
        for c in cfgs:
            r.append(c)
        r.ev.append({"ev": "chunk", "cfgs": cfgs, "chunk": D.builder_chunk([D.mk(c) for c in cfgs], as_iterable=how)})
        traces.append(r.trace(kind="chunk"))

    def nontrivial(t):
        n_ok = sum(1 for e in t["ev"] if e["ev"] == "append" and e["accepted"])
        return n_ok >= 2 or any(e["ev"] == "stan" and not e["raised"] for e in t["ev"])

    chk.tv("Trace_Epochs.tla", traces, tag="epochs", nontrivial=nontrivial,
           keyfn=lambda r: f"{r.trace['hdr'].get('kind')}:{r.conjunct}")
    chk.extra["stan_hangs"] = hangs
    chk.assumptions += [
        "stan_epochs is only called with base_duration >= 1 (for base_duration <= 0 the code loops forever; "
        "such arguments are outside admissibility)",
    ]
