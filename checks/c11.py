"""C11 - step-size adaptation follows dual averaging, frozen outside adaptation.

MC : MC_DualAveraging (Monotone on a grid; pairwise monotone over whole epochs).
TV : Trace_DA on (i) direct da_init/da_step/da_finalize calls (random and enumerated
     acceptance sequences), (ii) real kernels (RW, MH tuning on/off, IWLS; HMC, NUTS in
     the thorough tier) behind the wrapping probe in real engine runs.
"""
import random

from harness import da_driver as D
from vlib.core import Check

GRID = "INIT GridInit\nNEXT GridNext\nINVARIANT GridInv\nCONSTANTS MaxT = 1\n PairAccs = {}\n"
PAIR = 'CONSTANTS MaxT = %d\n PairAccs = {%s}\nINIT PairInit\nNEXT PairNext\nINVARIANT PairInv\n'


def run(chk: Check):
    rng = random.Random(1100 + chk.seed)
    chk.rule = ("traces = per-(chain, kernel) protocol call logs of real kernels behind the wrapping probe, "
                "and direct da_* call sequences; non-trivial = contains an adaptive transition whose "
                "successor differs from its predecessor AND (for engine traces) a non-adaptation epoch")
    chk.trusted += ["harness/probes.py WrapKernel (captures tuning state before/after each call)"]
    chk.mc("MC_DualAveraging.tla", GRID, tag="grid", expect_actions=["GridInit"],
           what="Monotone on the full grid of states x acc pairs x t x constants")
    accs = '"0.0", "0.234", "0.8", "1.0"' if chk.quick else '"0.0", "0.234", "0.5", "0.8", "1.0"'
    chk.mc("MC_DualAveraging.tla", PAIR % (3 if chk.quick else 4, accs), tag="pair",
           expect_actions=["PStep", "PEnd"],
           what="pairwise monotonicity over whole epochs with pointwise ordered acceptance sequences")

    traces = [D.direct_trace(rng) for _ in range(150 if chk.quick else 3000)]
    traces += D.extreme_direct_traces()
    traces += D.enumerated_direct_traces([0.0, 0.25, 0.5, 0.75, 1.0], 3 if chk.quick else 5,
                                         [0.25, 0.5, 0.75, 0.8])
    # every dual-averaging constant differs from the kernels' defaults (0.05, 0.75, 10) in both sets
    c1 = (0.3, 0.2, 0.9, 25, 0.5)
    c2 = (0.8, 0.1, 0.6, 3, 0.05)
    traces += D.engine_traces(["rw", "mh_on", "mh_off"], c1, D.SCHEDULES[0], chains=2, seed=chk.seed)
    traces += D.engine_traces(["iwls"], c2, D.SCHEDULES[1], chains=2, seed=chk.seed + 1)
    # kernels configured after construction through their public da_* attributes
    traces += D.engine_traces(["rw", "mh_on"], c2, D.SCHEDULES[2], chains=1, seed=chk.seed + 12, late=True)
    traces += D.engine_traces(["iwls"], c1, D.SCHEDULES[2], chains=1, seed=chk.seed + 13, late=True)
    # a fractional t0; MH tuning switched on by a truthy flag that is not the object True
    traces += D.engine_traces(["rw", "mh_on_np"], (0.5, 0.1, 0.75, 2.75, 0.3), D.SCHEDULES[0], chains=2, seed=chk.seed + 15)
    # epochs sampled in several chunks; a random walk on a parameter with bounded support (NaN ratios -> acceptance 0)
    traces += D.engine_traces(["rw", "rw_support"], c1, D.SCHEDULES[3], chains=2, seed=chk.seed + 8)
    # NUTS on a funnel: adaptation epochs with divergent transitions whose reported acceptance probability is not 0
    traces += D.engine_traces(["nuts_funnel"], (0.8, 0.05, 0.75, 10, 1.0), [(1, 60), (4, 4)], chains=4, seed=chk.seed + 14)
    if not chk.quick:
        traces += D.engine_traces(["rw", "mh_on", "mh_off"], c2, D.SCHEDULES[1], chains=3, seed=chk.seed + 2)
        traces += D.engine_traces(["iwls", "mh_on"], c1, D.SCHEDULES[0], chains=2, seed=chk.seed + 3)
        traces += D.engine_traces(["hmc"], c2, D.SCHEDULES[0], chains=2, seed=chk.seed + 4)
        traces += D.engine_traces(["nuts"], c2, D.SCHEDULES[0], chains=2, seed=chk.seed + 5)
        traces += D.engine_traces(["nuts_auto", "mh_off"], c1, D.SCHEDULES[1], chains=2, seed=chk.seed + 6)
        traces += D.engine_traces(["hmc", "rw"][:1], c1, D.SCHEDULES[2], chains=1, seed=chk.seed + 7)

    def nontrivial(t):
        moved = any(e["ev"] == "transition" and e["etype"] in (1, 2) and e["post"] != e["pre"] for e in t["ev"])
        if t["hdr"]["kind"] == "engine":
            return moved and any(e["ev"] == "transition" and e["etype"] in (3, 4) for e in t["ev"])
        return moved

    chk.tv("Trace_DA.tla", traces, tag="da", nontrivial=nontrivial,
           keyfn=lambda r: f"{r.trace['hdr'].get('kernel', r.trace['hdr']['kind'])}:{r.conjunct}")
    chk.assumptions += ["float32 implementation vs double spec compared per step with rtol 3e-4 / atol 3e-6 "
                        "(one-step consistency; bit-identity where the property says 'never changes')"]
