"""C03 - the state-passing model interface is pure and equivalent to direct assignment.

MC : MC_GooseInterface - every DAG on 3 nodes, every up-to-date input state, every position
     over the value nodes, every residue of the interface's private copy (values and
     flags), both auto-update settings of the private copy: Pure (result = direct
     assignment + full update on a scratch copy), GetPut.
TV : (symbolic) LieselInterface over random real models with term-valued nodes and
     distributions under call histories (<= 12 calls) mixing positions keyed by node or
     variable name, states taken from earlier returns, the very same state object passed
     twice, the user's model mutated in between; each result is compared with the spec's
     Ref, with a fresh interface and with direct assignment on a copy of the user's model;
     (numeric) TFP models: eager vs jit vs vmap vs direct assignment; (plain) dict /
     dataclass (with an init=False field) / named-tuple interfaces: put/get, non-mutation.
"""
import random

from harness import interface_driver as I
from harness.logprob_driver import FAMILY
from vlib.core import Check

MC = """CONSTANTS NN = 3
 Atoms = {"a", "b"}
 Kinds = {"v", "c", "t", "p"}
 None = "-"
 Apply <- ApplyStr
 Draw <- DrawStr
 FromScratch = TRUE
 ErrVal = "ERR"
INIT Init
NEXT Next
INVARIANT PureInv
INVARIANT GetPutInv
"""
TV_CFG = 'CONSTANTS None = "-"\n Apply <- ApplyStr\n Draw <- DrawStr\n FromScratch = TRUE\n ErrVal = "ERR"\n'


def run(chk: Check):
    rng = random.Random(300 + chk.seed)
    chk.rule = ("one trace = one interface object under a call history; non-trivial (symbolic) = some state object is "
                "passed to update_state twice with different position keys, or a returned state is passed back in")
    chk.trusted += ["deepcopy of the user's model for the direct-assignment reference", "harness/interface_driver.py state readers"]
    chk.mc("MC_GooseInterface.tla", MC, tag="all-shapes-3", expect_actions=["Init"], timeout=900,
           what="all DAGs on 3 nodes x input states x positions x private residues x auto settings")
    traces = [I.symbolic_trace(rng, ncalls=rng.randint(4, 12)) for _ in range(200 if chk.quick else 3000)]
    # the deprecated alias lsl.GooseModel is an interface of the same kind
    traces += [I.symbolic_trace(rng, ncalls=rng.randint(4, 10), via="goosemodel") for _ in range(60 if chk.quick else 600)]
    traces += [I.numeric_trace(rng, "transformed", via="goosemodel"), I.failed_construction_trace()]
    traces += [I.plain_trace(rng) for _ in range(2 if chk.quick else 20)]
    traces += [I.dataclass_jit_trace(rng) for _ in range(1 if chk.quick else 10)]
    fams = (["linreg_flag", "transformed", "legacy_pit"] if chk.quick else FAMILY) + ["name_collision", "uniform_default", "int_init"]
    for f in fams:
        traces.append(I.numeric_trace(rng, f))

    def nontrivial(t):
        return any(e["ev"] == "update_state" and (e["same_object_as_last"] or e["st"] > 1) for e in t["ev"]) \
            or t["hdr"].get("family") is not None

    chk.tv("Trace_Interface.tla", traces, tag="interfaces", cfg_extra=TV_CFG, nontrivial=nontrivial, timeout=1500,
           keyfn=lambda r: f"{r.trace['ev'][r.line - 1]['ev']}:{r.trace['ev'][r.line - 1].get('kind', '')}:{r.conjunct}",
           describe=lambda r: str(r.trace["hdr"].get("family") or r.trace["hdr"].get("plan"))[:300])
