"""C17 - simulate() draws a joint ancestral sample.

MC : MC_Simulate - two hierarchical graphs (children depending on parents directly and
     through a cached intermediate calculation), every skip set, both auto-update
     settings, interleaved with assignments / updates / save / restore: AncestralOK,
     SkipUntouched, Coherent.  The variant FromScratch = FALSE (parameters read from the
     cache) is refuted - the design-level explanation of finding C17.
TV : random hierarchies of real liesel Vars with (fake) distributions in an integer-coded
     numeric regime: a draw encodes the parameter values the distribution was constructed
     with and the seed split it received; shapes (), (3,), (2,2); skip by var / dist / at
     name; both auto-update settings; update() afterwards.
"""
import random

from harness import sim_driver as S
from vlib.core import Check, MachineryError, run_tlc

CFG = """CONSTANTS Which = "{which}"
 MaxSlots = {slots}
 None = "-"
 Apply <- ApplyStr
 Draw <- DrawStr
 FromScratch = {fs}
 ErrVal = "ERR"
INIT SInit
NEXT Next
{extra}INVARIANT Coherent
INVARIANT FlagIffDirty
INVARIANT AncestralOK
INVARIANT SkipUntouched
"""
TV_CFG = "CONSTANTS None = 0\n Apply <- ApplyInt\n Draw <- DrawInt\n FromScratch = TRUE\n ErrVal <- ErrInt\n"


def run(chk: Check):
    rng = random.Random(1700 + chk.seed)
    chk.rule = ("one trace = a random hierarchy of real distributed liesel Vars (2-4 variables, parameters direct "
                "or via cached/transient calcs) under simulate / assign / auto-update toggle / update; non-trivial = "
                "a simulate with auto-update off on a model where a child depends on a parent through a cached calc")
    chk.trusted += ["integer coding of draws in harness/sim_driver.py (exact in float32)"]
    chk.mc("MC_Simulate.tla", CFG.format(which="A", slots=0, fs="TRUE", extra=""), tag="graphA",
           expect_actions=["DoSimulate", "DoAssign", "DoSetAuto", "DoUpdate", "DoTargets"], timeout=1500,
           what="graph A (x -> cached calc -> y), all skip sets, both auto settings, all histories")
    if not chk.quick:
        # (depth 8 - 285k distinct states, 37 min on an idle machine - ran out of its time limit on a loaded one)
        chk.mc("MC_Simulate.tla", CFG.format(which="B", slots=0, fs="TRUE", extra="CONSTRAINT Depth7\n"), tag="graphB-depth7",
               timeout=3300, coverage=False,
               what="graph B (adds z depending on y directly and on x), all skip sets, every history of at most 6 operations")
    r = run_tlc("MC_Simulate.tla", CFG.format(which="A", slots=0, fs="FALSE", extra=""), tag="C17-cached", timeout=600)
    chk.note(f"design variant 'parameters read from the cache': {r.error} (expected invariant:AncestralOK)")
    if r.error != "invariant:AncestralOK":
        raise MachineryError("reading cached parameters should violate AncestralOK with auto-update off")
    chk.tv("Trace_Simulate.tla", [S.tfp_shape_trace()], tag="tfp_shapes", cfg_extra=TV_CFG,
           keyfn=lambda r: f"simulate:{r.conjunct}:tfp", describe=lambda r: str(r.trace["ev"][r.line - 1])[:300])
    try:
        traces = S.fixed_traces() + [S.random_trace(rng) for _ in range(110 if chk.quick else 1500)]
    except Exception as ex:  # noqa: BLE001
        if not chk.violations:
            raise
        # the fake distributions of the integer regime could not be driven; the run with real distributions above has
        # already produced a verdict
        chk.note(f"integer-regime traces could not be generated ({type(ex).__name__}: {ex})"[:300])
        traces = []

    def nontrivial(t):
        cached_link = any(p["kind"] == "c" for p in t["hdr"]["plan"])
        off = False
        for e in t["ev"]:
            if e["ev"] == "set_auto":
                off = not e["b"]
            if e["ev"] == "simulate" and off and cached_link:
                return True
        return False

    if traces:
      chk.tv("Trace_Simulate.tla", traces, tag="hierarchies", cfg_extra=TV_CFG, nontrivial=nontrivial, timeout=1800,
           keyfn=lambda r: f"simulate:{r.conjunct}:{r.trace['ev'][r.line - 1]['ev']}",
           describe=lambda r: f"plan {[p['kind'] for p in r.trace['hdr']['plan']]}")


def replay(chk: Check, data):
    t = S.replay_trace(data["replay"]["trace"]["hdr"])
    chk.tv("Trace_Simulate.tla", [t], tag="replay", cfg_extra=TV_CFG,
           keyfn=lambda r: f"simulate:{r.conjunct}:{r.trace['ev'][r.line - 1]['ev']}")
