"""C13 - Gibbs kernels draw from the exact full conditional.

MC : MC_GibbsInvariance - on every finite product space (2 x 3, integer target <= 3) a
     kernel that redraws a block from the exact conditional leaves the target invariant;
     a kernel using a wrong conditional weight is refuted.
TV : tau2_gibbs_kernel on DistRegBuilder models (full-rank and rank-deficient penalties of
     order 0/1/2, d <= 4, several (a, b), coefficient values; hyper-parameters and the
     penalty changed after the kernel was built): the spec's inverse-gamma parameters
     (shape a + rank/2, scale b + beta'K beta/2) must reproduce the model's joint density
     ratios over a grid of tau2 values, and the draw must be scale / Gamma(shape) for the
     same key (replay), plus the scale law; finite_discrete_gibbs_kernel (FiniteDiscrete
     and Bernoulli priors, downstream likelihoods directly and through a named deterministic
     variable, explicit and inferred outcome sets, a user-supplied tempered log-prob node, an integer-typed current value with non-integer outcomes): 64 draws must equal the categorical
     replay on the model's log-probabilities at each outcome.  If a replay does not match,
     a distribution-free guard (KS / chi-square over fresh keys, p < 1e-9) must also reject
     before a violation is reported.
"""
import random

from harness import gibbs_driver as G
from vlib.core import Check, MachineryError, run_tlc

MC = "CONSTANTS A = {1,2}\n B = {1,2,3}\n PiMax = %d\n Wrong = %s\nINIT Init\nNEXT Next\nINVARIANT InvariantA\nINVARIANT InvariantB\n"


def run(chk: Check):
    rng = random.Random(1300 + chk.seed)
    chk.rule = ("tau2 events = transitions of the real inverse-gamma Gibbs kernel at random coefficient values / "
                "hyper-parameters; discrete events = 64 transitions of the finite-discrete kernel on one model state; "
                "non-trivial = rank-deficient penalty, or a downstream likelihood behind the sampled variable")
    chk.trusted += ["jax.random.gamma / jax.random.categorical sample the named laws (replay)",
                    "scipy.stats for the false-alarm guard", "numpy float64 for beta'K beta and rank"]
    chk.mc("MC_GibbsInvariance.tla", MC % (3, "FALSE"), tag="finite-product", expect_actions=["Init"], workers=8,
           what="A x B = 2 x 3, pi <= 3: exact-conditional Gibbs updates leave pi invariant")
    r = run_tlc("MC_GibbsInvariance.tla", MC % (2, "TRUE"), tag="C13-wrong", workers=4)
    if r.error is None:
        raise MachineryError("a Gibbs kernel with a wrong conditional weight should be refuted")
    traces = []
    cfgs = [(4, 2), (3, 1), (3, 0)] if chk.quick else [(4, 2), (4, 1), (3, 1), (2, 1), (3, 0), (4, 0)]
    for d, order in cfgs:
        traces.append({"hdr": {"kind": "tau2", "d": d, "order": order, "nontrivial": order > 0},
                       "ev": G.tau2_events(rng, d, order, nkeys=3 if chk.quick else 8)})
    traces.append({"hdr": {"kind": "tau2", "d": 3, "order": 1, "nontrivial": True, "int_current": True},
                   "ev": G.tau2_events(rng, 3, 1, nkeys=2 if chk.quick else 6, int_current=True)})
    # coefficients on extreme scales: the inverse-gamma full conditional has its mass near 1e7 / near 1e-9
    traces.append({"hdr": {"kind": "tau2", "d": 3, "order": 1, "nontrivial": True, "beta_scale": "large"},
                   "ev": G.tau2_events(rng, 3, 1, nkeys=2 if chk.quick else 6, beta_scale=4000.0, stale_change=False)})
    # a penalty matrix held as an integer array (D'D of an integer difference matrix)
    traces.append({"hdr": {"kind": "tau2", "d": 4, "order": 2, "nontrivial": True, "int_penalty": True},
                   "ev": G.tau2_events(rng, 4, 2, nkeys=2 if chk.quick else 6, int_penalty=True)})
    # a group put together by hand whose penalty matrix is computed from weights in the state (cached / on the fly)
    for tr in (False, True):
        traces.append({"hdr": {"kind": "tau2_handmade" + ("_transient" if tr else ""), "d": 5, "order": 1, "nontrivial": True},
                       "ev": G.tau2_handmade_events(rng, transient=tr, nkeys=2 if chk.quick else 6)})
    for kind in ("prior_only", "bernoulli_direct", "finite_via_named_var", "bernoulli_two_children", "bernoulli_tempered",
                 "finite_int_current", "finite_start_outside", "finite_zero_prior", "residual_weak_dist",
                 "bernoulli_outcomes_reversed", "finite_outcomes_unsorted", "finite_auto_name_clash", "finite_grid_in_state"):
        traces.append({"hdr": {"kind": kind, "nontrivial": kind != "prior_only"},
                       "ev": G.discrete_events(rng, kind, nkeys=64 if chk.quick else 256)})
    chk.tv("Trace_Gibbs.tla", traces, tag="gibbs", nontrivial=lambda t: t["hdr"]["nontrivial"],
           keyfn=lambda r: f"{r.trace['hdr']['kind']}:{r.conjunct}",
           describe=lambda r: str({k: v for k, v in r.trace["ev"][r.line - 1].items() if k not in ("draws", "draws_replay")})[:500])
    chk.assumptions += ["the sampling step is bound by replaying jax.random.gamma / categorical on the kernel's key; "
                        "a replay mismatch alone is never an alarm (guard must also reject)"]
