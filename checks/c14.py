"""C14 - transforming a variable preserves the model (change of variables).

MC : MC_Transform - symbolic state machine (values are terms with fwd(b, inv(b, x)) = x):
     every sequence of transform attempts (two bijectors, repeated / chained transforms,
     weak variable, variable without distribution) and assignments: OriginalIsImage,
     FlagsMoved, NewDensityIsChangeOfVariables, ValueUnchanged, ParamMoves,
     RejectedUnchanged.
TV : real TFP distribution / bijector pairs (Exponential, Gamma, InverseGamma, HalfNormal,
     HalfCauchy, Beta, Uniform with a variable upper bound, vector Normal, LogNormal x
     Exp / Softplus / Sigmoid / Scale-chains / class with constant and variable arguments /
     default event-space bijector) through all entry points (instance, class with
     arguments, default, auto-transform at build, deprecated GraphBuilder.transform);
     after the transformation, after assignments to the new variable and after changes of
     parameter variables the leaves x, b^-1(x), b(t), log p(b(t)), log|det db/dt| computed
     by the driver from the ORIGINAL distribution and bijector are compared.
"""
import random

from harness import transform_driver as T
from vlib.core import Check

MC = """CONSTANTS Names <- AllNames
 Bijectors = {"exp", "softplus"}
 Atoms = {"a", "b"}
 InitVars <- Init0
SPECIFICATION Spec
CONSTRAINT Bound
INVARIANT OriginalIsImage
INVARIANT FlagsMoved
INVARIANT NewDensityIsChangeOfVariables
PROPERTY ValueUnchangedA
PROPERTY ParamMovesA
PROPERTY RejectedUnchangedA
"""
TV_CFG = 'CONSTANTS Names = {"x"}\n Bijectors = {"b"}\n Atoms = {"a"}\n InitVars = {}\n'


def run(chk: Check):
    rng = random.Random(1400 + chk.seed)
    chk.rule = ("one trace = one real variable with a TFP distribution transformed through one entry point, followed by "
                "assignments to the new variable and to parameter variables; non-trivial = the distribution or the "
                "bijector depends on another variable whose value is changed after the transformation")
    chk.trusted += ["TFP distributions / bijectors for the leaves (computed from the original distribution and bijector)"]
    chk.mc("MC_Transform.tla", MC, tag="symbolic", expect_actions=["DoTransform", "DoAssign"], workers=8,
           what="x (parameter), y (observed), w (weak): all transform/assign sequences, <= 5 variables")
    traces = T.all_traces(rng, reps=1 if chk.quick else 6)
    traces += [T.rejected_trace("weak"), T.rejected_trace("nodist"), T.rejected_trace("frozen")]
    chk.tv("Trace_Transform.tla", traces, tag="pairs", cfg_extra=TV_CFG,
           nontrivial=lambda t: any(e["ev"] == "assign" and e["target"] != "x_transformed" for e in t["ev"]),
           keyfn=lambda r: f"{r.trace['hdr']['mode']}:{r.conjunct}",
           describe=lambda r: f"case {r.trace['hdr']['case']} bijector {r.trace['hdr']['bij']} "
                              f"event {r.trace['ev'][r.line - 1]['ev']} {r.trace['ev'][r.line - 1].get('reason', '')}")
