"""C09 - kernels compose blockwise and keep the model state coherent.

MC : MC_Composition (every sequence of <= 4 transitions, every proposal over {0,1},
     both acceptance outcomes, two instances: DerivedCoherent, OwnBlockOnly,
     OrderRespected; a partial refresh violates DerivedCoherent), and MC_GooseEngine
     OrderRespected (kernel k+1 reads what kernel k wrote, for every schedule).
TV : (i) probe-kernel engine traces (Trace_Engine conjuncts of the composition family),
     (ii) real kernels (IWLS, RW, MH, Gibbs; NUTS/HMC in thorough) over disjoint blocks of
     a Liesel model with derived Calc nodes / a transformed parameter / tracked
     log-probability, and of a dict model, with custom kernel identifiers whose sort
     order differs from the configured order; derived quantities are recomputed from the
     recorded parameters on the user's own model.
"""
from checks import engine_common as EC
from harness import comp_driver, parallel
from vlib.core import Check, MachineryError, run_tlc

COMP = """CONSTANTS N = {n}
 M = 3
 Vals = {{0, 1}}
 Own <- Own{i}
 Dep <- Dep{i}
 Order <- Ord{i}
 Refresh = "{refresh}"
 LogProbDeps = {{3}}
 MaxCalls = 4
INIT CInit
NEXT CNext
CONSTRAINT Bound
INVARIANT DerivedCoherent
INVARIANT OwnBlockOnly
INVARIANT OrderRespected
"""


def run(chk: Check):
    chk.rule = ("one trace per chain: every transition of real kernels behind the wrapping probe with all parameters "
                "before/after, derived quantities carried in the state and their from-scratch recomputation; "
                "non-trivial = at least one accepted and one rejected transition and >= 2 kernels")
    chk.trusted += ["harness/probes.py WrapKernel", "recomputation on the user's own liesel Model (direct assignment + update())",
                    "TFP log_prob for the dict-model density"]
    chk.mc("MC_Composition.tla", COMP.format(n=3, i=2, refresh="full"), tag="two-kernels",
           expect_actions=["Transition"], what="2 kernels / 3 parameters / 3 derived, <= 4 transitions")
    chk.mc("MC_Composition.tla", COMP.format(n=4, i=3, refresh="full"), tag="three-kernels",
           expect_actions=["Transition"], what="3 kernels (order 2,3,1) / 4 parameters, <= 4 transitions")
    r = run_tlc("MC_Composition.tla", COMP.format(n=3, i=2, refresh="logprob_only"), tag="C09-partial")
    if r.error != "invariant:DerivedCoherent":
        raise MachineryError("a partial refresh should violate DerivedCoherent")
    chk.note("design variant 'refresh only what feeds the log-probability' violates DerivedCoherent as expected")
    EC.mc(chk, ["OrderRespected"])
    # (i) probe kernels
    sc = EC.handwritten(True)[:3]
    EC.validate(chk, EC.run_scenarios(chk, sc, "order"), "order")
    # (ii) real kernels
    jobs = [dict(seq="iwls_rw_gibbs", model_kind="liesel", seed=chk.seed),
            dict(seq="rw_mh_rw", model_kind="dict", seed=chk.seed + 1),
            dict(seq="rw_mh_rw", model_kind="liesel", seed=chk.seed + 2, custom_idents=False),
            dict(seq="rw_hi_u_ab", model_kind="liesel2", seed=chk.seed + 7),
            # the interface is made from a model whose automatic updates are switched off (single-key blocks)
            dict(seq="rw_mh_rw", model_kind="liesel", seed=chk.seed + 12, auto_off=True),
            dict(seq="fdgibbs_rw", model_kind="liesel3", seed=chk.seed + 9),
            # a later kernel reports an error code (NaN ratio outside the support) after an earlier one moved
            dict(seq="rw_x_rw_g", model_kind="dict2", seed=chk.seed + 10, schedule=((1, 6), (4, 8))),
            # the builder is given another interface first (same node names, different graph), after the first kernel
            dict(seq="rw_sigma_first", model_kind="liesel", seed=chk.seed + 11, double_set_model=True)]
    if not chk.quick:
        jobs += [dict(seq="gibbs_nuts", model_kind="liesel", seed=chk.seed + 3),
                 dict(seq="hmc_rw", model_kind="liesel", seed=chk.seed + 4),
                 dict(seq="nuts_u_rw", model_kind="liesel2", seed=chk.seed + 8),
                 dict(seq="gibbs_nuts", model_kind="dict", seed=chk.seed + 5),
                 dict(seq="iwls_rw_gibbs", model_kind="dict", seed=chk.seed + 6, chains=3,
                      schedule=((2, 6), (1, 3), (4, 6)))]
    traces = [t for r in parallel.run_jobs("harness.comp_driver", "run", jobs) for t in r]
    # parameters stored with an integer dtype: either refused or coherent
    ints = [comp_driver.int_param_trace(chk.seed + s) for s in range(2 if chk.quick else 10)]
    chk.extra["int_param_states_refused"] = sum(1 for t in ints if t["hdr"]["refused"])
    chk.tv("Trace_Composition.tla", ints, tag="int_params", keyfn=lambda r: f"real:{r.trace['hdr']['model']}:{r.conjunct}")
    # a position key that names a node and also (another) variable: the node is meant, for reading and writing alike
    cl = [comp_driver.clash_trace(chk.seed + s) for s in range(2 if chk.quick else 8)]
    chk.tv("Trace_Composition.tla", cl, tag="name_clash", keyfn=lambda r: f"real:{r.trace['hdr']['model']}:{r.conjunct}")
    # the legacy probability-integral-transform node inside the interface's model copy
    pits = [comp_driver.pit_trace(chk.seed + s) for s in range(2 if chk.quick else 10)]
    chk.tv("Trace_Composition.tla", pits, tag="legacy_pit", keyfn=lambda r: f"real:{r.trace['hdr']['model']}:{r.conjunct}")

    import random
    _glue(chk, random.Random(900 + chk.seed))

    def nontrivial(t):
        mv = [e["moved"] for e in t["ev"] if t["hdr"]["mh_like"][e["k"] - 1]]
        return any(mv) and not all(mv)

    chk.tv("Trace_Composition.tla", traces, tag="real_kernels", nontrivial=nontrivial,
           keyfn=lambda r: f"real:{r.trace['hdr']['model']}:{r.conjunct}",
           describe=lambda r: f"sequence {r.trace['hdr']['seq']} on {r.trace['hdr']['model']} model, kernel "
                              f"{r.trace['ev'][r.line - 1]['kind']}")


def _glue(chk, rng):
    """HMC / NUTS start from the state their predecessor left (shared with C04's premise P6)."""
    from harness import glue_driver as G

    evs = [{"hdr": {"kernel": "hmc", "model": "liesel", "block": ["b", "sigma_transformed"]},
            "ev": G.glue_events(rng, "hmc", "liesel", ("b", "sigma_transformed"), n=3)}]
    if not chk.quick:
        evs.append({"hdr": {"kernel": "nuts", "model": "dict", "block": ["b"]},
                    "ev": G.glue_events(rng, "nuts", "dict", ("b",), n=4)})
    chk.tv("Trace_Glue.tla", evs, tag="hmc_start_state",
           keyfn=lambda r: f"glue:{r.trace['hdr']['kernel']}:{r.conjunct}")
    # the built-in Gibbs kernel reads everything it needs from the state it is handed (the hyper-parameters and the
    # penalty are changed in the state after the kernel was built); shared with C13
    from harness import gibbs_driver
    gt = [{"hdr": {"kind": "tau2", "d": 3, "order": 1, "nontrivial": True}, "ev": gibbs_driver.tau2_events(rng, 3, 1, nkeys=3)}]
    chk.tv("Trace_Gibbs.tla", gt, tag="gibbs_start_state", keyfn=lambda r: f"gibbs:{r.trace['hdr']['kind']}:{r.conjunct}")
    # RW / MH / IWLS next to a kernel that moves what their block's density depends on: proposal and acceptance are those
    # of the state the predecessor left (shared with C06)
    from harness import parallel as par, proposals_driver as P
    js = [j for j in P.jobs(True) if j["family"] in ("coupled", "gamma_coupled")]
    ktr = [t for res in par.run_jobs("harness.proposals_driver", "run", js) for t in res]
    chk.tv("Trace_Proposals.tla", ktr, tag="start_state_of_mh_kernels", timeout=900,
           keyfn=lambda r: f"start_state:{r.trace['hdr']['kernel']}:{r.conjunct}")


def replay(chk: Check, data):
    tr = data["replay"]["trace"]
    if "clash" in tr["hdr"]:
        chk.tv("Trace_Composition.tla", [comp_driver.clash_trace(**tr["hdr"]["clash"])], tag="name_clash",
               keyfn=lambda r: f"real:{r.trace['hdr']['model']}:{r.conjunct}")
    elif "pit" in tr["hdr"]:
        chk.tv("Trace_Composition.tla", [comp_driver.pit_trace(**tr["hdr"]["pit"])], tag="legacy_pit",
               keyfn=lambda r: f"real:{r.trace['hdr']['model']}:{r.conjunct}")
    elif "int_param" in tr["hdr"]:
        chk.tv("Trace_Composition.tla", [comp_driver.int_param_trace(**tr["hdr"]["int_param"])], tag="int_params",
               keyfn=lambda r: f"real:{r.trace['hdr']['model']}:{r.conjunct}")
    elif "seq" in tr["hdr"]:
        traces = comp_driver.run(**{k: (tuple(tuple(x) for x in v) if k == "schedule" else v)
                                    for k, v in tr["hdr"]["scenario"].items()})
        chk.tv("Trace_Composition.tla", traces, tag="real_kernels",
               keyfn=lambda r: f"real:{r.trace['hdr']['model']}:{r.conjunct}")
    else:
        EC.replay(chk, data)
