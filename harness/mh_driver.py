"""Driver for Trace_MHStep.tla (C05): calls the real liesel.goose.mh.mh_step through a
DictInterface whose log-probability is read from the state, so current / proposed
log-density and the correction are fully controlled."""
from __future__ import annotations

import itertools

import jax
import jax.numpy as jnp
import numpy as np

import liesel.goose as gs
from liesel.goose.mh import mh_step
from vlib.core import fstr

MODEL = gs.DictInterface(lambda s: s["lp"])


def _bits_equal(a, b):
    a = jnp.asarray(a)
    b = jnp.asarray(b)
    if a.dtype != b.dtype or a.shape != b.shape:
        return jnp.asarray(False)
    if jnp.issubdtype(a.dtype, jnp.floating):
        a = jax.lax.bitcast_convert_type(a.astype(jnp.float32), jnp.int32)
        b = jax.lax.bitcast_convert_type(b.astype(jnp.float32), jnp.int32)
    return jnp.all(a == b)


def _tree_equal(t1, t2):
    l1, s1 = jax.tree_util.tree_flatten(t1)
    l2, s2 = jax.tree_util.tree_flatten(t2)
    if s1 != s2:
        return jnp.asarray(False)
    out = jnp.asarray(True)
    for a, b in zip(l1, l2):
        out = jnp.logical_and(out, _bits_equal(a, b))
    return out


def one_call(key, cur, prop, corr):
    state = {"x": jnp.array([1.0, 2.0], jnp.float32), "lp": cur, "aux": jnp.array(7, jnp.int32)}
    proposal = {"x": jnp.array([3.0, 4.0], jnp.float32), "lp": prop}
    info, new = mh_step(key, MODEL, proposal, state, corr)
    expected = MODEL.update_state(proposal, state)
    return (
        jnp.asarray(info.error_code, jnp.int32),
        jnp.asarray(info.acceptance_prob, jnp.float32),
        jnp.asarray(info.position_moved).astype(jnp.int32),
        _tree_equal(new, state),
        _tree_equal(new, expected),
    )


GRID_VALUES = [float("-inf"), -100.0, -2.0, -0.5, 0.0, 0.25, 1.0, float("inf"), float("nan")]


def combos(values=GRID_VALUES):
    return list(itertools.product(values, repeat=3))


def large_magnitude_combos():
    """Log-densities of large magnitude whose difference is exactly representable in float32 (so the code's own
    arithmetic is exact and the comparison with the spec's real-valued formula needs no extra tolerance), with
    moderate corrections: the correction must survive next to a log-density of 1e5 .. 3e7."""
    out = []
    for cur, deltas in ((-3.0e7, (0.0, 4.0, -2.0)), (-1.0e5, (0.0, 0.5, -1.5)), (2.0e6, (0.0, 1.0, -0.5))):
        for d in deltas:
            for corr in (-2.0, -0.5, 0.0, 0.25, 1.0, float("-inf"), float("nan")):
                out.append((cur, cur + d, corr))
    return out


def find_zero_draw_keys(n_chunks=8):
    """Seeds whose jax.random.uniform draw is exactly 0.0.  Only used to *find*
    interesting keys; the verdict never depends on jax.random.uniform."""
    f = jax.jit(jax.vmap(lambda s: jax.random.uniform(jax.random.PRNGKey(s))))
    found = []
    for c in range(n_chunks):
        seeds = jnp.arange(c * (1 << 22), (c + 1) * (1 << 22), dtype=jnp.int32)
        u = np.asarray(f(seeds))
        found += [int(s) for s in np.asarray(seeds)[u == 0.0]]
    return found


def _ret(is_in, is_prop):
    if is_in and is_prop:
        return "both"
    if is_in:
        return "input"
    if is_prop:
        return "proposed"
    return "other"


def traces_for_keys(seeds, cmb, mode="vmap_jit"):
    """One trace per key; events = every combo."""
    keys = jnp.stack([jax.random.PRNGKey(s) for s in seeds])
    cur = jnp.asarray([c[0] for c in cmb], jnp.float32)
    prop = jnp.asarray([c[1] for c in cmb], jnp.float32)
    corr = jnp.asarray([c[2] for c in cmb], jnp.float32)
    if mode == "vmap_jit":
        f = jax.jit(jax.vmap(jax.vmap(one_call, in_axes=(None, 0, 0, 0)), in_axes=(0, None, None, None)))
        code, acc, moved, isin, isprop = (np.asarray(x) for x in f(keys, cur, prop, corr))
    elif mode == "jit":
        f = jax.jit(one_call)
        res = [[f(k, cur[j], prop[j], corr[j]) for j in range(len(cmb))] for k in keys]
        code, acc, moved, isin, isprop = (
            np.asarray([[np.asarray(r[i]) for r in row] for row in res]) for i in range(5))
    else:  # eager
        res = [[one_call(k, cur[j], prop[j], corr[j]) for j in range(len(cmb))] for k in keys]
        code, acc, moved, isin, isprop = (
            np.asarray([[np.asarray(r[i]) for r in row] for row in res]) for i in range(5))
    out = []
    for i, s in enumerate(seeds):
        ev = []
        for j, c in enumerate(cmb):
            ev.append({
                "ev": "mh", "cur": fstr(c[0]), "prop": fstr(c[1]), "corr": fstr(c[2]),
                "code": int(code[i, j]), "acc": fstr(acc[i, j]), "moved": bool(moved[i, j]),
                "ret": _ret(bool(isin[i, j]), bool(isprop[i, j])),
            })
        out.append({"hdr": {"seed": int(s), "mode": mode}, "ev": ev})
    return out
