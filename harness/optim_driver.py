"""Drivers for Trace_Optim.tla (C20): the real Stopper on enumerated loss buffers (eager
and jitted), and complete optim_flat runs with the mini-batch hook H1 switched on."""
from __future__ import annotations

import itertools
import json
import os
import tempfile

import jax
import jax.numpy as jnp
import numpy as np

from vlib.core import fstr


def stopper_events(losses, maxlen, ps, atols, rtols, modes=("jit",)):
    """Every history of length 1..maxlen over `losses` x every (p, atol, rtol, i)."""
    from liesel.goose.optim import Stopper

    evs = []
    for n in range(1, maxlen + 1):
        hists = np.asarray(list(itertools.product(losses, repeat=n)), np.float32)  # [H, n]
        for p in ps:
            if p > n:
                continue
            for atol in atols:
                for rtol in rtols:
                    st = Stopper(max_iter=n, patience=p, atol=atol, rtol=rtol)
                    for i in range(n):
                        seen = hists.copy()
                        seen[:, i + 1:] = 0.0
                        for mode in modes:
                            if mode == "jit":
                                f = jax.jit(jax.vmap(lambda b, st=st, i=i: (
                                    st.stop_early(i, b), st.stop_now(i, b),
                                    st.which_best_in_recent_history(i, b) if i >= st.patience - 1 else -1)))
                                se, sn, wb = (np.asarray(x) for x in f(jnp.asarray(seen)))
                            else:
                                sub = seen[:: max(1, len(seen) // 6)]
                                res = [(st.stop_early(i, jnp.asarray(b)), st.stop_now(i, jnp.asarray(b)),
                                        st.which_best_in_recent_history(i, jnp.asarray(b)) if i >= p - 1 else -1)
                                       for b in sub]
                                se, sn, wb = (np.asarray([np.asarray(r[j]) for r in res]) for j in range(3))
                                seen_m = sub
                            rows = seen if mode == "jit" else seen_m
                            for h in range(len(rows)):
                                evs.append({"ev": "stopper", "mode": mode, "max_iter": n, "p": p,
                                            "atol": fstr(atol), "rtol": fstr(rtol), "i": i,
                                            "buf": [fstr(x) for x in rows[h]], "stop_early": bool(se[h]),
                                            "stop_now": bool(sn[h]), "which_best": int(wb[h])})
    return evs


# ---- complete runs ------------------------------------------------------------------

COEF0 = [0.3, -0.2]       # the optimisation starts away from zero


def build_model(n, seed, split=False):
    """split: the two coefficients are two scalar parameters, `slope` and `intercept` (optimised in this - not the
    alphabetical - order)."""
    import tensorflow_probability.substrates.jax.distributions as tfd

    import liesel.model as lsl

    rng = np.random.default_rng(seed)
    x = rng.normal(size=n).astype(np.float32)
    y = (0.5 + 1.2 * x + rng.normal(size=n)).astype(np.float32)
    if split:
        b0 = lsl.param(jnp.asarray(COEF0[0], jnp.float32), lsl.Dist(tfd.Normal, loc=0.0, scale=10.0), name="intercept")
        b1 = lsl.param(jnp.asarray(COEF0[1], jnp.float32), lsl.Dist(tfd.Normal, loc=0.0, scale=10.0), name="slope")
        xv = lsl.obs(jnp.asarray(x), name="x")
        mu = lsl.Var(lsl.Calc(lambda xs, a, b: a + b * xs, xv, b0, b1), name="mu")
        yvar = lsl.obs(jnp.asarray(y), lsl.Dist(tfd.Normal, loc=mu, scale=1.0), name="y")
        return lsl.GraphBuilder().add(yvar).build_model()
    coef = lsl.param(jnp.asarray(COEF0, jnp.float32), lsl.Dist(tfd.Normal, loc=0.0, scale=10.0), name="coef")
    xvar = lsl.obs(jnp.c_[jnp.ones_like(x), x], name="x")
    mu = lsl.Var(lsl.Calc(jnp.dot, xvar, coef), name="mu")
    yvar = lsl.obs(jnp.asarray(y), lsl.Dist(tfd.Normal, loc=mu, scale=1.0), name="y")
    return lsl.GraphBuilder().add(yvar).build_model()


def one_run(n=10, batch_size=None, batch_seed=3, max_iter=40, patience=5, atol=1e-3, rtol=0.0,
            validation=True, restore=True, prune=True, lr=0.05, seed=0, reuse_stopper=False, split=False):
    """reuse_stopper: the Stopper object was used before, in a call without a validation model"""
    import optax

    import liesel.goose as gs
    from liesel.goose.optim import Stopper, optim_flat

    ev = {"ev": "run", "crash": "", "n": n, "batch_size": batch_size or n, "max_iter": max_iter,
          "user_p": patience, "eff_p": patience if validation else max_iter, "atol": fstr(atol),
          "rtol": fstr(rtol), "restore": restore, "prune": prune}
    hdr = {"kind": "run", "kwargs": dict(n=n, batch_size=batch_size, batch_seed=batch_seed, max_iter=max_iter,
                                         patience=patience, atol=atol, rtol=rtol, validation=validation,
                                         restore=restore, prune=prune, lr=lr, seed=seed, reuse_stopper=reuse_stopper,
                                         split=split)}
    fd, path = tempfile.mkstemp(suffix=".ndjson")
    os.close(fd)
    try:
        os.environ["LIESEL_VERIF"] = "1"
        os.environ["LIESEL_VERIF_TRACE"] = path
        import functools
        bm = functools.partial(build_model, split=split)
        params = ["slope", "intercept"] if split else ["coef"]
        vec = lambda pos: np.concatenate([np.ravel(np.asarray(pos[k], np.float32)) for k in params])  # noqa: E731
        hvec = lambda hist: np.concatenate([np.asarray(hist[k], np.float32).reshape(len(hist[k]), -1) for k in params], axis=1)  # noqa: E731
        unvec = lambda row: ({"slope": jnp.asarray(row[0]), "intercept": jnp.asarray(row[1])} if split  # noqa: E731
                             else {"coef": jnp.asarray(row)})
        model = bm(n, seed)
        mval = bm(max(4, n // 2), seed + 100) if validation else None
        # (the run scenarios give the four documented fields by position, the exhaustive stopper events by keyword)
        stopper = Stopper(max_iter, patience, atol, rtol)
        if reuse_stopper == "failed":
            # ... in a call that raised (a misspelt parameter name)
            try:
                optim_flat(bm(n, seed + 7), ["coeff"], optimizer=optax.adam(lr), stopper=stopper, progress_bar=False)
                ev["first_call_raised"] = False
            except Exception:  # noqa: BLE001
                ev["first_call_raised"] = True
            ev["stopper_patience_after_first_use"] = int(stopper.patience)
            open(path, "w").close()
        elif reuse_stopper:
            optim_flat(bm(n, seed + 7), params, optimizer=optax.adam(lr), stopper=stopper, progress_bar=False)
            ev["stopper_patience_after_first_use"] = int(stopper.patience)
            os.environ["LIESEL_VERIF_TRACE"] = path
            open(path, "w").close()
        res = optim_flat(model, params, optimizer=optax.adam(lr),
                         stopper=stopper,
                         batch_size=batch_size, batch_seed=batch_seed, model_validation=mval,
                         restore_best_position=restore, prune_history=prune, progress_bar=False)
        jax.effects_barrier()
        it = int(res.iteration)
        ev["iteration"] = it
        ev["iteration_best"] = int(res.iteration_best)
        lv = np.asarray(res.history["loss_validation"], np.float32)
        lt = np.asarray(res.history["loss_train"], np.float32)
        hp = hvec(res.history["position"])
        ev["loss_validation"] = [fstr(x) for x in lv[: it + 1]]
        ev["len_train"], ev["len_validation"], ev["len_position"] = len(lt), len(lv), len(hp)
        nan_from = -1
        if not prune:
            isn = np.isnan(lv)
            ok = (not isn[: it + 1].any()) and isn[it + 1:].all() and np.isnan(lt[it + 1:]).all() \
                and np.isnan(hp[it + 1:]).all() and not np.isnan(hp[: it + 1]).any()
            nan_from = it + 1 if ok else -2
        ev["nan_from"] = nan_from
        ev["position"] = [fstr(x) for x in vec(res.position)]
        ev["hist_position"] = [[fstr(x) for x in row] for row in hp[: it + 1]]
        ev["start_position"] = [fstr(np.float32(x)) for x in (COEF0[::-1] if split else COEF0)]
        # model state vs position: recompute through the driver's own interface on a fresh model
        iface = gs.LieselInterface(bm(n, seed))
        ref = iface.update_state(res.position, bm(n, seed).state)
        names = ["_model_log_prob", "_model_log_lik", "_model_log_prior"] + [k + "_value" for k in params]
        sv, rv = [], []
        for nm in names:
            sv += [fstr(x) for x in np.ravel(np.asarray(res.model_state[nm].value, np.float32))]
            rv += [fstr(x) for x in np.ravel(np.asarray(ref[nm].value, np.float32))]
        sv += [fstr(x) for x in np.ravel(np.asarray(res.model_state["mu_value"].value, np.float32))]
        rv += [fstr(x) for x in np.ravel(np.asarray(ref["mu_value"].value, np.float32))]
        ev["state_vals"], ev["recomputed_vals"] = sv, rv
        # the recorded validation loss is the validation model's negative log-probability at the recorded position
        vmodel = bm(max(4, n // 2), seed + 100) if validation else bm(n, seed)
        viface = gs.LieselInterface(vmodel)
        vstate = vmodel.state
        nv = max(4, n // 2) if validation else n      # the log-likelihood is scaled to the size of the training data

        def vloss(row):
            st = viface.update_state(unvec(row), vstate)
            return -(np.float32(n / nv) * st["_model_log_lik"].value + st["_model_log_prior"].value)
        ev["loss_validation_recomputed"] = [fstr(np.float32(vloss(row))) for row in hp[: it + 1]]
        recs = [json.loads(line) for line in open(path)] if os.path.getsize(path) else []
        recs = sorted((r for r in recs if r["event"] == "optim_batches"), key=lambda r: r["while_i"])
        ev["batches"] = [{"i": int(r["while_i"]), "subkey": f"{r['subkey'][0]}:{r['subkey'][1]}",
                          "batches": [[int(v) for v in b] for b in r["batches"]]} for r in recs]
        if batch_size and batch_size < n:
            # the same data with other batch seeds: the first iteration's batches (they are drawn from the seed)
            ev["first_batches_other_seeds"] = []
            for other in (batch_seed + 1, batch_seed + 2):
                open(path, "w").close()
                optim_flat(bm(n, seed), params, optimizer=optax.adam(lr), stopper=Stopper(max_iter=2, patience=2),
                           batch_size=batch_size, batch_seed=other, progress_bar=False)
                jax.effects_barrier()
                r2 = [json.loads(line) for line in open(path)] if os.path.getsize(path) else []
                r2 = sorted((r for r in r2 if r["event"] == "optim_batches"), key=lambda r: r["while_i"])
                ev["first_batches_other_seeds"].append([[int(v) for v in b] for b in r2[0]["batches"]] if r2 else [])
    except Exception as ex:  # noqa: BLE001
        import traceback
        ev["crash"] = f"{type(ex).__name__}: {ex}"[:200] + " | " + traceback.format_exc()[-500:]
    finally:
        os.environ.pop("LIESEL_VERIF_TRACE", None)
        os.unlink(path)
    return {"hdr": hdr, "ev": [ev]}


def run_jobs_list(quick=True):
    jobs = [
        dict(n=10, batch_size=3, max_iter=45, patience=5, validation=True),          # 3 does not divide 10
        dict(n=10, batch_size=None, max_iter=60, patience=5, validation=True, reuse_stopper=True),
        dict(n=10, batch_size=None, max_iter=60, patience=5, validation=True, reuse_stopper="failed"),
        dict(n=12, batch_size=5, max_iter=40, patience=40, validation=False),         # no early stopping, >= 30 its
        dict(n=10, batch_size=7, max_iter=30, patience=30, validation=False, batch_seed=2),   # one full batch that does not cover the data
        dict(n=10, batch_size=None, max_iter=30, patience=4, atol=0.5, validation=True),
        dict(n=9, batch_size=4, max_iter=25, patience=3, rtol=0.05, atol=0.0, validation=True, prune=False),
        dict(n=8, batch_size=2, max_iter=12, patience=3, validation=True, restore=False, lr=0.5),
        # two scalar parameters optimised in non-alphabetical order
        dict(n=10, batch_size=None, max_iter=40, patience=5, validation=True, split=True),
        # a patience window longer than the iteration limit (with and without a validation model): runs to the limit
        dict(n=10, batch_size=None, max_iter=6, patience=9, validation=True),
        dict(n=10, batch_size=5, max_iter=7, patience=10, validation=False, lr=1.2),
        # no validation model, patience < max_iter, non-monotone loss (large learning rate)
        dict(n=10, batch_size=None, max_iter=30, patience=4, validation=False, lr=1.2),
    ]
    if not quick:
        jobs += [
            dict(n=11, batch_size=4, max_iter=60, patience=6, validation=True, batch_seed=11),
            dict(n=12, batch_size=7, max_iter=35, patience=35, validation=False, prune=False, batch_seed=5),
            dict(n=10, batch_size=3, max_iter=20, patience=2, atol=5.0, validation=True),
            dict(n=10, batch_size=10, max_iter=15, patience=5, validation=True, lr=1.5),
            dict(n=6, batch_size=4, max_iter=50, patience=50, validation=False, batch_seed=99),
        ]
    return jobs
