"""Drivers for Trace_MassMatrix.tla (C12): kernel.tune() of real HMC/NUTS kernels on a
slow-adaptation epoch with synthetic histories, and engine runs."""
from __future__ import annotations

import itertools

import jax
import jax.numpy as jnp
import numpy as np
from jax.flatten_util import ravel_pytree

import liesel.goose as gs
from liesel.goose.epoch import EpochConfig, EpochType
from vlib.core import fstr

NAMES = ["aa", "mm", "zz", "Beta", "b1", "alpha_2", "Z", "k"]


def f32s(x):
    return fstr(np.float32(x))


def observed_flat_order(kernel, names, shapes, rank):
    """Coordinate order blackjax will use: the kernel's own position() + ravel_pytree."""
    ms = {}
    for n in names:
        size = int(np.prod(shapes[n])) if shapes[n] else 1
        ms[n] = (1000.0 * rank[n] + jnp.arange(1, size + 1, dtype=jnp.float32)).reshape(shapes[n])
    flat, _ = ravel_pytree(kernel.position(ms))
    return [[int(v // 1000), int(round(v % 1000))] for v in np.asarray(flat)]


def direct_trace(rng, cls, listing, shapes, diag, foreign=("other",), T=None):
    names = list(listing)
    rank = {n: i + 1 for i, n in enumerate(sorted(names))}
    kernel = cls(names, initial_step_size=0.1, mm_diag=diag)
    model = gs.DictInterface(lambda s: -0.5 * sum(jnp.sum(v ** 2) for v in s.values()))
    kernel.set_model(model)
    ms = {n: jnp.zeros(shapes[n], jnp.float32) for n in names}
    for f in foreign:
        ms[f] = jnp.zeros((2,), jnp.float32)
    ks = kernel.init_state(jax.random.PRNGKey(0), ms)
    T = T or rng.randint(5, 12)
    # synthetic history: coordinate j has scale 2^j and a shared component
    D = sum(int(np.prod(shapes[n])) if shapes[n] else 1 for n in names)
    sorted_names = sorted(names)
    cols = {}
    shared = np.array([rng.gauss(0, 1) for _ in range(T)])
    j = 0
    hist = {}
    for n in sorted_names:
        size = int(np.prod(shapes[n])) if shapes[n] else 1
        arr = np.zeros((T, size), np.float32)
        for o in range(size):
            scale = 2.0 ** (j % 6) * (1 + 0.1 * j)
            # (some coordinates sit far from zero: |mean| / sd around 1e3, e.g. an uncentred intercept)
            offset = rng.uniform(-3, 3) if rng.random() < 0.75 else rng.choice([-1.0, 1.0]) * 500.0 * scale
            arr[:, o] = np.float32(scale * (np.array([rng.gauss(0, 1) for _ in range(T)]) + 0.5 * shared) + offset)
            cols[(rank[n], o + 1)] = arr[:, o]
            j += 1
        hist[n] = jnp.asarray(arr.reshape((T,) + tuple(shapes[n])))
    for f in foreign:
        hist[f] = jnp.asarray(np.float32(1000.0 * np.array([[rng.gauss(0, 1) for _ in range(2)] for _ in range(T)])))
    # present the history in an order of its own (dict order must not matter)
    keys_order = list(hist)
    rng.shuffle(keys_order)
    hist = {k: hist[k] for k in keys_order}
    epoch = EpochConfig(EpochType.SLOW_ADAPTATION, T, 1, None).to_state(2, 10)
    epoch.time_in_epoch = T
    epoch.time = 10 + T
    out = kernel.tune(jax.random.PRNGKey(1), ks, ms, epoch, hist)
    imm = np.asarray(out.kernel_state.inverse_mass_matrix)
    flat = observed_flat_order(kernel, names, shapes, rank)
    sizes = [int(np.prod(shapes[n])) if shapes[n] else 1 for n in sorted_names]
    fo = [(rank[n], o + 1) for n in sorted_names for o in range(sizes[rank[n] - 1])]
    ev = {"ev": "tune", "flat": flat,
          "hist": [[f32s(v) for v in cols[c]] for c in fo],
          "imm": [f32s(v) for v in imm] if diag else [[f32s(v) for v in row] for row in imm]}
    hdr = {"K": len(names), "size": sizes, "listing": [rank[n] for n in names], "diag": bool(diag),
           "names": names, "kernel": cls.__name__, "kind": "direct",
           "alphabetical": names == sorted_names}
    return {"hdr": hdr, "ev": [ev]}


def direct_traces(rng, quick=True):
    out = []
    shape_opts = [(), (2,), (2, 3)] if quick else [(), (2,), (2, 2), (3,), (2, 3), (3, 2)]
    for cls in (gs.HMCKernel, gs.NUTSKernel):
        for K in (1, 2, 3):
            pools = [rng.sample(NAMES, K) for _ in range(2 if quick else 6)]
            for pool in pools:
                perms = list(itertools.permutations(pool))
                if quick and K == 3:
                    perms = rng.sample(perms, 3)
                for listing in perms:
                    for diag in (True, False):
                        shapes = {n: rng.choice(shape_opts) for n in listing}
                        out.append(direct_trace(rng, cls, listing, shapes, diag,
                                                foreign=("other",) if rng.random() < 0.7 else ()))
    return out


# ---- engine-level ------------------------------------------------------------------------

def engine_traces(cls, listing, other_listing, diag, seed=0, chains=2, slow=(8, 10), companion="mm", tail_posterior=True,
                  stepwise=False, fast=4, tail_fast=0, pre_burnin=0, slow_thin=1):
    """tail_posterior=False: the schedule ends with the last slow-adaptation epoch; stepwise: the epochs are appended and
    sampled one at a time (every epoch is the last configured one when it ends)."""
    """A real engine with two mass-matrix kernels over non-alphabetical keys; after each
    slow epoch the kernel's matrix (from store_kernel_states) is compared with that
    epoch's stored history of the kernel's own keys."""
    names = list(listing) + list(other_listing)
    scales = {n: 1.0 + 2.0 * i for i, n in enumerate(sorted(names))}

    def logp(s):
        return sum(-0.5 * jnp.sum((s[n] / scales[n]) ** 2) for n in names)

    b = gs.EngineBuilder(seed=seed, num_chains=chains)
    b.set_model(gs.DictInterface(logp))
    shapes = {n: (2,) if i % 2 == 0 else () for i, n in enumerate(names)}
    b.set_initial_values({n: jnp.ones(shapes[n], jnp.float32) * 0.1 for n in names})
    kw = {"max_treedepth": 3} if cls is gs.NUTSKernel else {"num_integration_steps": 3}
    k1 = cls(list(listing), initial_step_size=0.5, mm_diag=diag, **kw)
    if companion == "mm":
        k2 = cls(list(other_listing), initial_step_size=0.5, mm_diag=diag, **kw)
    elif companion == "tuneerr":
        # a co-existing kernel whose tuning reports an error code (whenever its first coordinate is not positive), with
        # user-assigned identifiers whose alphabetical order is not the kernel order
        from .runs_driver import TuneErrRW
        k2 = TuneErrRW(list(other_listing), initial_step_size=0.5)
        k2.err_key = list(other_listing)[0]
        k1.identifier, k2.identifier = "z_first", "a_second"
    else:   # a co-existing kernel that does not ask for the history
        k2 = gs.RWKernel(list(other_listing), initial_step_size=0.5)
    b.add_kernel(k1)
    b.add_kernel(k2)
    # fast: duration of the first fast-adaptation epoch (equal to a slow epoch's duration: the tuning calls of the two
    # see histories of the same shape); tail_fast: a further fast-adaptation epoch after the slow ones
    cfgs = [EpochConfig(EpochType.INITIAL_VALUES, 1, 1, None), EpochConfig(EpochType.FAST_ADAPTATION, fast, 1, None)]
    # pre_burnin: a burn-in epoch between the fast and the first slow adaptation epoch; slow_thin: thinning of the slow
    # adaptation epochs (the kernels are tuned on the *recorded* history of the epoch that just ended)
    if pre_burnin:
        cfgs += [EpochConfig(EpochType.BURNIN, pre_burnin, 1, None)]
    cfgs += [EpochConfig(EpochType.SLOW_ADAPTATION, d, slow_thin, None) for d in slow]
    if tail_fast:
        cfgs += [EpochConfig(EpochType.FAST_ADAPTATION, tail_fast, 1, None)]
    if tail_posterior:
        cfgs += [EpochConfig(EpochType.POSTERIOR, 4, 1, None)]
    # (stepwise: the builder needs one real epoch for its chunk length - with the initial epoch alone it is 0 and a
    # later appended epoch cannot be sampled, ZeroDivisionError; G6, not a listed property)
    b.set_epochs(cfgs[:2] if stepwise else cfgs)
    b.store_kernel_states = True
    b.show_progress = False
    eng = b.build()
    if stepwise:
        eng.sample_next_epoch()
        eng.sample_next_epoch()
        for cfg in cfgs[2:]:
            eng.append_epoch(cfg)
            eng.sample_next_epoch()
    else:
        eng.sample_all_epochs()
    res = eng.get_results()
    samples = res.positions.combine_all().unwrap()  # dict name -> [chain, time, ...]
    kstates = res.kernel_states.unwrap().combine_all().unwrap()  # list per kernel
    out = []
    starts = np.cumsum([0] + [c.duration // c.thinning for c in cfgs])      # stored samples
    tstarts = np.cumsum([0] + [c.duration for c in cfgs])                    # transitions (kernel states are stored for each)
    for ki, (kern, lst) in enumerate(((k1, listing), (k2, other_listing))[: 2 if companion == "mm" else 1]):
        lst = list(lst)
        rank = {n: i + 1 for i, n in enumerate(sorted(lst))}
        sizes = [int(np.prod(shapes[n])) if shapes[n] else 1 for n in sorted(lst)]
        fo = [(rank[n], o + 1) for n in sorted(lst) for o in range(sizes[rank[n] - 1])]
        flat = observed_flat_order(kern, lst, shapes, rank)
        imm_all = np.asarray(kstates[ki].inverse_mass_matrix)  # [chain, time(+init), ...]
        for c in range(chains):
            ev = []
            for ei, cfg in enumerate(cfgs):
                lo, hi = int(starts[ei]), int(starts[ei + 1])  # sample indices of this epoch
                tlo, thi = int(tstarts[ei]), int(tstarts[ei + 1])
                if cfg.type == EpochType.FAST_ADAPTATION and ei > 1:
                    # a fast-adaptation epoch after the matrix was tuned: the matrix in force at its first transition and
                    # the one in force afterwards
                    after = imm_all[c, thi] if thi < imm_all.shape[1] else np.asarray(eng._kernel_states[ki].inverse_mass_matrix)[c]
                    fm = lambda m: [f32s(v) for v in np.ravel(m)]  # noqa: E731
                    ev.append({"ev": "fast_keep", "epoch": ei, "before": fm(imm_all[c, tlo]), "after": fm(after)})
                if cfg.type != EpochType.SLOW_ADAPTATION:
                    continue
                cols = {}
                for n in lst:
                    arr = np.asarray(samples[n])[c, lo:hi].reshape(hi - lo, -1)
                    for o in range(arr.shape[1]):
                        cols[(rank[n], o + 1)] = arr[:, o]
                # matrix in force during the first transition of the *next* epoch (after the last epoch: the engine's
                # final kernel state)
                imm = imm_all[c, thi] if thi < imm_all.shape[1] else np.asarray(eng._kernel_states[ki].inverse_mass_matrix)[c]
                ev.append({"ev": "tune", "flat": flat, "epoch": ei,
                           "hist": [[f32s(v) for v in cols[cc]] for cc in fo],
                           "imm": [f32s(v) for v in imm] if diag else [[f32s(v) for v in row] for row in imm]})
            out.append({"hdr": {"K": len(lst), "size": sizes, "listing": [rank[n] for n in lst],
                                "diag": bool(diag), "names": lst, "kernel": cls.__name__, "kind": "engine",
                                "chain": c, "alphabetical": lst == sorted(lst)}, "ev": ev})
    return out
