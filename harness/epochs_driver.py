"""Drivers recording traces of the real EpochManager / stan_epochs / EngineBuilder
for Trace_Epochs.tla (C16)."""
from __future__ import annotations

import itertools
import random
import signal

from liesel.goose.epoch import EpochConfig, EpochManager, EpochType
from liesel.goose.warmup import stan_epochs


def cfg_rec(t, d, k):
    return {"type": int(t), "dur": int(d), "thin": int(k)}


def mk(c):
    return EpochConfig(EpochType(c["type"]) if 0 <= c["type"] <= 4 else c["type"], c["dur"], c["thin"], None)


class Recorder:
    """Drives one real EpochManager and records one event per public call."""

    def __init__(self):
        self.mgr = EpochManager(None)
        self.ev = []

    def append(self, c):
        exc = ""
        try:
            self.mgr.append(mk(c))
            ok = True
        except Exception as ex:  # noqa: BLE001  (the documented refusal is a RuntimeError)
            ok = False
            exc = type(ex).__name__
        self.ev.append({"ev": "append", "c": c, "accepted": ok, "n": len(self.mgr._configs), "exc": exc})
        return ok

    def next(self):
        try:
            s = self.mgr.next()
        except RuntimeError:
            self.ev.append({"ev": "next", "ok": False})
            return None
        self.ev.append(
            {
                "ev": "next",
                "ok": True,
                "idx": int(s.nth_epoch),
                "start": int(s.time_before_epoch),
                "time": int(s.time),
                "tie": int(s.time_in_epoch),
                "c": cfg_rec(s.config.type, s.config.duration, s.config.thinning),
            }
        )
        return s

    def has_more(self):
        self.ev.append({"ev": "has_more", "ret": bool(self.mgr.has_more())})

    def trace(self, **hdr):
        return {"hdr": hdr or {"k": 0}, "ev": self.ev}


PREFIXES = [
    [],
    [(0, 1, 1)],
    [(0, 1, 1), (1, 3, 1)],
    [(0, 1, 1), (4, 4, 2)],
    [(0, 1, 1), (2, 2, 2), (3, 5, 1)],
    [(0, 1, 1), (3, 1, 1), (4, 6, 3), (4, 2, 1)],
]


def alphabet(neglo, durhi, thinhi, types=range(0, 5)):
    return [
        cfg_rec(t, d, k)
        for t in types
        for d in range(-neglo, durhi + 1)
        for k in range(-neglo, thinhi + 1)
    ]


def prefix_times_alphabet(rng, alpha):
    """For each valid prefix and each candidate config: appends, interleaved next()
    calls, then drain."""
    out = []
    for pre in PREFIXES:
        for c in alpha:
            r = Recorder()
            for p in pre:
                r.append(cfg_rec(*p))
                if rng.random() < 0.3:
                    r.next()
            r.append(c)
            r.has_more()
            for _ in range(len(pre) + 3):
                if r.next() is None:
                    break
            out.append(r.trace(kind="prefix_x_alphabet"))
    return out


def rejected_then_valid():
    """After every valid prefix: a config the manager must refuse, then every kind of continuation - a refused append
    leaves no trace in what is accepted afterwards."""
    out = []
    bads = [(4, 5, 2), (4, 13, 7), (4, 0, 1), (1, -1, 1), (3, 2, 3), (0, 1, 1), (2, 0, 1)]
    goods = [(1, 3, 1), (2, 2, 1), (3, 5, 2), (3, 4, 2), (4, 4, 2), (4, 1, 1)]
    for pre in PREFIXES:
        for bad in bads:
            for good in goods:
                r = Recorder()
                for p in pre:
                    r.append(cfg_rec(*p))
                r.append(cfg_rec(*bad))
                r.append(cfg_rec(*good))
                r.has_more()
                while r.next() is not None:
                    pass
                out.append(r.trace(kind="rejected_then_valid"))
    return out


def all_sequences(alpha, maxlen):
    """Every config sequence of length <= maxlen; after each append that was accepted
    nothing else happens; at the end next() until exhausted (+ one refusal)."""
    out = []
    for n in range(1, maxlen + 1):
        for seq in itertools.product(alpha, repeat=n):
            r = Recorder()
            for c in seq:
                r.append(c)
            while r.next() is not None:
                pass
            out.append(r.trace(kind="all_sequences"))
    return out


def random_histories(rng, n, maxops=14):
    """Random interleavings of append (biased towards valid continuations), next and
    has_more."""
    out = []
    for _ in range(n):
        r = Recorder()
        posted = False
        for i in range(rng.randint(2, maxops)):
            u = rng.random()
            if u < 0.55:
                if not r.mgr._configs and rng.random() < 0.8:
                    c = cfg_rec(0, 1, 1)
                elif rng.random() < 0.75:
                    t = rng.choice([4] if posted and rng.random() < 0.8 else [1, 2, 3, 4])
                    k = rng.choice([1, 1, 2, 3, 5])
                    d = k * rng.randint(1, 6) if rng.random() < 0.8 else rng.randint(1, 12)
                    c = cfg_rec(t, d, k)
                else:
                    c = cfg_rec(rng.randint(0, 4), rng.randint(-1, 9), rng.randint(-1, 9))
                if r.append(c) and c["type"] == 4:
                    posted = True
            elif u < 0.9:
                r.next()
            else:
                r.has_more()
        out.append(r.trace(kind="random_history"))
    return out


class _Hang(Exception):
    pass


def _alarm(*_):
    raise _Hang()


STAN_KEYS = ["warmup", "post", "init", "term", "base", "thinPost", "thinWarm"]


def call_stan(a, via_builder=False):
    """Returns (raised, out) or raises _Hang.  via_builder: through EngineBuilder.set_duration (which fixes
    init_duration = 75 and base_duration = 25, the defaults of stan_epochs)."""
    old = signal.signal(signal.SIGALRM, _alarm)
    signal.setitimer(signal.ITIMER_REAL, 5.0)
    try:
        try:
            if via_builder:
                import liesel.goose as gs
                b = gs.EngineBuilder(seed=1, num_chains=1)
                b.set_duration(a["warmup"], a["post"], term_duration=a["term"], thinning_posterior=a["thinPost"],
                               thinning_warmup=a["thinWarm"])
                return False, list(b.epochs)      # a RuntimeError of the EpochManager is caught below
            out = stan_epochs(
                warmup_duration=a["warmup"],
                posterior_duration=a["post"],
                init_duration=a["init"],
                term_duration=a["term"],
                base_duration=a["base"],
                thinning_posterior=a["thinPost"],
                thinning_warmup=a["thinWarm"],
            )
            return False, out
        except ValueError:
            return True, None
        except RuntimeError:
            if not via_builder:
                raise
            return True, None
        except _Hang:
            raise
        except Exception as ex:  # noqa: BLE001  (neither of the documented refusals: reported, not swallowed)
            return "unexpected:" + type(ex).__name__, None
    finally:
        signal.setitimer(signal.ITIMER_REAL, 0)
        signal.signal(signal.SIGALRM, old)


def py_admissible(a, out):
    """Mirror of StanAdmissibleFor, logged so that the spec can cross-check the
    driver's notion (conjunct stan_admissible_as_reported)."""
    return bool(
        a["init"] >= 1
        and a["term"] >= 1
        and a["base"] >= 1
        and a["post"] >= 1
        and a["thinWarm"] >= 1
        and a["thinPost"] >= 1
        and a["post"] % a["thinPost"] == 0
        and all(a["thinWarm"] <= c.duration for c in out[1:-1])
    )


def stan_trace(a, with_chunk=False, via_builder=False):
    """stan_epochs call, then the produced configs go through a real manager, all
    epochs are handed out, and (optionally) the EngineBuilder's chunk is read."""
    raised, out = call_stan(a, via_builder)
    r = Recorder()
    ev = {"ev": "stan", "args": a, "raised": bool(raised), "via_builder": via_builder,
          "unexpected": raised if isinstance(raised, str) else ""}
    if not raised:
        ev["out"] = [cfg_rec(c.type, c.duration, c.thinning) for c in out]
        ev["admissible"] = py_admissible(a, out)
    r.ev.append(ev)
    if not raised:
        allok = True
        for c in ev["out"]:
            allok = r.append(c) and allok
        while r.next() is not None:
            pass
        if with_chunk and allok:
            ch = builder_chunk(out)
            if ch is not None:
                r.ev.append({"ev": "chunk", "cfgs": ev["out"], "chunk": ch})
    return r.trace(kind="stan")


def random_stan_args(rng, wide=False):
    big = 100000 if wide else 400
    u = rng.random()
    if u < 0.6:  # admissible-looking
        init, term, base = rng.randint(1, 80), rng.randint(1, 60), rng.randint(1, 40)
        warm = init + term + base + rng.choice([0, 1, 2, rng.randint(0, big), rng.randint(0, 3 * base)])
        tp = rng.choice([1, 1, 2, 3, 5])
        post = tp * rng.randint(1, 200) if rng.random() < 0.8 else rng.randint(1, 500)
        tw = rng.choice([1, 1, 1, 2, 3, min(init, term, base)])
    else:
        init, term = rng.randint(-2, 100), rng.randint(-2, 100)
        base = rng.randint(1, 60)
        warm = rng.randint(0, big)
        tp, tw = rng.randint(-1, 5), rng.randint(-1, 5)
        post = rng.randint(-1, 300)
    return dict(zip(STAN_KEYS, [warm, post, init, term, base, tp, tw]))


def stan_box(warm, post, init, term, base, thin):
    for t in itertools.product(warm, post, init, term, base, thin, thin):
        yield dict(zip(STAN_KEYS, t))


_BUILDER_CACHE = {}


def builder_chunk(configs, as_iterable="list"):
    """The JIT chunk length EngineBuilder.build() chose for this schedule.  as_iterable: how the schedule is handed to
    set_epochs (its signature takes any iterable): "list", "tuple", "generator", "iter"."""
    import jax.numpy as jnp

    import liesel.goose as gs

    from .probes import NullKernel

    b = gs.EngineBuilder(seed=1, num_chains=1)
    b.set_model(gs.DictInterface(lambda s: -0.5 * s["x"] ** 2))
    b.set_initial_values({"x": jnp.array(0.0)})
    b.add_kernel(NullKernel(["x"]))
    cl = list(configs)
    b.set_epochs({"list": cl, "tuple": tuple(cl), "generator": (c for c in cl), "iter": iter(cl)}[as_iterable])
    eng = b.build()
    return int(getattr(eng, "_jitted_sample_duration"))
