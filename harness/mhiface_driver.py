"""mh_step through the model interfaces (C05): DictInterface, DataclassInterface (a state with a member that is not
a constructor argument) and LieselInterface; eager calls, one PRNG key per trace, several steps on the same state
object with different blocks of position keys.  Densities in the trace come from a closed-form float64 oracle."""
from __future__ import annotations

from dataclasses import dataclass, field
from typing import Any

import jax
import jax.numpy as jnp
import numpy as np

import liesel.goose as gs
import liesel.model as lsl
from liesel.goose.mh import mh_step
from liesel.goose.pytree import register_dataclass_as_pytree
from vlib.core import fstr

F = ("a", "b", "t")
HALF_LOG_2PI = 0.5 * np.log(2 * np.pi)


def exact(s):
    """log N(a; 1, sqrt(t)) + log N(b; -0.5, 1) in float64"""
    a, b, t = (float(s[k]) for k in F)
    return (-0.5 * (a - 1.0) ** 2 / t - 0.5 * np.log(t) - HALF_LOG_2PI) + (-0.5 * (b + 0.5) ** 2 - HALF_LOG_2PI)


def _lp(a, b, t):
    return (-0.5 * (a - 1.0) ** 2 / t - 0.5 * jnp.log(t) - HALF_LOG_2PI) + (-0.5 * (b + 0.5) ** 2 - HALF_LOG_2PI)


@register_dataclass_as_pytree
@dataclass
class DCState:
    a: Any
    b: Any
    t: Any = field(init=False)       # not a constructor argument (like liesel's own kernel states)

    def __post_init__(self):
        self.t = jnp.asarray(1.5, jnp.float32)


class Family:
    def __init__(self, name, start):
        self.name = name
        f32 = lambda x: jnp.asarray(x, jnp.float32)
        if name == "dict":
            self.iface = gs.DictInterface(lambda s: _lp(s["a"], s["b"], s["t"]))
            self.state = {k: f32(start[k]) for k in F} | {"aux": f32(7.0)}
        elif name == "dataclass":
            self.iface = gs.DataclassInterface(lambda s: _lp(s.a, s.b, s.t))
            self.state = DCState(f32(start["a"]), f32(start["b"]))
            self.state.t = f32(start["t"])
        else:
            import tensorflow_probability.substrates.jax.distributions as tfd
            t = lsl.Var(f32(start["t"]), name="t")
            a = lsl.Var(f32(start["a"]), lsl.Dist(tfd.Normal, loc=f32(1.0), scale=lsl.Calc(jnp.sqrt, t)), name="a")
            b = lsl.Var(f32(start["b"]), lsl.Dist(tfd.Normal, loc=f32(-0.5), scale=f32(1.0)), name="b")
            # a derived quantity that is not on the way to the log-probability (something a user tracks)
            dv = lsl.Var(lsl.Calc(lambda x: jnp.exp(0.5 * x), a), name="d")
            gb = lsl.GraphBuilder()
            gb.add(a, b, dv)
            model = gb.build_model()
            if name.endswith("_noauto"):
                # the documented switch for setting several values at once, flipped by the user before the interface is made
                model.auto_update = False
            if name.startswith("goose"):
                import warnings
                with warnings.catch_warnings():
                    warnings.simplefilter("ignore")
                    self.iface = lsl.GooseModel(model)      # deprecated twin with its own copy of the code
            else:
                self.iface = gs.LieselInterface(model)
            self.state = model.state

    def read(self, st):
        if self.name == "dict":
            return {k: fstr(np.asarray(st[k])) for k in F}
        if self.name == "dataclass":
            return {k: fstr(np.asarray(getattr(st, k))) for k in F}
        return {k: fstr(np.asarray(st[f"{k}_value"].value)) for k in F}

    def derived_fresh(self, st):
        """Liesel families: the derived quantity of the state is the one of the state's own parameter, and up to date."""
        if self.name in ("dict", "dataclass"):
            return True
        a, dn = np.float32(np.asarray(st["a_value"].value)), st["d_value"]
        want = np.asarray(jnp.exp(0.5 * jnp.asarray(a, jnp.float32)))
        return bool(not dn.outdated and np.allclose(np.asarray(dn.value), want, rtol=1e-6, atol=0.0))


FAMILIES = ("dict", "dataclass", "liesel", "liesel_noauto", "goose", "goose_noauto")
BLOCKS = [("a",), ("b",), ("t",), ("a", "b"), ("b", "t"), ("a", "b", "t")]


def trace(seed, family, nsteps=14):
    """Deterministic in (seed, family): the seed is the PRNG key of every step and seeds the choice of blocks."""
    import random
    rng = random.Random(seed * 3 + FAMILIES.index(family))
    key = jax.random.PRNGKey(seed)
    start = {"a": rng.choice([0.3, 1.7, -0.4]), "b": rng.choice([-0.2, 0.6]), "t": rng.choice([4.0, 0.8, 2.5])}
    fam = Family(family, start)
    state = fam.state
    ev = []
    for j in range(nsteps):
        block = rng.choice(BLOCKS)
        cur = {k: float(v) for k, v in fam.read(state).items()}
        pos = {}
        for k in block:
            x = cur[k] + rng.choice([-0.9, -0.35, 0.2, 0.5, 1.1])
            if k == "t":
                x = abs(x) + 0.2
            pos[k] = np.float32(x)
        corr = rng.choice([0.0, 0.0, -0.3, 0.4])
        before = fam.read(state)
        try:
            info, new = mh_step(key, fam.iface, gs.Position({k: jnp.asarray(v) for k, v in pos.items()}), state,
                                jnp.asarray(corr, jnp.float32))
        except Exception as ex:  # noqa: BLE001  (every block names fields the state has: the step must not refuse it)
            ev.append({"ev": "mh_raised", "block": list(block), "error": f"{type(ex).__name__}: {ex}"[:200]})
            break
        prop = dict(cur)
        prop.update({k: float(v) for k, v in pos.items()})
        ev.append({"ev": "mh", "block": list(block), "cur": fstr(exact(cur)), "prop": fstr(exact(prop)),
                   "corr": fstr(np.float32(corr)), "code": int(info.error_code), "acc": fstr(np.asarray(info.acceptance_prob)),
                   "moved": bool(info.position_moved), "in": before, "pos": {k: fstr(v) for k, v in pos.items()},
                   "out": fam.read(new), "in_after": fam.read(state), "advanced": False,
                   "derived_fresh": fam.derived_fresh(new)})
        # every other step goes on from the returned state; otherwise the same state object is used again
        if rng.random() < 0.5:
            state = new
            ev[-1]["advanced"] = True
    return {"hdr": {"seed": int(seed), "family": family}, "ev": ev}


def traces(seeds, families=None):
    families = families or FAMILIES
    return [trace(s, f) for s in seeds for f in families]
