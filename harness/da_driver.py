"""Drivers for Trace_DA.tla (C11): direct da_* calls and engine runs of real kernels
behind the wrapping probe."""
from __future__ import annotations

import jax
import jax.numpy as jnp
import numpy as np

import liesel.goose as gs
from liesel.goose.da import da_finalize, da_init, da_step
from liesel.goose.epoch import EpochConfig, EpochType
from liesel.goose.rw import RWKernelState
from vlib.core import fstr

from .probes import WrapKernel, read_wrap_logs


def tup(ks):
    return [fstr(np.float32(x)) for x in (ks.step_size, ks.error_sum, ks.log_avg_step_size, ks.mu)]


def ghdr(target, gamma, kappa, t0, tunes=True, hasmm=False, rtol="3e-4", atol="3e-6", **kw):
    h = {"g": {"target": fstr(np.float32(target)), "gamma": fstr(np.float32(gamma)),
               # (t0 is a positive real in Hoffman & Gelman / Stan: whole numbers are logged as integers)
               "kappa": fstr(np.float32(kappa)), "t0": int(t0) if float(t0).is_integer() else fstr(np.float32(t0))},
         "tunes": bool(tunes), "hasmm": bool(hasmm), "rtol": rtol, "atol": atol}
    h.update(kw)
    return h


def direct_trace(rng, n_epochs=3, max_len=12):
    """Random acceptance sequences through the real da_init / da_step / da_finalize."""
    target = rng.choice([0.234, 0.5, 0.65, 0.8, 0.9])
    gamma = rng.choice([0.05, 0.05, 0.1, 0.5, 1.0])
    kappa = rng.choice([0.75, 0.75, 0.6, 0.9])
    t0 = rng.choice([10, 10, 1, 3, 25, 2.75, 0.5])
    eps0 = rng.choice([1e-3, 0.01, 0.1, 1.0, 3.0, 25.0])
    ks = RWKernelState(step_size=jnp.float32(eps0))
    ev = [{"ev": "init_state", "post": tup(ks)}]
    for _ in range(n_epochs):
        pre = tup(ks)
        da_init(ks)
        ev.append({"ev": "start_epoch", "pre": pre, "post": tup(ks), "etype": 1})
        n = rng.randint(1, max_len)
        mode = rng.choice(["unif", "low", "high", "const"])
        for t in range(n):
            acc = {"unif": rng.random(), "low": rng.random() * 0.2, "high": 1 - rng.random() * 0.1,
                   "const": target}[mode]
            if rng.random() < 0.1:
                acc = rng.choice([0.0, 1.0])
            acc = jnp.float32(acc)
            pre = tup(ks)
            da_step(ks, acc, t, target, gamma, kappa, t0)
            ev.append({"ev": "transition", "pre": pre, "post": tup(ks), "acc": fstr(acc), "tie": t,
                       "etype": 1})
        pre = tup(ks)
        da_finalize(ks)
        ev.append({"ev": "end_epoch", "pre": pre, "post": tup(ks), "etype": 1})
    return {"hdr": ghdr(target, gamma, kappa, t0, kind="direct"), "ev": ev}


def extreme_direct_traces():
    """Long runs of acceptances (or rejections) within one adaptation epoch: the step-size iterate leaves the single
    precision range (+inf / 0) while error sum and averaged logarithm follow the recurrence; the epoch's end installs the
    finite averaged step size.  Deterministic sequences."""
    out = []
    for target, gamma, t0, eps0, acc_seq in (
            (0.234, 0.05, 10, 1.0, [1.0] * 70),                       # overflow after ~46 acceptances
            (0.8, 0.05, 10, 1.0, [0.0] * 75),                         # underflow after ~50 rejections
            (0.234, 0.05, 10, 25.0, [1.0] * 50 + [0.0] * 30),         # out of range and back
            (0.5, 0.01, 3, 0.1, [0.9] * 40 + [1.0] * 20),             # same state region, acceptance 0.9 vs 1.0
            (0.5, 0.01, 3, 0.1, [1.0] * 40 + [0.9] * 20)):
        ks = RWKernelState(step_size=jnp.float32(eps0))
        ev = [{"ev": "init_state", "post": tup(ks)}]
        pre = tup(ks)
        da_init(ks)
        ev.append({"ev": "start_epoch", "pre": pre, "post": tup(ks), "etype": 1})
        for t, a in enumerate(acc_seq):
            a = jnp.float32(a)
            pre = tup(ks)
            da_step(ks, a, t, target, gamma, 0.75, t0)
            ev.append({"ev": "transition", "pre": pre, "post": tup(ks), "acc": fstr(a), "tie": t, "etype": 1})
        pre = tup(ks)
        da_finalize(ks)
        ev.append({"ev": "end_epoch", "pre": pre, "post": tup(ks), "etype": 1})
        out.append({"hdr": ghdr(target, gamma, 0.75, t0, kind="direct_extreme"), "ev": ev})
    return out


# ---- engine-level ---------------------------------------------------------------------

def logp(s):
    lp = (-0.5 * jnp.sum(s["x"] ** 2) - 0.5 * jnp.sum((s["y"] - 1.0) ** 2) / 4.0
          - 0.5 * jnp.sum((s["z"] - 2.0) ** 2))
    if "g" in s:      # bounded support: the log-density is NaN for g <= 0 (Gamma(3, 1) written with jnp.log)
        lp = lp + jnp.sum(2.0 * jnp.log(s["g"]) - s["g"])
    if "f" in s:      # Neal's funnel: strongly varying curvature, trajectories that diverge half-way
        v, xs = s["f"][0], s["f"][1:]
        lp = lp - 0.5 * (v / 3.0) ** 2 - 0.5 * jnp.sum(xs ** 2) * jnp.exp(-v) - 0.5 * xs.shape[0] * v
    return lp


def asym_proposal_for(name):
    def asym_proposal(key, model_state, step_size):
        """Multiplicative log-normal style proposal with its declared correction."""
        y = model_state[name]
        z = jax.random.normal(key, y.shape)
        new = y * jnp.exp(step_size * z)
        # log q(y|new)/q(new|y) = log|new| - log|y|
        corr = jnp.sum(jnp.log(jnp.abs(new)) - jnp.log(jnp.abs(y)))
        return gs.MHProposal({name: new}, corr)
    return asym_proposal


def make_kernel(name, consts, late=False):
    """late: the kernel is constructed with the default constants and configured afterwards through its public da_*
    attributes (the only way to configure a ready-made kernel, e.g. those of dist_reg_mcmc)."""
    target, gamma, kappa, t0, eps0 = consts
    if late:
        k, tunes, hasmm = make_kernel(name, (0.8 if name in ("hmc", "nuts", "nuts_auto", "nuts_funnel") else 0.234, 0.05, 0.75, 10, eps0))
        k.da_target_accept, k.da_gamma, k.da_kappa, k.da_t0 = target, gamma, kappa, t0
        return k, tunes, hasmm
    kw = dict(da_target_accept=target, da_gamma=gamma, da_kappa=kappa, da_t0=t0)
    if name == "rw":
        return gs.RWKernel(["x"], initial_step_size=eps0, **kw), True, False
    if name == "rw_support":    # random walk on a parameter with bounded support: proposals outside it have a NaN ratio
        return gs.RWKernel(["g"], initial_step_size=max(eps0, 0.8), **kw), True, False
    if name == "iwls":
        return gs.IWLSKernel(["x"], initial_step_size=eps0, **kw), True, False
    if name == "mh_on":
        return gs.MHKernel(["y"], asym_proposal_for("y"), initial_step_size=eps0, da_tune_step_size=True, **kw), True, False
    if name == "mh_on_np":      # tuning switched on by a truthy flag that is not the object True (a NumPy comparison)
        flag = np.asarray([1, 0])[0] == 1
        return gs.MHKernel(["y"], asym_proposal_for("y"), initial_step_size=eps0, da_tune_step_size=flag, **kw), True, False
    if name == "mh_off":
        return gs.MHKernel(["z"], asym_proposal_for("z"), initial_step_size=eps0, da_tune_step_size=False, **kw), False, False
    if name == "hmc":
        return gs.HMCKernel(["x"], initial_step_size=eps0, num_integration_steps=3, **kw), True, True
    if name == "nuts":
        return gs.NUTSKernel(["x"], initial_step_size=eps0, max_treedepth=3, **kw), True, True
    if name == "nuts_funnel":
        return gs.NUTSKernel(["f"], initial_step_size=max(eps0, 1.0), max_treedepth=6, **kw), True, True
    if name == "nuts_auto":
        return gs.NUTSKernel(["x"], max_treedepth=3, **kw), True, True
    raise KeyError(name)


SCHEDULES = [
    [(1, 4), (3, 3), (2, 6), (1, 2), (4, 4), (4, 2)],
    [(2, 5), (2, 5), (3, 5), (4, 5)],
    [(1, 3), (4, 6)],
    [(1, 6), (2, 4), (3, 2), (4, 4)],      # common divisor 2: the adaptation epochs are sampled in several chunks
]


def engine_traces(names, consts, schedule, chains=2, seed=0, chunk_thin=1, late=False):
    """Runs one engine with the given real kernels (each behind a WrapKernel) and returns
    one trace per (chain, kernel)."""
    inner = [make_kernel(n, consts, late=late) for n in names]
    wraps = [WrapKernel(k, n_tun=4, cap=8 + sum(d for _, d in schedule) + 4 * len(schedule),
                        tun_fn=lambda ks: _tun4(ks)) for k, _, _ in inner]
    b = gs.EngineBuilder(seed=seed, num_chains=chains)
    b.set_model(gs.DictInterface(logp))
    init = {"x": jnp.array([0.3, -0.2], jnp.float32), "y": jnp.array([1.5], jnp.float32),
            "z": jnp.array([2.5], jnp.float32)}
    if "rw_support" in names:
        init["g"] = jnp.array([0.2], jnp.float32)
    if "nuts_funnel" in names:
        init["f"] = jnp.array([0.0, 0.5, -0.5, 0.3, -0.2], jnp.float32)
    b.set_initial_values(init)
    for w in wraps:
        b.add_kernel(w)
    cfgs = [EpochConfig(EpochType.INITIAL_VALUES, 1, 1, None)] + [
        EpochConfig(EpochType(t), d, chunk_thin, None) for t, d in schedule]
    b.set_epochs(cfgs)
    b.show_progress = False
    eng = b.build()
    eng.sample_all_epochs()
    logs = read_wrap_logs(eng, wraps)
    target, gamma, kappa, t0, eps0 = consts
    out = []
    for (c, ki), evs in sorted(logs.items()):
        _, tunes, hasmm = inner[ki]
        ev = []
        for e in evs:
            r = {"ev": e["kind"], "post": [fstr(np.float32(x)) for x in e["post"]], "etype": e["etype"]}
            if e["kind"] != "init_state":
                r["pre"] = [fstr(np.float32(x)) for x in e["pre"]]
            if e["kind"] == "transition":
                r["acc"] = fstr(np.float32(e["acc"]))
                r["tie"] = e["tie"]
            ev.append(r)
        h = ghdr(target, gamma, kappa, t0, tunes=tunes, hasmm=hasmm, kind="engine",
                 kernel=names[ki], chain=c, schedule=[list(s) for s in schedule])
        # the step size the kernel was constructed with (unless it was left to the kernel)
        given = {"rw_support": max(eps0, 0.8), "nuts_funnel": max(eps0, 1.0), "nuts_auto": None}.get(names[ki], eps0)
        if given is not None:
            h["eps0"] = fstr(np.float32(given))
        out.append({"hdr": h, "ev": ev})
    return out


def _tun4(ks):
    return [jnp.asarray(x, jnp.float32).reshape(()) for x in
            (ks.step_size, ks.error_sum, ks.log_avg_step_size, ks.mu)]


def enumerated_direct_traces(accs, maxlen, targets, eps0s=(0.5,)):
    """Every acceptance sequence of length 1..maxlen over a small alphabet, as one
    adaptation epoch (start, steps, end) followed by the start of the next epoch."""
    import itertools

    out = []
    for target in targets:
        for eps0 in eps0s:
            for n in range(1, maxlen + 1):
                for seq in itertools.product(accs, repeat=n):
                    ks = RWKernelState(step_size=jnp.float32(eps0))
                    ev = [{"ev": "init_state", "post": tup(ks)}]
                    pre = tup(ks)
                    da_init(ks)
                    ev.append({"ev": "start_epoch", "pre": pre, "post": tup(ks), "etype": 2})
                    for t, a in enumerate(seq):
                        a = jnp.float32(a)
                        pre = tup(ks)
                        da_step(ks, a, t, target, 0.05, 0.75, 10)
                        ev.append({"ev": "transition", "pre": pre, "post": tup(ks), "acc": fstr(a),
                                   "tie": t, "etype": 2})
                    pre = tup(ks)
                    da_finalize(ks)
                    ev.append({"ev": "end_epoch", "pre": pre, "post": tup(ks), "etype": 2})
                    pre = tup(ks)
                    da_init(ks)
                    ev.append({"ev": "start_epoch", "pre": pre, "post": tup(ks), "etype": 1})
                    out.append({"hdr": ghdr(target, 0.05, 0.75, 10, kind="direct_enum"), "ev": ev})
    return out
