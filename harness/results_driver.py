"""Driver for Trace_Results.tla (C19): real engine runs with scripted-error probe
kernels; logs what get_error_log / Summary / error_df / sample_info report, and digests
before/after pickling and ArviZ conversion."""
from __future__ import annotations

import hashlib
import os
import tempfile

import numpy as np

from . import engine_driver as E

def book_of(k):
    from .probes import probe_book
    return {str(c): m for c, m in probe_book(k).items()}


def _dig(d, sl=None):
    out = {}
    for k in sorted(d):
        a = np.ascontiguousarray(np.asarray(d[k]))
        out[k] = hashlib.sha256(a.tobytes() + str(a.shape).encode() + str(a.dtype).encode()).hexdigest()[:16]
    return out


def _log(opt_log, names):
    out = []
    for n in names:
        kel = opt_log[n]
        out.append({"transitions": [int(x) for x in np.asarray(kel.transition)],
                    "codes": [[int(x) for x in row] for row in np.asarray(kel.error_codes)]})
    return out


def one_run(tbl, sched, J=1, seed=0, continue_after_read=False, minimize=False):
    """tbl[k][c][j] (j = 0..T-1), sched = [(type, dur, thin), ...]
    continue_after_read: the results object is obtained and its posterior read before the last epoch is appended and
    sampled; everything is then read from that *same* object.  minimize: minimize_transition_infos."""
    import jax.numpy as jnp

    import liesel.goose as gs
    from liesel.experimental.arviz import to_arviz_inference_data

    K, C, T = len(tbl), len(tbl[0]), len(tbl[0][0])
    assert T == sum(d for _, d, _ in sched)
    names = [f"kernel_{k:02d}" for k in range(K)]
    hdr = {"K": K, "C": C, "sched": [{"type": t, "dur": d, "thin": th} for t, d, th in sched],
           "continue_after_read": continue_after_read, "minimize": minimize, "tbl": tbl, "names": names, "books": [book_of(k + 1) for k in range(K)], "J": J}
    ev = {"ev": "results", "crash": "", "log_all": [], "log_post_none": True, "log_post": [],
          "has_summary": False, "summary": [], "df_per_chain": [], "df_merged": [], "sample_info": {},
          "stored_post": -1, "dig_before": {}, "dig_pickle": {}, "dig_post": {}, "dig_arviz_post": {},
          "dig_warm": {}, "dig_arviz_warm": {}}
    try:
        # time runs from 1 (the initial epoch has duration 1): column 0 is never read
        tables = [np.concatenate([np.zeros((C, 1), np.int32), np.asarray(tbl[k], np.int32)], axis=1)
                  for k in range(K)]
        cfgs = [E.C(0, 1)] if hasattr(E, "C") else None
        cfgs = [{"type": 0, "dur": 1, "thin": 1}] + hdr["sched"]
        late = continue_after_read and len(sched) >= 2
        eng, kernels, keys = E.build_engine(K, set(), C, seed, J, cfgs[:-1] if late else cfgs, error_tables=tables,
                                            cap=T + 4 * len(sched) + 8, error_books=True, minimize_infos=minimize)
        eng.sample_all_epochs()
        res = eng.get_results()
        if late:
            try:
                res.get_posterior_samples()
            except Exception:  # noqa: BLE001  (no posterior epoch yet)
                pass
            res.get_samples()
            eng.append_epoch(E.cfg_of(cfgs[-1]))
            eng.sample_next_epoch()
        ev["log_all"] = _log(res.get_error_log(False).unwrap(), names)
        lp = res.get_error_log(True)
        ev["log_post_none"] = bool(lp.is_none())
        if lp.is_some():
            ev["log_post"] = _log(lp.unwrap(), names)
        samples = res.get_samples()
        ev["dig_before"] = _dig(samples)
        has_post = any(t == 4 for t, _, _ in sched)
        if has_post:
            post = res.get_posterior_samples()
            ev["stored_post"] = int(np.asarray(post[keys[0]]).shape[1])
            ev["dig_post"] = _dig(post)
            summ = gs.Summary(res)
            ev["has_summary"] = True
            for kern, codes in summ.error_summary.items():
                for code, es in codes.items():
                    ev["summary"].append({"kernel": kern, "code": int(es.error_code), "msg": es.error_msg,
                                          "total": [int(x) for x in es.count_per_chain],
                                          "post": [int(x) for x in es.count_per_chain_posterior]})
            df = summ.error_df(per_chain=True)
            if not df.empty:
                for idx, row in df.iterrows():
                    ev["df_per_chain"].append({"kernel": idx[0], "code": int(idx[1]), "msg": idx[2],
                                               "phase": str(idx[3]), "chain": int(idx[4]), "count": int(row["count"])})
            df = summ.error_df(per_chain=False)
            if not df.empty:
                for idx, row in df.iterrows():
                    ev["df_merged"].append({"kernel": idx[0], "code": int(idx[1]), "msg": idx[2],
                                            "phase": str(idx[3]), "count": int(row["count"])})
            ev["sample_info"] = {k: int(v) for k, v in summ.sample_info.items()}
            idata = to_arviz_inference_data(res, include_warmup=any(t != 4 for t, _, _ in sched))
            ev["dig_arviz_post"] = _dig({k: idata.posterior[k].values for k in post})
            if any(t != 4 for t, _, _ in sched):
                warm = res.positions.combine_filtered(lambda ec: ec.type.is_warmup(ec.type)).unwrap()
                ev["dig_warm"] = _dig(warm)
                ev["dig_arviz_warm"] = _dig({k: idata.warmup_posterior[k].values for k in warm})
        with tempfile.TemporaryDirectory() as d:
            p = os.path.join(d, "res.pkl")
            res.pkl_save(p)
            res2 = gs.engine.SamplingResults.pkl_load(p)
            ev["dig_pickle"] = _dig(res2.get_samples())
    except Exception as ex:  # noqa: BLE001
        import traceback
        ev["crash"] = f"{type(ex).__name__}: {ex}"[:300] + " | " + traceback.format_exc()[-400:]
    return {"hdr": hdr, "ev": [ev]}


def jobs(rng, quick=True):
    out = []
    scheds = [
        [(1, 2, 1), (3, 2, 1), (4, 4, 2)],
        [(3, 3, 1), (4, 2, 1), (4, 4, 2)],      # two posterior epochs
        [(2, 4, 2), (4, 3, 3)],
        [(1, 3, 1)],                              # warm-up only: no summary possible
        [(4, 4, 1)],                              # posterior only
    ]
    patterns = ["each_epoch", "none", "warmup_only", "posterior_only", "single_chain", "random", "random"]
    n = 0
    for sched in scheds if not quick else scheds[:5]:
        T = sum(d for _, d, _ in sched)
        ph = [t == 4 for t, d, _ in sched for _ in range(d)]
        starts, acc = set(), 0
        ends = set()
        for _, d, _ in sched:
            starts.add(acc)
            acc += d
            ends.add(acc - 1)
        for pat in patterns if not quick else patterns[: (7 if n < 2 else 4)]:
            for K, C in ([(2, 2)] if quick else [(1, 2), (2, 3)]):
                tbl = [[[0] * T for _ in range(C)] for _ in range(K)]
                for k in range(K):
                    for c in range(C):
                        for j in range(T):
                            if pat == "each_epoch":
                                v = 1 if (j in starts and c == 0) else (2 if (j in ends and c == C - 1) else 0)
                            elif pat == "none":
                                v = 0
                            elif pat == "warmup_only":
                                v = rng.choice([0, 1, 2]) if not ph[j] else 0
                            elif pat == "posterior_only":
                                v = rng.choice([0, 1, 2]) if ph[j] else 0
                            elif pat == "single_chain":
                                v = rng.choice([0, 1, 2, -1]) if c == C - 1 else 0
                            else:
                                v = rng.choice([0, 0, 1, 2, -1, 200])
                            tbl[k][c][j] = v
                import math
                g = 0
                for _, d, _ in sched:
                    g = math.gcd(g, d)
                out.append(dict(tbl=tbl, sched=sched, J=rng.choice([1, g]), seed=n,
                                continue_after_read=(pat in ("each_epoch", "random", "posterior_only")
                                                     and sum(1 for t, _, _ in sched if t == 4) >= 2),
                                minimize=(pat == "random")))
                n += 1
    return out
