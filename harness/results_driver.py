"""Driver for Trace_Results.tla (C19): real engine runs with scripted-error probe
kernels; logs what get_error_log / Summary / error_df / sample_info report, and digests
before/after pickling and ArviZ conversion."""
from __future__ import annotations

import hashlib
import os
import tempfile

import numpy as np

from . import engine_driver as E

def book_of(k):
    from .probes import probe_book
    return {str(c): m for c, m in probe_book(k).items()}


def _dig(d, sl=None):
    out = {}
    for k in sorted(d):
        a = np.ascontiguousarray(np.asarray(d[k]))
        out[k] = hashlib.sha256(a.tobytes() + str(a.shape).encode() + str(a.dtype).encode()).hexdigest()[:16]
    return out


def _log(opt_log, names):
    out = []
    for n in names:
        kel = opt_log[n]
        out.append({"transitions": [int(x) for x in np.asarray(kel.transition)],
                    "codes": [[int(x) for x in row] for row in np.asarray(kel.error_codes)]})
    return out


def one_run(tbl, sched, J=1, seed=0, continue_after_read=False, minimize=False, shared_book=False, local_class=False,
            included=()):
    """tbl[k][c][j] (j = 0..T-1), sched = [(type, dur, thin), ...]
    continue_after_read: the results object is obtained and its posterior read before the last epoch is appended and
    sampled; everything is then read from that *same* object.  minimize: minimize_transition_infos."""
    import jax.numpy as jnp

    import liesel.goose as gs
    from liesel.experimental.arviz import to_arviz_inference_data

    K, C, T = len(tbl), len(tbl[0]), len(tbl[0][0])
    assert T == sum(d for _, d, _ in sched)
    names = [f"kernel_{k:02d}" for k in range(K)]
    hdr = {"K": K, "C": C, "sched": [{"type": t, "dur": d, "thin": th} for t, d, th in sched],
           "continue_after_read": continue_after_read, "minimize": minimize, "tbl": tbl, "names": names,
           # shared_book: all kernels are of one class, i.e. they share codes *and* messages
           "books": [book_of(1 if shared_book else k + 1) for k in range(K)], "J": J, "shared_book": shared_book, "local_class": local_class,
           "included": list(included)}
    ev = {"ev": "results", "crash": "", "log_all": [], "log_post_none": True, "log_post": [],
          "has_summary": False, "summary": [], "df_per_chain": [], "df_merged": [], "sample_info": {},
          "stored_post": -1, "dig_before": {}, "dig_pickle": {}, "dig_post": {}, "dig_arviz_post": {},
          "dig_warm": {}, "dig_arviz_warm": {}}
    try:
        # time runs from 1 (the initial epoch has duration 1): column 0 is never read
        tables = [np.concatenate([np.zeros((C, 1), np.int32), np.asarray(tbl[k], np.int32)], axis=1)
                  for k in range(K)]
        cfgs = [E.C(0, 1)] if hasattr(E, "C") else None
        cfgs = [{"type": 0, "dur": 1, "thin": 1}] + hdr["sched"]
        late = continue_after_read and len(sched) >= 2
        eng, kernels, keys = E.build_engine(K, set(), C, seed, J, cfgs[:-1] if late else cfgs, error_tables=tables,
                                            cap=T + 4 * len(sched) + 8,
                                            error_books="local" if local_class else "shared" if shared_book else True,
                                            minimize_infos=minimize, included=tuple(included))
        eng.sample_all_epochs()
        res = eng.get_results()
        if late:
            try:
                res.get_posterior_samples()
            except Exception:  # noqa: BLE001  (no posterior epoch yet)
                pass
            res.get_samples()
            eng.append_epoch(E.cfg_of(cfgs[-1]))
            eng.sample_next_epoch()
        if local_class:
            # kernel classes defined in a function: the results object is copied (pickling such classes is refused) and
            # the *original* is reported from afterwards
            import copy
            copy.copy(res)
            copy.deepcopy(res)
        ev["log_all"] = _log(res.get_error_log(False).unwrap(), names)
        lp = res.get_error_log(True)
        ev["log_post_none"] = bool(lp.is_none())
        if lp.is_some():
            ev["log_post"] = _log(lp.unwrap(), names)
        samples = res.get_samples()
        ev["dig_before"] = _dig(samples)
        has_post = any(t == 4 for t, _, _ in sched)
        if has_post:
            post = res.get_posterior_samples()
            ev["stored_post"] = int(np.asarray(post[keys[0]]).shape[1])
            ev["dig_post"] = _dig(post)
            summ = gs.Summary(res)
            ev["has_summary"] = True
            for kern, codes in summ.error_summary.items():
                for code, es in codes.items():
                    ev["summary"].append({"kernel": kern, "code": int(es.error_code), "msg": es.error_msg,
                                          "total": [int(x) for x in es.count_per_chain],
                                          "post": [int(x) for x in es.count_per_chain_posterior]})
            df = summ.error_df(per_chain=True)
            if not df.empty:
                for idx, row in df.iterrows():
                    ev["df_per_chain"].append({"kernel": idx[0], "code": int(idx[1]), "msg": idx[2],
                                               "phase": str(idx[3]), "chain": int(idx[4]), "count": int(row["count"])})
            df = summ.error_df(per_chain=False)
            if not df.empty:
                for idx, row in df.iterrows():
                    ev["df_merged"].append({"kernel": idx[0], "code": int(idx[1]), "msg": idx[2],
                                            "phase": str(idx[3]), "count": int(row["count"])})
            ev["sample_info"] = {k: int(v) for k, v in summ.sample_info.items()}
            idata = to_arviz_inference_data(res, include_warmup=any(t != 4 for t, _, _ in sched))
            # (a position the conversion leaves out is reported as an empty array: the digests then differ)
            missing = np.zeros(0, np.float32)
            ev["dig_arviz_post"] = _dig({k: idata.posterior[k].values if k in idata.posterior else missing for k in post})
            if any(t != 4 for t, _, _ in sched):
                warm = res.positions.combine_filtered(lambda ec: ec.type.is_warmup(ec.type)).unwrap()
                ev["dig_warm"] = _dig(warm)
                ev["dig_arviz_warm"] = _dig({k: idata.warmup_posterior[k].values if k in idata.warmup_posterior else missing
                                             for k in warm})
        if local_class:
            ev["dig_pickle"] = dict(ev["dig_before"])
        else:
            with tempfile.TemporaryDirectory() as d:
                p = os.path.join(d, "res.pkl")
                res.pkl_save(p)
                res2 = gs.engine.SamplingResults.pkl_load(p)
                ev["dig_pickle"] = _dig(res2.get_samples())
    except Exception as ex:  # noqa: BLE001
        import traceback
        ev["crash"] = f"{type(ex).__name__}: {ex}"[:300] + " | " + traceback.format_exc()[-400:]
    return {"hdr": hdr, "ev": [ev]}


def jobs(rng, quick=True):
    out = []
    scheds = [
        [(1, 2, 1), (3, 2, 1), (4, 4, 2)],
        [(3, 3, 1), (4, 2, 1), (4, 4, 2)],      # two posterior epochs
        [(2, 4, 2), (4, 3, 3)],
        [(1, 3, 1)],                              # warm-up only: no summary possible
        [(4, 4, 1)],                              # posterior only
        [(1, 2, 1), (1, 2, 1), (4, 2, 1), (4, 2, 1)],   # epochs with equal configurations (told apart by position only)
    ]
    patterns = ["each_epoch", "none", "warmup_only", "posterior_only", "single_chain", "random", "random"]
    n = 0
    for sched in scheds:
        T = sum(d for _, d, _ in sched)
        ph = [t == 4 for t, d, _ in sched for _ in range(d)]
        starts, acc = set(), 0
        ends = set()
        for _, d, _ in sched:
            starts.add(acc)
            acc += d
            ends.add(acc - 1)
        for pat in patterns if not quick else patterns[: (7 if n < 2 else 4)]:
            for K, C in ([(2, 2)] if quick else [(1, 2), (2, 3)]):
                tbl = [[[0] * T for _ in range(C)] for _ in range(K)]
                for k in range(K):
                    for c in range(C):
                        for j in range(T):
                            if pat == "each_epoch":
                                v = 1 if (j in starts and c == 0) else (2 if (j in ends and c == C - 1) else 0)
                            elif pat == "none":
                                v = 0
                            elif pat == "warmup_only":
                                v = rng.choice([0, 1, 2]) if not ph[j] else 0
                            elif pat == "posterior_only":
                                v = rng.choice([0, 1, 2]) if ph[j] else 0
                            elif pat == "single_chain":
                                v = rng.choice([0, 1, 2, -1]) if c == C - 1 else 0
                            else:
                                v = rng.choice([0, 0, 1, 2, -1, 200])
                            tbl[k][c][j] = v
                import math
                g = 0
                for _, d, _ in sched:
                    g = math.gcd(g, d)
                out.append(dict(tbl=tbl, sched=sched, J=rng.choice([1, g]), seed=n,
                                continue_after_read=(pat in ("each_epoch", "random", "posterior_only")
                                                     and sum(1 for t, _, _ in sched if t == 4) >= 2),
                                minimize=(pat == "random"),
                                # an additional position that no kernel owns is tracked as well
                                included=("const",) if (pat == "none" or len(sched) == 4) else ()))
                if pat in ("each_epoch", "single_chain") and K >= 2:
                    out.append(dict(out[-1], shared_book=True, minimize=False, continue_after_read=False))
                if pat == "each_epoch":
                    out.append(dict(out[-1], shared_book=False, local_class=True, minimize=False, continue_after_read=False))
                n += 1
    return out


def builtin_codes_run(seed=0):
    """A real run of built-in kernels that do report errors: an MHKernel whose user-written proposal returns a NaN
    log-correction now and then, an RWKernel on a block with bounded support (NaN ratio outside it) and an IWLSKernel.
    Per kernel: the codes found in the stored transition infos (direct numpy count, per phase) next to the kernel's
    error book and to what Summary reports."""
    import jax
    import jax.numpy as jnp

    import liesel.goose as gs
    from liesel.goose.epoch import EpochConfig, EpochType

    ev = {"ev": "builtin_codes", "crash": "", "kernels": []}
    try:
        def logp(s):
            return -0.5 * jnp.sum(s["x"] ** 2) + jnp.sum(2.0 * jnp.log(s["g"]) - s["g"]) - 0.5 * jnp.sum((s["b"] - 0.3) ** 2)

        def prop(key, ms, step):
            k1, k2 = jax.random.split(key)
            z = jax.random.normal(k1, ms["x"].shape)
            corr = jnp.where(jax.random.uniform(k2) < 0.3, jnp.nan, 0.0)
            return gs.MHProposal({"x": ms["x"] + step * z}, corr)

        b = gs.EngineBuilder(seed=seed, num_chains=2)
        b.set_model(gs.DictInterface(logp))
        b.set_initial_values({"x": jnp.array([0.3], jnp.float32), "g": jnp.array([0.4], jnp.float32),
                              "b": jnp.array([0.1, 0.2], jnp.float32)})
        kernels = [gs.MHKernel(["x"], prop, initial_step_size=0.8), gs.RWKernel(["g"], initial_step_size=1.5),
                   gs.IWLSKernel(["b"], initial_step_size=0.9)]
        for k in kernels:
            b.add_kernel(k)
        b.set_epochs([EpochConfig(EpochType.INITIAL_VALUES, 1, 1, None), EpochConfig(EpochType.BURNIN, 12, 1, None),
                      EpochConfig(EpochType.POSTERIOR, 24, 1, None)])
        b.show_progress = False
        eng = b.build()
        eng.sample_all_epochs()
        res = eng.get_results()
        infos = res.transition_infos.combine_all().unwrap()
        summ_err = ""
        try:
            summ = gs.Summary(res)
        except Exception as ex:  # noqa: BLE001
            summ, summ_err = None, f"{type(ex).__name__}: {ex}"[:120]
        for k in kernels:
            codes = np.asarray(infos[k.identifier].error_code)          # [chains, time]
            seen = sorted(int(c) for c in np.unique(codes) if c != 0)
            rec = {"cls": type(k).__name__, "ident": k.identifier, "seen": seen, "book": sorted(int(c) for c in k.error_book),
                   "direct": [{"code": c, "total": [int(x) for x in (codes == c).sum(axis=1)],
                               "post": [int(x) for x in (codes[:, 12:] == c).sum(axis=1)]} for c in seen],
                   "summary_error": summ_err, "summary": []}
            if summ is not None:
                for code, es in summ.error_summary.get(k.identifier, {}).items():
                    rec["summary"].append({"code": int(es.error_code), "msg": es.error_msg, "msg_in_book": es.error_msg == k.error_book.get(int(es.error_code)),
                                           "total": [int(x) for x in es.count_per_chain],
                                           "post": [int(x) for x in es.count_per_chain_posterior]})
                rec["summary"].sort(key=lambda r: r["code"])
            ev["kernels"].append(rec)
    except Exception as ex:  # noqa: BLE001
        import traceback
        ev["crash"] = f"{type(ex).__name__}: {ex}"[:300] + " | " + traceback.format_exc()[-300:]
    return {"hdr": {"kind": "builtin_codes", "seed": seed, "K": 0, "C": 0, "sched": [], "tbl": [], "names": [], "books": [], "J": 1},
            "ev": [ev]}
