"""Driver for Trace_Composition.tla (C09): real kernels (RW, IWLS, MH, Gibbs; HMC/NUTS)
in sequences over disjoint blocks of a Liesel model (derived Calc nodes, a transformed
parameter, tracked log-probability) and of a dict model, each behind the wrapping probe.
Per transition the probe records all parameters before and after and the derived
quantities carried in the returned state; the driver recomputes the derived quantities
from the recorded parameters on the *user's own model* (direct assignment + update(),
no goose interface involved)."""
from __future__ import annotations

import jax
import jax.numpy as jnp
import numpy as np
import tensorflow_probability.substrates.jax.bijectors as tfb
import tensorflow_probability.substrates.jax.distributions as tfd

import liesel.goose as gs
import liesel.model as lsl
from liesel.goose.epoch import EpochConfig, EpochType
from vlib.core import fstr

from .probes import WrapKernel, read_wrap_logs

X = np.array([[1.0, -1.0], [1.0, -0.5], [1.0, 0.0], [1.0, 0.4], [1.0, 0.9], [1.0, 1.5]], np.float32)
Y = np.array([0.3, 0.1, 0.9, 1.4, 1.2, 2.3], np.float32)

PARAMS = PARAMS1 = ["b", "sigma_transformed", "m"]          # sampled parameters (position keys)
SIZES = SIZES1 = [2, 1, 1]
DERIVED = DERIVED1 = ["sigma", "mean", "snr", "_model_log_prob", "_model_log_lik", "_model_log_prior"]
DSIZES = DSIZES1 = [1, 6, 1, 1, 1, 1]


def build_liesel_model(softplus=False):
    b = lsl.param(jnp.array([0.1, -0.2], jnp.float32), lsl.Dist(tfd.Normal, loc=0.0, scale=3.0), name="b")
    sigma = lsl.param(jnp.float32(1.2), lsl.Dist(tfd.InverseGamma, concentration=2.0, scale=1.0), name="sigma")
    m = lsl.param(jnp.float32(0.3), lsl.Dist(tfd.Normal, loc=0.0, scale=1.0), name="m")
    xn = lsl.obs(jnp.asarray(X), name="X")
    mean = lsl.Var(lsl.Calc(lambda X, b, m: X @ b + m, xn, b, m), name="mean")
    snr = lsl.Var(lsl.Calc(lambda b, s: b[0] / s, b, sigma), name="snr")  # feeds no distribution
    y = lsl.obs(jnp.asarray(Y), lsl.Dist(tfd.Normal, loc=mean, scale=sigma), name="y")
    sigma.transform(tfb.Softplus() if softplus else tfb.Exp())
    return lsl.GraphBuilder().add(y, snr).build_model()


# second Liesel model: a weak variable that has a distribution of its own (a distribution evaluated at a derived
# node) and a default-transformed variable whose bijector depends on another sampled parameter
Y2 = np.array([0.4, 1.1, 0.8, 1.9, 1.3], np.float32)
PARAMS2 = ["a", "bb", "hi_transformed", "u_transformed"]
SIZES2 = [1, 1, 1, 1]
DERIVED2 = ["s", "hi", "u", "_model_log_prob", "_model_log_lik", "_model_log_prior"]
DSIZES2 = [1, 1, 1, 1, 1, 1]


def build_liesel_model2():
    a = lsl.param(jnp.float32(0.2), lsl.Dist(tfd.Normal, loc=0.0, scale=1.0), name="a")
    bb = lsl.param(jnp.float32(-0.1), lsl.Dist(tfd.Normal, loc=0.0, scale=1.0), name="bb")
    s_ = lsl.Var(lsl.Calc(lambda a, b: a + b, a, bb), lsl.Dist(tfd.Normal, loc=0.0, scale=0.5), name="s")
    hi = lsl.param(jnp.float32(2.0), lsl.Dist(tfd.Gamma, concentration=4.0, rate=2.0), name="hi")
    u = lsl.param(jnp.float32(0.8), lsl.Dist(tfd.Uniform, low=0.0, high=hi), name="u")
    y = lsl.obs(jnp.asarray(Y2), lsl.Dist(tfd.Normal, loc=lsl.Calc(lambda a, u: a + u, a, u), scale=1.0), name="y")
    hi.transform(tfb.Exp())
    u.transform()            # default event-space bijector: Sigmoid(low, high) with the *current* high
    return lsl.GraphBuilder().add(y, s_).build_model()


# third Liesel model: a discrete variable sampled by the built-in finite-discrete Gibbs kernel; the user assigns a
# start value on the model *after* the kernels were created and hands model.state to the engine
Y3 = np.array([1.9, 3.1, 2.4], np.float32)
PARAMS3 = ["z", "mu"]
SIZES3 = [1, 1]
DERIVED3 = ["mu_log_prob", "z_log_prob", "_model_log_prob", "_model_log_lik", "_model_log_prior"]
DSIZES3 = [1, 1, 1, 1, 1]


def build_liesel_model3():
    z = lsl.param(jnp.asarray(1), lsl.Dist(tfd.Bernoulli, probs=lsl.Value(0.3)), name="z")
    mu = lsl.param(jnp.float32(0.0), lsl.Dist(tfd.Normal, loc=0.0, scale=2.0), name="mu")
    y = lsl.obs(jnp.asarray(Y3), lsl.Dist(tfd.Normal, loc=lsl.Calc(lambda m, z: m + z, mu, z), scale=1.0), name="y")
    return lsl.GraphBuilder().add(y).build_model()


# second dict model: a parameter with bounded support - random-walk proposals outside it have a NaN ratio (error code 90)
PARAMS4, SIZES4 = ["x", "g"], [1, 1]


def dict2_logp(s):
    return -0.5 * jnp.sum(s["x"] ** 2) + jnp.sum(2.0 * jnp.log(s["g"]) - s["g"]) - 0.5 * jnp.sum((s["x"] * s["g"]) ** 2) * 0.1


def closed_form(model_kind, after):
    """Derived quantities in float64 from the recorded parameters, without any liesel object."""
    import scipy.stats as st
    f = np.asarray(after, np.float64)
    if model_kind == "dict2":
        x, g = f
        return [-0.5 * x ** 2 + 2.0 * np.log(g) - g - 0.05 * (x * g) ** 2]
    if model_kind == "liesel3":
        z, mu = f
        ll = st.norm(mu + z, 1.0).logpdf(Y3.astype(np.float64)).sum()
        lmu, lz = st.norm(0, 2).logpdf(mu), np.log(0.3 if z == 1 else 0.7)
        return [lmu, lz, ll + lmu + lz, ll, lmu + lz]
    if model_kind == "liesel2":
        a, bb, ht, ut = f
        hi = np.exp(ht)
        sg = 1.0 / (1.0 + np.exp(-ut))
        u = hi * sg
        ll = st.norm(a + u, 1.0).logpdf(Y2.astype(np.float64)).sum()
        lpr = (st.norm(0, 1).logpdf(a) + st.norm(0, 1).logpdf(bb) + st.gamma(4.0, scale=0.5).logpdf(hi) + ht
               + np.log(sg) + np.log1p(-sg))
        lp = ll + lpr + st.norm(0, 0.5).logpdf(a + bb)
        return [a + bb, hi, u, lp, ll, lpr]
    b, stt, m = f[0:2], f[2], f[3]
    sig = np.exp(stt)
    mean = X.astype(np.float64) @ b + m
    ll = st.norm(mean, sig).logpdf(Y.astype(np.float64)).sum()
    lpr = st.norm(0, 3).logpdf(b).sum() + st.norm(0, 1).logpdf(m) + st.invgamma(2.0, scale=1.0).logpdf(sig) + stt
    if model_kind == "dict":
        return [ll + lpr]
    return [sig] + list(mean) + [b[0] / sig, ll + lpr, ll, lpr]


def liesel_flat(model, state, names):
    out = []
    for n in names:
        try:
            v = state[n].value
        except KeyError:
            v = state[model.vars[n].value_node.name].value
        out += list(jnp.ravel(jnp.asarray(v, jnp.float32)))
    return out


def dict_logp(s):
    sig = jnp.exp(s["sigma_transformed"])
    mean = jnp.asarray(X) @ s["b"] + s["m"]
    lp = jnp.sum(tfd.Normal(mean, sig).log_prob(jnp.asarray(Y)))
    lp += jnp.sum(tfd.Normal(0.0, 3.0).log_prob(s["b"])) + tfd.Normal(0.0, 1.0).log_prob(s["m"])
    lp += tfd.InverseGamma(2.0, 1.0).log_prob(sig) + s["sigma_transformed"]
    return lp


def m_gibbs_fn(model_kind, interface):
    """Exact full conditional of m (Normal-Normal)."""
    def fn(key, model_state):
        pos = interface.extract_position(["b", "sigma_transformed"], model_state)
        sig2 = jnp.exp(pos["sigma_transformed"]) ** 2
        r = jnp.asarray(Y) - jnp.asarray(X) @ pos["b"]
        prec = 1.0 + len(Y) / sig2
        mu = (jnp.sum(r) / sig2) / prec
        return {"m": mu + jax.random.normal(key) / jnp.sqrt(prec)}
    return fn


def mh_prop(key, model_state_pos, step):
    raise NotImplementedError


def make_kernels(spec, interface, user_model=None):
    """spec: list of (kind, keys)"""
    out = []
    for kind, keys in spec:
        if kind == "fdgibbs":
            from liesel.model.goose import finite_discrete_gibbs_kernel
            k = finite_discrete_gibbs_kernel(keys[0], user_model, outcomes=[0, 1])
        elif kind == "rw":
            k = gs.RWKernel(keys, initial_step_size=0.3)
        elif kind == "rwbig":       # large steps: many proposals leave the support
            k = gs.RWKernel(keys, initial_step_size=1.5)
        elif kind == "iwls":
            k = gs.IWLSKernel(keys, initial_step_size=0.7)
        elif kind == "gibbs":
            k = gs.GibbsKernel(keys, m_gibbs_fn(None, interface))
        elif kind == "mh":
            name = keys[0]

            def prop(key, ms, step, name=name):
                v = interface.extract_position([name], ms)[name]
                z = jax.random.normal(key, jnp.shape(v))
                new = v + step * z + 0.05          # asymmetric shift
                # log q(v|new)/q(new|v) for N(v + .05, step): both Gaussians with shifted means
                corr = (-0.5 * jnp.sum(((v - new - 0.05) / step) ** 2)
                        + 0.5 * jnp.sum(((new - v - 0.05) / step) ** 2))
                return gs.MHProposal({name: new}, corr)
            k = gs.MHKernel(keys, prop, initial_step_size=0.4)
        elif kind == "nuts":
            k = gs.NUTSKernel(keys, initial_step_size=0.2, max_treedepth=3)
        elif kind == "hmc":
            k = gs.HMCKernel(keys, initial_step_size=0.1, num_integration_steps=3)
        else:
            raise KeyError(kind)
        out.append(k)
    return out


SEQS = {
    "iwls_rw_gibbs": [("iwls", ["b"]), ("rw", ["sigma_transformed"]), ("gibbs", ["m"])],
    "rw_mh_rw": [("rw", ["m"]), ("mh", ["b"]), ("rw", ["sigma_transformed"])],
    "gibbs_nuts": [("gibbs", ["m"]), ("nuts", ["sigma_transformed", "b"])],
    "hmc_rw": [("hmc", ["b"]), ("rw", ["m"]), ("iwls", ["sigma_transformed"])],
    "rw_sigma_first": [("rw", ["sigma_transformed"]), ("rw", ["m"]), ("mh", ["b"])],
    # for the second Liesel model
    "rw_hi_u_ab": [("rw", ["hi_transformed"]), ("rw", ["u_transformed"]), ("iwls", ["a", "bb"])],
    "nuts_u_rw": [("rw", ["a"]), ("nuts", ["hi_transformed", "bb"]), ("rw", ["u_transformed"])],
    # for the third Liesel model
    "fdgibbs_rw": [("fdgibbs", ["z"]), ("rw", ["mu"])],
    # for the second dict model
    "rw_x_rw_g": [("rw", ["x"]), ("rwbig", ["g"])],
}
IDENTS = ["zz_first", "mm_second", "aa_third"]     # sorted order differs from configured order


def run(seq="iwls_rw_gibbs", model_kind="liesel", chains=2, seed=0, custom_idents=True,
        schedule=((1, 4), (3, 2), (4, 4)), double_set_model=False, auto_off=False):
    """double_set_model (Liesel model 1): the first kernel is added, then the builder is given the interface of a model
    with the same node names but another graph (sigma = softplus(...)), then the real interface."""
    spec = SEQS[seq]
    PARAMS, SIZES, DERIVED, DSIZES = ((PARAMS2, SIZES2, DERIVED2, DSIZES2) if model_kind == "liesel2"
                                      else (PARAMS3, SIZES3, DERIVED3, DSIZES3) if model_kind == "liesel3"
                                      else (PARAMS4, SIZES4, [], []) if model_kind == "dict2"
                                      else (PARAMS1, SIZES1, DERIVED1, DSIZES1))
    builders = {"liesel": build_liesel_model, "liesel2": build_liesel_model2, "liesel3": build_liesel_model3}
    npar, nder = sum(SIZES), (sum(DSIZES) if model_kind.startswith("liesel") else 1)
    if model_kind.startswith("liesel"):
        user_model = builders[model_kind]()
        if auto_off:
            # the user switched automatic updates off (the documented performance switch) before making the interface
            user_model.auto_update = False
        interface = gs.LieselInterface(user_model)
        init = user_model.state

        def obs_fn(model, before, after, info, epoch, key):
            return (liesel_flat(interface._model, before, PARAMS) + liesel_flat(interface._model, after, PARAMS)
                    + liesel_flat(interface._model, after, DERIVED))
    else:
        interface = gs.DictInterface(dict2_logp if model_kind == "dict2" else dict_logp)
        init = ({"x": jnp.array([0.3], jnp.float32), "g": jnp.array([0.6], jnp.float32)} if model_kind == "dict2" else
                {"b": jnp.array([0.1, -0.2], jnp.float32), "sigma_transformed": jnp.float32(np.log(1.2)),
                 "m": jnp.float32(0.3)})

        def obs_fn(model, before, after, info, epoch, key):
            f = lambda s: [x for n in PARAMS for x in jnp.ravel(jnp.asarray(s[n], jnp.float32))]  # noqa: E731
            return f(before) + f(after) + [model.log_prob(after)]
    inner = make_kernels(spec, interface, user_model if model_kind.startswith("liesel") else None)
    if model_kind == "liesel3":
        # start values assigned on the user's model after the kernels were created
        user_model.vars["mu"].value = jnp.float32(2.5)
        init = user_model.state
    total = sum(d for _, d in schedule)
    wraps = [WrapKernel(k, n_tun=0, obs_fn=obs_fn, n_obs=2 * npar + nder, cap=total + 4 * len(schedule) + 8,
                        tun_fn=lambda ks: []) for k in inner]
    b = gs.EngineBuilder(seed=seed, num_chains=chains)
    if double_set_model:
        if custom_idents:
            wraps[0].identifier = IDENTS[0]
        b.add_kernel(wraps[0])
        b.set_model(gs.LieselInterface(build_liesel_model(softplus=True)))
    b.set_model(interface)
    b.set_initial_values(init)
    for i, w in enumerate(wraps):
        if custom_idents:
            w.identifier = IDENTS[i]
        if not (double_set_model and i == 0):
            b.add_kernel(w)
    b.set_epochs([EpochConfig(EpochType.INITIAL_VALUES, 1, 1, None)]
                 + [EpochConfig(EpochType(t), d, 1, None) for t, d in schedule])
    b.show_progress = False
    eng = b.build()
    eng.sample_all_epochs()
    # the wrapper order in the engine's kernel states is the order the sequence *stores* them in
    stored_order = [k.identifier for k in eng._kernel_sequence.get_kernels()]
    logs = read_wrap_logs(eng, eng._kernel_sequence.get_kernels())
    own = {}
    off = 0
    offs = {}
    for n, s in zip(PARAMS, SIZES):
        offs[n] = list(range(off + 1, off + s + 1))
        off += s
    traces = []
    recomp_model = builders[model_kind]() if model_kind.startswith("liesel") else None
    for c in range(chains):
        per_kernel = {}
        for ki in range(len(wraps)):
            ident = stored_order[ki]
            cfg_idx = [w.identifier for w in wraps].index(ident)
            per_kernel[cfg_idx] = [e for e in logs[(c, ki)] if e["kind"] == "transition"]
        n_it = min(len(v) for v in per_kernel.values())
        ev = []
        for it in range(n_it):
            for cfg_idx in range(len(wraps)):          # configured order
                e = per_kernel[cfg_idx][it]
                o = e["obs"]
                before, after, derived = o[:npar], o[npar:2 * npar], o[2 * npar:]
                rec = {"ev": "transition", "k": cfg_idx + 1, "idx": e["epoch"], "tie": e["tie"],
                       "moved": int(e["moved"]), "kind": spec[cfg_idx][0],
                       "before": [fstr(np.float32(x)) for x in before],
                       "after": [fstr(np.float32(x)) for x in after],
                       "derived": [fstr(np.float32(x)) for x in derived]}
                rec["recomputed"] = recompute(model_kind, recomp_model, after)
                rec["closed_form"] = [fstr(x) for x in closed_form(model_kind, after)]
                ev.append(rec)
        hdr = {"N": npar, "own": [sorted(sum((offs[n] for n in keys), [])) for _, keys in spec],
               "order": list(range(1, len(spec) + 1)), "seq": seq, "model": model_kind, "chain": c,
               "kinds": [k for k, _ in spec], "custom_idents": custom_idents,
               "mh_like": [k in ("rw", "rwbig", "mh", "iwls") for k, _ in spec],
               "scenario": {"seq": seq, "model_kind": model_kind, "chains": chains, "seed": seed,
                            "custom_idents": custom_idents, "schedule": [list(s) for s in schedule],
                            "double_set_model": double_set_model, "auto_off": auto_off}}
        traces.append({"hdr": hdr, "ev": ev})
    return traces


def recompute(model_kind, model, after):
    """Derived quantities from scratch on the user's own model (no goose interface)."""
    if model_kind == "dict2":
        return [fstr(np.float32(dict2_logp({"x": jnp.asarray([np.float32(after[0])]), "g": jnp.asarray([np.float32(after[1])])})))]
    if model_kind in ("liesel2", "liesel3"):
        P_, D_ = (PARAMS2, DERIVED2) if model_kind == "liesel2" else (PARAMS3, DERIVED3)
        model.auto_update = False
        for n, v in zip(P_, after):
            model.vars[n].value = jnp.asarray(int(v)) if n == "z" else jnp.float32(v)
        model.update()
        return [fstr(np.float32(x)) for n in D_ for x in np.ravel(np.asarray(
            model.nodes[n].value if n in model.nodes else model.vars[n].value, np.float32))]
    b, st, m = np.float32(after[0:2]), np.float32(after[2]), np.float32(after[3])
    if model_kind == "liesel":
        model.auto_update = False
        model.vars["b"].value = jnp.asarray(b)
        model.vars["sigma_transformed"].value = jnp.asarray(st)
        model.vars["m"].value = jnp.asarray(m)
        model.update()
        out = []
        for n in DERIVED:
            try:
                v = model.nodes[n].value
            except KeyError:
                v = model.vars[n].value
            out += [fstr(np.float32(x)) for x in np.ravel(np.asarray(v, np.float32))]
        return out
    s = {"b": jnp.asarray(b), "sigma_transformed": jnp.asarray(st), "m": jnp.asarray(m)}
    return [fstr(np.float32(dict_logp(s)))]


# ---- a parameter whose stored dtype differs from the dtype of the proposals (integer start values) ---------------
def int_param_trace(seed=0, n=12):
    """Two RW kernels over the blocks ["rate"] and ["shift"] of a Liesel model whose parameters were initialised with
    integers (to_float32 off); eager transitions.  The library may refuse such a state (the accepted and the rejected
    branch of the MH step have different dtypes: TypeError) - then the trace has no transition; if it does run, every
    state a kernel hands on must be coherent: the derived mean equals rate * 10 + shift of the *stored* parameters."""
    import tensorflow_probability.substrates.jax.distributions as tfd

    import liesel.model as lsl
    from liesel.goose.epoch import EpochConfig, EpochType
    epoch = EpochConfig(EpochType.POSTERIOR, 10, 1, None).to_state(1, 1)
    shift = lsl.Var(3, lsl.Dist(tfd.Normal, loc=0.0, scale=10.0), name="shift")
    rate = lsl.Var(jnp.asarray(2), lsl.Dist(tfd.Normal, loc=0.0, scale=10.0), name="rate")
    mean = lsl.Var(lsl.Calc(lambda r, s: r * 10.0 + s, rate, shift), name="mean")
    y = lsl.Var(jnp.asarray([20.0, 25.0, 31.0], jnp.float32), lsl.Dist(tfd.Normal, loc=mean, scale=2.0), name="y")
    y.observed = True
    model = lsl.GraphBuilder(to_float32=False).add(y).build_model()
    interface = gs.LieselInterface(model)
    kernels = [gs.RWKernel(["rate"], initial_step_size=0.8), gs.RWKernel(["shift"], initial_step_size=1.5)]
    for k in kernels:
        k.set_model(interface)
    state = model.state
    key = jax.random.PRNGKey(seed)
    kstates = [k.init_state(key, state) for k in kernels]
    names = ["rate", "shift"]

    def params(st):
        pos = interface.extract_position(names, st)
        return [fstr(np.asarray(pos[nm], np.float64)) for nm in names]

    ev, refused = [], ""
    for it in range(n):
        for ki, kern in enumerate(kernels):
            key, sub = jax.random.split(key)
            before = params(state)
            try:
                out = kern._standard_transition(sub, kstates[ki], state, epoch)
            except TypeError as ex:
                refused = f"TypeError: {ex}"[:160]
                break
            state = out.model_state
            after = params(state)
            d = interface.extract_position(["mean"], state)["mean"]
            cf = float(after[0]) * 10.0 + float(after[1])
            ev.append({"ev": "transition", "k": ki + 1, "kind": "rw", "moved": int(out.info.position_moved),
                       "before": before, "after": after, "derived": [fstr(np.asarray(d, np.float64))],
                       "recomputed": [fstr(cf)], "closed_form": [fstr(cf)]})
        if refused:
            break
    hdr = {"N": 2, "own": [[1], [2]], "order": [1, 2], "mh_like": [True, True], "model": "liesel_int", "seq": "rw_rate_rw_shift",
           "refused": refused, "int_param": {"seed": seed, "n": n}}
    return {"hdr": hdr, "ev": ev}


def pit_trace(seed=0, n=10):
    """Two RW kernels over the blocks ["m"] and ["z"] of a Liesel model built with the legacy helpers, in which a
    probability integral transform of z (lsl.PIT) feeds the mean of the response; eager transitions through the
    interface's model copy; derived quantities against a float64 closed form."""
    import scipy.stats as st
    import tensorflow_probability.substrates.jax.distributions as tfd

    import liesel.model as lsl
    from liesel.goose.epoch import EpochConfig, EpochType
    epoch = EpochConfig(EpochType.POSTERIOR, 10, 1, None).to_state(1, 1)
    yv = np.asarray([0.4, 0.9, 0.6], np.float32)
    m = lsl.Param(jnp.float32(0.3), lsl.Dist(tfd.Normal, loc=0.0, scale=2.0), name="m")
    z = lsl.Param(jnp.float32(0.1), lsl.Dist(tfd.Normal, loc=m, scale=1.0), name="z")
    u = lsl.PIT(z)
    y = lsl.Obs(jnp.asarray(yv), lsl.Dist(tfd.Normal, loc=u, scale=0.5), name="y")
    model = lsl.GraphBuilder().add(y).build_model()
    interface = gs.LieselInterface(model)
    kernels = [gs.RWKernel(["m"], initial_step_size=0.9), gs.RWKernel(["z"], initial_step_size=0.9)]
    for k in kernels:
        k.set_model(interface)
    state = model.state
    key = jax.random.PRNGKey(seed)
    kstates = [k.init_state(key, state) for k in kernels]
    names = ["m", "z"]

    def params(s):
        pos = interface.extract_position(names, s)
        return [fstr(np.asarray(pos[nm], np.float64)) for nm in names]

    ev = []
    for it in range(n):
        for ki, kern in enumerate(kernels):
            key, sub = jax.random.split(key)
            before = params(state)
            out = kern._standard_transition(sub, kstates[ki], state, epoch)
            state = out.model_state
            after = params(state)
            d = interface.extract_position([u.name, "_model_log_prob"], state)
            mm, zz = float(after[0]), float(after[1])
            uu = st.norm(mm, 1.0).cdf(zz)
            lp = st.norm(0, 2).logpdf(mm) + st.norm(mm, 1).logpdf(zz) + st.norm(uu, 0.5).logpdf(yv.astype(np.float64)).sum()
            ev.append({"ev": "transition", "k": ki + 1, "kind": "rw", "moved": int(out.info.position_moved),
                       "before": before, "after": after,
                       "derived": [fstr(np.asarray(d[u.name], np.float64)), fstr(np.asarray(d["_model_log_prob"], np.float64))],
                       "recomputed": [fstr(uu), fstr(lp)], "closed_form": [fstr(uu), fstr(lp)]})
    hdr = {"N": 2, "own": [[1], [2]], "order": [1, 2], "mh_like": [True, True], "model": "liesel_pit", "seq": "rw_m_rw_z",
           "pit": {"seed": seed, "n": n}}
    return {"hdr": hdr, "ev": ev}


def clash_trace(seed=0, n=10):
    """A position key that names a node *and* (another) variable: the user gave a value node the name "n0" and a
    parameter variable the same name.  Position keys mean the node first, for reading and for writing alike: an RW kernel
    on ["n0"] moves that node and nothing else; a second RW kernel moves m.  Parameters recorded: node n0, the value of
    the variable n0, m."""
    import scipy.stats as st
    import tensorflow_probability.substrates.jax.distributions as tfd

    import liesel.model as lsl
    from liesel.goose.epoch import EpochConfig, EpochType
    epoch = EpochConfig(EpochType.POSTERIOR, 10, 1, None).to_state(1, 1)
    yv = np.asarray([0.4, 0.9, 0.6], np.float32)
    shift = lsl.Value(jnp.float32(0.5), _name="n0")                        # a plain value node called n0
    nvar = lsl.Var(jnp.float32(1.0), lsl.Dist(tfd.Normal, loc=0.0, scale=2.0), name="n0")   # ... and a variable called n0
    m = lsl.Var(jnp.float32(0.3), lsl.Dist(tfd.Normal, loc=0.0, scale=2.0), name="m")
    mean = lsl.Var(lsl.Calc(lambda a, b, c: a + b + c, shift, nvar, m), name="mean")
    y = lsl.Var(jnp.asarray(yv), lsl.Dist(tfd.Normal, loc=mean, scale=1.0), name="y")
    y.observed = True
    model = lsl.GraphBuilder().add(y).build_model()
    interface = gs.LieselInterface(model)
    kernels = [gs.RWKernel(["n0"], initial_step_size=0.6), gs.RWKernel(["m"], initial_step_size=0.6)]
    for k in kernels:
        k.set_model(interface)
    state = model.state
    key = jax.random.PRNGKey(seed)
    kstates = [k.init_state(key, state) for k in kernels]

    def params(s):
        return [fstr(np.asarray(s[nm].value, np.float64)) for nm in ("n0", "n0_value", "m_value")]

    ev = []
    for it in range(n):
        for ki, kern in enumerate(kernels):
            key, sub = jax.random.split(key)
            before = params(state)
            out = kern._standard_transition(sub, kstates[ki], state, epoch)
            state = out.model_state
            after = params(state)
            a, b, c = (float(v) for v in after)
            mu = a + b + c
            lp = st.norm(0, 2).logpdf(b) + st.norm(0, 2).logpdf(c) + st.norm(mu, 1).logpdf(yv.astype(np.float64)).sum()
            d = [state["mean_value"].value, state["_model_log_prob"].value]
            ev.append({"ev": "transition", "k": ki + 1, "kind": "rw", "moved": int(out.info.position_moved), "before": before, "after": after,
                       "derived": [fstr(np.asarray(x, np.float64)) for x in d], "recomputed": [fstr(mu), fstr(lp)],
                       "closed_form": [fstr(mu), fstr(lp)]})
    hdr = {"N": 3, "own": [[1], [3]], "order": [1, 2], "mh_like": [True, True], "model": "liesel_clash", "seq": "rw_n0_rw_m",
           "clash": {"seed": seed, "n": n}}
    return {"hdr": hdr, "ev": ev}
