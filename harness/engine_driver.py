"""Drives the real Engine with probe kernels along an interleaving of
append_epoch / sample_next_epoch / sample_all_epochs and records one merged trace per
chain for Trace_Engine.tla (C07, C08, C09-order, C10-keys)."""
from __future__ import annotations

import jax
import jax.numpy as jnp
import numpy as np

import liesel.goose as gs
from liesel.goose.engine import Engine
from liesel.goose.epoch import EpochConfig, EpochType
from liesel.goose.kernel_sequence import KernelSequence
from liesel.goose.pytree import stack_leaves

from .probes import BOOKED, ComputingDictInterface, ProbeKernel, ProbeQG, read_logs

SHAPES = [(), (2,), (2, 2), (3,)]


def decode(v):
    """probe tag value -> [epoch, iteration, kernel index]"""
    v = int(round(float(v)))
    return [v // 1000, (v // 10) % 100, v % 10]


def cfg_of(c):
    return EpochConfig(EpochType(c["type"]), c["dur"], c["thin"], None)


def build_engine(K, needs_hist, chains, seed, J, init_cfgs, included=(), excluded=(),
                 store_kernel_states=False, error_tables=None, cap=400, via_builder=False, nq=0, prebuild=False,
                 error_books=None, minimize_infos=False, tune_error_chains=(), show_progress=False, computing=False):
    """prebuild (with via_builder): the builder first builds another engine, which is run to the end and has an epoch
    appended; the engine that is returned is built afterwards from the same builder and must be unaffected."""
    keys = [f"p{k}" for k in range(1, K + 1)]
    model = (ComputingDictInterface if computing else gs.DictInterface)(lambda s: jnp.asarray(0.0))
    kernels = []
    for k in range(1, K + 1):
        # classes with their own error books (picklable); "shared": every kernel is of the same class (one book)
        cls = ProbeKernel if not error_books else BOOKED[1 if error_books == "shared" else k]
        if error_books == "local":      # a class that cannot be found under its qualified name (defined in a function)
            cls = _local_class(k)
        ker = cls([keys[k - 1]], kidx=k, cap=cap, needs_history=(k in needs_hist),
                          all_keys=keys, error_table=None if error_tables is None else error_tables[k - 1],
                  tune_error_chains=tune_error_chains)
        kernels.append(ker)

    qgs = [ProbeQG(f"qg{g}", keys) for g in range(1, nq + 1)]

    def state_for(c):
        st = {keys[k - 1]: jnp.zeros(SHAPES[(k - 1) % len(SHAPES)], jnp.float32) + float(k)
              for k in range(1, K + 1)}
        st["chain"] = jnp.asarray(c, jnp.int32)
        st["seq"] = jnp.asarray(0.0, jnp.float32)
        st["const"] = jnp.asarray(7.0, jnp.float32)
        return st

    if via_builder:
        b = gs.EngineBuilder(seed=seed, num_chains=chains)
        b.set_model(model)
        b.set_initial_values(state_for(0))
        for ker in kernels:
            b.add_kernel(ker)
        for qg in qgs:
            b.add_quantity_generator(qg)
        b.set_epochs([cfg_of(c) for c in init_cfgs])
        b.positions_included = list(included)
        b.positions_excluded = list(excluded)
        b.store_kernel_states = store_kernel_states
        b.show_progress = show_progress
        if prebuild:
            other = b.build()
            other.sample_all_epochs()
            other.append_epoch(EpochConfig(EpochType.POSTERIOR, max(1, int(other._jitted_sample_duration)), 1, None))
        eng = b.build()
        return eng, kernels, keys
    for i, ker in enumerate(kernels):
        ker.set_model(model)
        ker.identifier = f"kernel_{i:02d}"
    for qg in qgs:
        qg.set_model(model)
    pos_keys = [k for k in keys + list(included) if k not in excluded]
    eng = Engine(
        seeds=jax.random.split(jax.random.PRNGKey(seed), chains),
        model_states=stack_leaves([state_for(c) for c in range(chains)]),
        kernel_sequence=KernelSequence(kernels),
        epoch_configs=[cfg_of(c) for c in init_cfgs],
        jitted_sample_duration=J,
        model=model,
        position_keys=pos_keys,
        store_kernel_states=store_kernel_states,
        quantity_generators=qgs,
        show_progress=show_progress,
        minimize_transition_infos=minimize_infos,
    )
    return eng, kernels, keys


def _local_class(k):
    from .probes import probe_book

    class LocalProbe(ProbeKernel):
        error_book = probe_book(k)
    return LocalProbe


def _kernel_event(e, K):
    r = {"ev": e["kind"], "k": e["kidx"], "idx": e["epoch"], "type": e["etype"], "time": e["time"],
         "tie": e["tie"], "key": e["key"]}
    if e["kind"] == "transition":
        fl = e["fl"]
        mins, maxs = fl[3:3 + K], fl[3 + K:3 + 2 * K]
        r["adaptive"] = bool(e["x0"])
        r["code"] = e["x1"]
        r["chain"] = int(fl[1])
        r["seq"] = int(fl[2])
        r["seen"] = [decode(v)[:2] for v in mins]
        # every block is uniform and carries its own kernel's index
        r["blocks_ok"] = all(mins[i] == maxs[i] and decode(mins[i])[2] == i + 1 for i in range(K))
        r["wrote"] = decode(fl[0])
    if e["kind"] == "init_state":
        r["chain_seen"] = e["x0"]
    if e["kind"] == "tune":
        r["hl"] = e["x0"]
        r["slow"] = bool(e["x1"])
        if e["x0"] >= 1:
            r["hfirst"] = decode(e["fl"][0])[:2]
            r["hlast"] = decode(e["fl"][1])[:2]
            r["hkeys"] = int(e["fl"][3])
    return r


def merge(new_by_kernel, K):
    """Merge of the kernels' new log entries.  Each kernel's own order is kept.  The i-th
    new call of every kernel forms one round (the kernel sequence hands every call to
    all kernels); within a round of transitions the order is the *observed* order of the
    sequence counter the probes carry in the model state, within other rounds it is the
    kernel order (no cross-kernel claim is made there).  Surplus calls of a kernel that
    got more calls than the others are appended at the end (the trace is then rejected
    by the spec)."""
    out = []
    n = max((len(v) for v in new_by_kernel.values()), default=0)
    for i in range(n):
        rnd = [new_by_kernel[k][i] for k in sorted(new_by_kernel) if i < len(new_by_kernel[k])]
        if all(r["kind"] == "transition" for r in rnd):
            rnd = sorted(rnd, key=lambda r: r["fl"][2])
        out.extend(rnd)
    return out


def _refusal(ex):
    """Documented refusals of the engine (not crashes): a duration that is not a multiple of the chunk length, and any
    sampling call after that (the epoch stays active)."""
    return isinstance(ex, RuntimeError) and ("not a multiple of the jitted sampling duration" in str(ex)
                                             or "Epoch is active" in str(ex))


def run(ops, K=2, needs_hist=(2,), chains=2, seed=0, J=1, init_cfgs=(), included=(), excluded=(),
        store_kernel_states=False, via_builder=False, meta=None, nq=0, prebuild=False, tune_error_chains=(),
        show_progress=False, computing=False):
    """ops: list of ("append", cfg) | ("next",) | ("all",).  Returns one trace per chain."""
    try:
        eng, kernels, keys = build_engine(K, set(needs_hist), chains, seed, J, list(init_cfgs), included,
                                          excluded, store_kernel_states, via_builder=via_builder, nq=nq, prebuild=prebuild,
                                          tune_error_chains=tune_error_chains, show_progress=show_progress, computing=computing)
    except RuntimeError as ex:
        if not (via_builder and "position" in str(ex).lower()):
            raise
        # the builder refused the selection of tracked positions: one event, judged by the spec
        keys = [f"p{k}" for k in range(1, K + 1)]
        hdr = {"K": K, "J": J, "needs": sorted(needs_hist), "chain": 0, "init": list(init_cfgs), "kernel_keys": keys,
               "included": list(included), "excluded": list(excluded), "nq": nq, "via_builder": via_builder, "seed": seed,
               "lenient": False, "postkey": "", "derived": {}, "init_chain": 0,
               "scenario": {"ops": [list(o) for o in ops], "K": K, "needs_hist": list(needs_hist), "chains": chains,
                            "seed": seed, "J": J, "init_cfgs": list(init_cfgs), "included": list(included),
                            "excluded": list(excluded), "store_kernel_states": store_kernel_states,
                            "via_builder": via_builder, "nq": nq, "prebuild": prebuild,
                            "tune_error_chains": list(tune_error_chains), "show_progress": show_progress,
                            "computing": computing}}
        hdr.update(meta or {})
        return [{"hdr": hdr, "ev": [{"ev": "build_refused", "error": str(ex)[:200]}]}]
    if via_builder:
        J = int(eng._jitted_sample_duration)
    evs = {c: [] for c in range(chains)}
    seen_n = {}

    def drain():
        logs = read_logs(eng)
        for c in range(chains):
            new = {}
            for ki in range(K):
                full = logs[(c, ki)]
                n0 = seen_n.get((c, ki), 0)
                new[ki + 1] = [dict(e, kidx=ki + 1) for e in full[n0:]]
                seen_n[(c, ki)] = len(full)
            for e in merge(new, K):
                evs[c].append(_kernel_event(e, K))

    drain()  # init_state calls
    for cf in init_cfgs:  # configs handed to the constructor went through EpochManager.append
        for c in range(chains):
            evs[c].append({"ev": "append", "c": cf, "accepted": True})
    crashed = None
    retained = []      # results objects obtained (and read) while the run was still going on
    for op in ops:
        if op[0] == "read":
            r_mid = eng.get_results()
            try:
                r_mid.get_posterior_samples()
            except Exception:  # noqa: BLE001  (no posterior samples yet)
                pass
            r_mid.get_samples()
            retained.append(r_mid)
            for c in range(chains):
                evs[c].append({"ev": "read"})
        elif op[0] == "append":
            try:
                eng.append_epoch(cfg_of(op[1]))
                ok = True
            except RuntimeError:
                ok = False
            for c in range(chains):
                evs[c].append({"ev": "append", "c": op[1], "accepted": ok})
        elif op[0] == "next":
            more = bool(eng._epoch_manager.has_more())
            try:
                eng.sample_next_epoch()
                ok = True
            except Exception as ex:  # noqa: BLE001
                ok = False
                if more and not _refusal(ex):
                    crashed = f"sample_next_epoch raised {type(ex).__name__}: {ex}"
            for c in range(chains):
                evs[c].append({"ev": "sample_next", "ok": ok, "crash": crashed or ""})
            if crashed:
                break
            drain()
        elif op[0] == "all":
            try:
                eng.sample_all_epochs()
                ok = True
            except Exception as ex:  # noqa: BLE001
                ok = False
                if not _refusal(ex):
                    crashed = f"sample_all_epochs raised {type(ex).__name__}: {ex}"
            for c in range(chains):
                evs[c].append({"ev": "sample_all", "ok": ok, "crash": crashed or ""})
            if crashed:
                break
            drain()
    # API event must precede the calls it triggered: reorder (the event was appended
    # before drain(), so it already does)
    if crashed:
        results_ev = {c: {"ev": "crashed", "what": crashed} for c in range(chains)}
    else:
        res = eng.get_results()
        results_ev = results_event(res, eng, keys, K, chains, included, excluded, store_kernel_states, nq)

        # a results object obtained earlier holds the engine's live chains: its accessors show what was sampled since
        def same(a, b):
            return sorted(a) == sorted(b) and all(np.array_equal(np.asarray(a[k]), np.asarray(b[k])) for k in a)

        def post(r):
            try:
                return dict(r.get_posterior_samples())
            except Exception:  # noqa: BLE001
                return {}
        ok = all(same(post(r), post(res)) and same(dict(r.get_samples()), dict(res.get_samples())) for r in retained)
        for c in range(chains):
            results_ev[c]["retained_ok"] = bool(ok)
        # persistence: the results written with pkl_save and read back show the same chains (every third scenario)
        pkl = "skipped"
        if seed % 3 == 0:
            import os
            import pickle
            import tempfile
            fd, path = tempfile.mkstemp(suffix=".pkl")
            os.close(fd)
            try:
                try:
                    res.pkl_save(path)
                    res2 = gs.SamplingResults.pkl_load(path)
                except (pickle.PicklingError, AttributeError, TypeError) as ex:   # a harness class that cannot be pickled
                    res2 = None
                    pkl = "unpicklable:" + type(ex).__name__
                if res2 is not None:
                    ev2 = results_event(res2, eng, keys, K, chains, included, excluded, store_kernel_states, nq)
                    strip = lambda d: {k: v for k, v in d.items() if k != "retained_ok"}
                    pkl = "same" if all(ev2[c] == strip(results_ev[c]) for c in range(chains)) else "different"
            finally:
                os.unlink(path)
        for c in range(chains):
            results_ev[c]["pkl"] = pkl
    traces = []
    allkeys = [e["key"] for c in range(chains) for e in evs[c] if "key" in e]
    if not crashed:
        allkeys += [k for c in range(chains) for k in results_ev[c].get("qkeys", [])]
    for c in range(chains):
        ev = evs[c] + [dict(results_ev[c], allkeys=allkeys if c == 0 else [], keys_underived=_underived(allkeys))]
        hdr = {"K": K, "J": J, "needs": sorted(needs_hist), "chain": c, "init": list(init_cfgs),
               "kernel_keys": keys, "included": list(included), "excluded": list(excluded), "nq": nq,
               "via_builder": via_builder, "seed": seed, "lenient": False,
               # the chain number held by the initial model state of this chain (the builder replicates one state)
               "init_chain": 0 if via_builder else c,
               "postkey": ([k for k in keys if k not in excluded] + [""])[0]}
        hdr["scenario"] = {"ops": [list(o) for o in ops], "K": K, "needs_hist": list(needs_hist), "chains": chains,
                           "seed": seed, "J": J, "init_cfgs": list(init_cfgs), "included": list(included),
                           "excluded": list(excluded), "store_kernel_states": store_kernel_states,
                           "via_builder": via_builder, "nq": nq, "prebuild": prebuild,
                           "tune_error_chains": list(tune_error_chains), "show_progress": show_progress,
                           "computing": computing}
        hdr["derived"] = {"nel": int(np.prod(SHAPES[0]))} if computing else {}
        hdr.update(meta or {})
        traces.append({"hdr": hdr, "ev": ev})
    return traces


def _uniform_tag(arr):
    """arr: values of one stored entry of one key -> [e, t, kidx] if uniform else None"""
    a = np.asarray(arr).reshape(-1)
    if a.size == 0 or not np.all(a == a[0]):
        return [-9, -9, -9]
    return decode(a[0])


_UNDERIVED_CACHE = {}


def _underived(allkeys):
    """No key handed to a kernel / generator call is a split child of a key handed to another call (a kernel uses
    the children of its key for its own randomness)."""
    sig = hash(tuple(allkeys))
    if sig not in _UNDERIVED_CACHE:
        ks = sorted(set(allkeys))
        arr = jnp.asarray([[int(x) for x in k.split(":")] for k in ks], jnp.uint32)
        have = set(ks)
        ok = True
        for n in (2, 3, 4):
            ch = np.asarray(jax.vmap(lambda k: jax.random.split(k, n))(arr)).reshape(-1, 2)
            if have & {f"{int(a)}:{int(b)}" for a, b in ch}:
                ok = False
        _UNDERIVED_CACHE.clear()
        _UNDERIVED_CACHE[sig] = ok
    return _UNDERIVED_CACHE[sig]


def results_event(res, eng, keys, K, chains, included, excluded, store_kernel_states, nq=0):
    pos = res.positions
    epochs = pos.get_epochs()
    per_chain = {c: {"ev": "results", "epochs": [], "nepochs": len(epochs)} for c in range(chains)}
    tinfo = res.transition_infos
    ks = res.kernel_states
    for e in range(len(epochs)):
        stored = pos.get_specific_chain(e).get()
        ti = tinfo.get_specific_chain(e).get()
        for c in range(chains):
            rec = {"keys": [], "tags": {}, "ninfo": 0, "nks": -1}
            if stored.is_some():
                d = stored.unwrap()
                rec["keys"] = sorted(d.keys())
                for k in d:
                    arr = np.asarray(d[k])[c]
                    if k in keys:
                        kidx = keys.index(k) + 1
                        tags = [_uniform_tag(arr[t]) for t in range(arr.shape[0])]
                        rec["tags"][k] = [tg[:2] if tg[2] == kidx else [-8, -8] for tg in tags]
                    else:
                        rec["tags"][k] = [[int(v), 0] for v in arr.reshape(arr.shape[0], -1)[:, 0]]
            if ti.is_some():
                d = ti.unwrap()
                ns = {kid: int(np.asarray(v.error_code).shape[1]) for kid, v in d.items()}
                rec["ninfo"] = min(ns.values()) if len(set(ns.values())) == 1 else -1
                rec["info_kernels"] = len(ns)
            if store_kernel_states and ks.is_some():
                kk = ks.unwrap().get_specific_chain(e).get()
                if kk.is_some():
                    k0 = kk.unwrap()[0]
                    cur0, log0 = np.asarray(k0.cur)[c], np.asarray(k0.log)[c]
                    rec["nks"] = int(np.asarray(k0.cur).shape[1])
                    # the last call the stored state of kernel 1 has seen: (kind, epoch, time in epoch)
                    from .probes import KINDS
                    rec["ks_last"] = [[KINDS[int(log0[t, cur0[t] - 1, 0])], int(log0[t, cur0[t] - 1, 1]), int(log0[t, cur0[t] - 1, 4])]
                                      if cur0[t] > 0 else ["none", -1, -1] for t in range(cur0.shape[0])]
            per_chain[c]["epochs"].append(rec)
    # generated quantities: per epoch, per generator, what it saw
    gq = res.generated_quantities
    for c in range(chains):
        per_chain[c]["quants"] = []
        per_chain[c]["qkeys"] = []
    if nq and gq.is_some():
        mgr = gq.unwrap()
        for e in range(len(epochs)):
            st = mgr.get_specific_chain(e).get()
            for c in range(chains):
                recs = []
                if st.is_some():
                    d = st.unwrap()
                    n = int(np.asarray(d["qg1"]["tie"]).shape[1])
                    for t in range(n):
                        per_gen = []
                        for g in range(1, nq + 1):
                            q = d[f"qg{g}"]
                            per_gen.append({"seen": [decode(v)[:2] for v in np.asarray(q["seen"])[c, t]],
                                            "tie": int(np.asarray(q["tie"])[c, t]), "time": int(np.asarray(q["time"])[c, t])})
                            kk = np.asarray(q["key"])[c, t]
                            per_chain[c]["qkeys"].append(f"{int(kk[0])}:{int(kk[1])}")
                        recs.append(per_gen)
                per_chain[c]["quants"].append(recs)
    else:
        for c in range(chains):
            per_chain[c]["quants"] = [[] for _ in range(len(epochs))]
    # posterior accessor
    try:
        post = res.get_posterior_samples()
    except Exception:
        post = None
    for c in range(chains):
        if post is None:
            per_chain[c]["posterior"] = {"none": True, "tags": []}
        else:
            k0 = ([k for k in keys if k not in excluded] + [None])[0]
            k0 = k0 if k0 in post else None
            tags = []
            if k0 is not None:
                arr = np.asarray(post[k0])[c]
                tags = [_uniform_tag(arr[t])[:2] for t in range(arr.shape[0])]
            elif len(post):
                # no kernel key is tracked: one entry per stored posterior iteration of whatever is tracked
                n = int(np.asarray(post[sorted(post)[0]]).shape[1])
                tags = [[-7, -7]] * n
            per_chain[c]["posterior"] = {"none": False, "tags": tags, "keys": sorted(post.keys())}
    # tuning times as reported by the results object
    # (G5, not a listed property: without any tuned epoch get_tuning_times() raises "Trying to unwrap None" instead of
    # returning none - the tuning-info chain exists but is empty; treated as "no tuning times" here)
    try:
        tt = res.get_tuning_times()
        none = tt.is_none()
    except RuntimeError:
        none = True
    for c in range(chains):
        per_chain[c]["tuning_times"] = [] if none else [int(x) for x in np.asarray(tt.unwrap())[c]]
    # reading and summarising the results must not change what is stored (gs.Summary edits the dict it is handed)
    reread_ok = True
    if post is not None and len(post):
        snap = {k: np.asarray(v).copy() for k, v in post.items()}
        try:
            gs.Summary(res, deselected=[sorted(post)[0]], additional_chain={"__extra__": np.asarray(post[sorted(post)[0]])})
        except Exception:  # noqa: BLE001  (very short chains: the summary itself may refuse; the re-read below still counts)
            pass
        again = res.get_posterior_samples()
        reread_ok = sorted(again) == sorted(snap) and all(np.array_equal(np.asarray(again[k]), snap[k]) for k in snap)
    for c in range(chains):
        per_chain[c]["reread_ok"] = bool(reread_ok)
    return per_chain
