"""Drivers that run the real liesel code and record traces for the TLA+ trace specs."""
import logging
import warnings

import liesel  # noqa: F401  (installs its logger; we then silence it)

logging.getLogger("liesel").setLevel(logging.ERROR)
warnings.filterwarnings("ignore")
logging.getLogger("arviz").setLevel(logging.ERROR)
