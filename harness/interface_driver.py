"""Driver for Trace_Interface.tla (C03)."""
from __future__ import annotations

import copy
from dataclasses import dataclass, field
from typing import NamedTuple

import jax
import jax.numpy as jnp
import numpy as np

import liesel.goose as gs
import liesel.model as lsl
from vlib.core import fstr

from .graph_driver import Term
from .graph_driver import POISON
from .graph_driver import SPEC_KIND
from .logprob_driver import ProgramRun, gen_program, model_family


def _snap(run, state):
    """(effective values, outdated) of the plan nodes in a model *state* (dict name -> NodeState),
    read by loading it into a scratch copy of the model."""
    raw_val, raw_outd = [], []
    for i in range(1, run.n + 1):
        ns = state[f"n{i}"]
        # (a transient node stores nothing; for any other node None is a value like any other)
        transient = SPEC_KIND[run.plan[i - 1]["kind"]] in ("t", "p")
        raw_val.append("-" if ns.value is None and transient else str(ns.value))
        raw_outd.append(bool(ns.outdated))
    return raw_val, raw_outd


def _eff(run, scratch_model, state):
    scratch_model.state = state
    vals = [str(scratch_model.nodes[f"n{i}"].value) for i in range(1, run.n + 1)]
    outd = [bool(scratch_model.nodes[f"n{i}"].outdated) for i in range(1, run.n + 1)]
    return vals, outd


def _deep_equal_state(a, b):
    return a.keys() == b.keys() and all(
        str(a[k].value) == str(b[k].value) and bool(a[k].outdated) == bool(b[k].outdated) for k in a)


def _leaves(x):
    if isinstance(x, str):
        return [s for s in str(x).split("+") if s]
    return [] if x is None or x == 0 else [str(x)]


def _mk_iface(via):
    """The interface class under test: gs.LieselInterface, or its deprecated alias lsl.GooseModel."""
    if via == "goosemodel":
        import warnings

        def mk(model):
            with warnings.catch_warnings():
                warnings.simplefilter("ignore")
                return lsl.GooseModel(model)
        return mk
    return gs.LieselInterface


def failed_construction_trace():
    """Creating an interface fails (an attribute of a variable cannot be deep-copied): the user's model must be left as
    it was."""
    import threading
    import warnings
    ev = []
    for via in ("liesel", "goosemodel"):
        a = lsl.Var(Term("a0"), name="va")
        b = lsl.Var(lsl.Calc(lambda x: Term(f"f2({x})"), a), name="vb")
        b.info["lock"] = threading.Lock()
        m = lsl.GraphBuilder(to_float32=False).add(b).build_model()
        before = {k: (str(v.value), bool(v.outdated)) for k, v in m.state.items()}
        raised = False
        try:
            with warnings.catch_warnings():
                warnings.simplefilter("ignore")
                _mk_iface(via)(m)
        except Exception:  # noqa: BLE001
            raised = True
        after = {k: (str(v.value), bool(v.outdated)) for k, v in m.state.items()}
        ev.append({"ev": "failed_construction", "kind": via, "raised": raised, "user_unchanged": before == after})
    return {"hdr": {"n": 1, "kind": ["v"], "inp": [[]], "init": ["-"], "family": "failed_construction"}, "ev": ev}


def symbolic_trace(rng, ncalls=10, via="liesel"):
    plan = gen_program(rng, rng.randint(1, 3))
    unodes = {}
    if rng.random() < 0.2:     # a user-supplied node replaces one of the model's totals
        cand = [i + 1 for i, p in enumerate(plan) if p["kind"] in ("c", "t") and not p.get("wrapped")]
        if cand:
            unodes[rng.choice(["lp", "lp", "ll", "lpr"])] = rng.choice(cand)
    # now and then a plain value node is of a user-defined class whose state carries extra information
    if rng.random() < 0.3:
        plan.append({"kind": "v", "inp": [], "tagged": True})
        plan.append({"kind": rng.choice(["c", "t"]), "inp": [len(plan)]})
    # now and then a calculator reads the *value node* of a distributed variable directly (not through the variable)
    if rng.random() < 0.3:
        cand = [q["inp"][-1] for q in plan if q["kind"] in ("d", "e") and q.get("has_var")]
        cand = [plan[at - 1]["inp"][0] for at in cand if plan[plan[at - 1]["inp"][0] - 1]["kind"] == "v"]
        if cand:
            plan.append({"kind": rng.choice(["c", "t"]), "inp": [rng.choice(cand)]})
    run = ProgramRun(plan, unodes)
    user = run.model
    hdr = run.header()
    # the user may have switched auto-update off (after a full update) before creating the interface
    if rng.random() < 0.35:
        user.update()
        user.auto_update = False
    LI = _mk_iface(via)
    iface = LI(user)
    scratch = copy.deepcopy(user)          # only used by the driver to read states
    pool = []
    ev = []

    def add_state(st):
        rv, ro = _snap(run, st)
        pool.append(st)
        ev.append({"ev": "state", "raw_val": rv, "raw_outd": ro})

    add_state(user.state)
    vals = [i + 1 for i, p in enumerate(plan) if p["kind"] == "v"]
    last_pair = None
    for _ in range(ncalls):
        r = rng.random()
        if r < 0.6 and vals:
            if last_pair is not None and rng.random() < 0.35:
                si = last_pair          # the very same state object again, different keys
            else:
                si = rng.randrange(len(pool))
            st = pool[si]
            keys = rng.sample(vals, rng.randint(0, len(vals)))
            pos, pos_log = {}, []
            for k in keys:
                # (None is a legal value of a node - an optional input - and a value like any other for the interface)
                x = None if rng.random() < 0.12 else Term(rng.choice("abc") + str(rng.randint(0, 4)))
                name = f"n{k}"
                if k in run.vars and rng.random() < 0.5:
                    name = f"var{k}"
                pos[name] = x
                pos_log.append([k, str(x)])
            before = {k: v for k, v in st.items()}
            user_before = user.state
            if keys and rng.random() < 0.15:
                # an earlier call that fails half-way (a node function refuses the value): the next call must not
                # be affected by what it left behind in the interface
                bad = dict(pos)
                bad[next(iter(bad))] = Term(POISON)
                raised = False
                try:
                    iface.update_state(bad, st)
                except Exception:  # noqa: BLE001
                    raised = True
                ev.append({"ev": "failed_call", "st": si + 1, "raised": raised,
                           "arg_unchanged": _deep_equal_state(before, st),
                           "user_unchanged": _deep_equal_state(user_before, user.state)})
            ret = iface.update_state(pos, st)
            fresh = LI(user).update_state(pos, st)
            # direct assignment on a copy of the user's model holding the state
            direct_model = copy.deepcopy(user)
            direct_model.state = st
            direct_model.auto_update = False
            for k, x in pos_log:
                direct_model.nodes[f"n{k}"].value = None if x == "None" else Term(x)
            direct_model.update()
            rv, ro = _snap(run, ret)
            eff_val, eff_outd = _eff(run, scratch, ret)
            fresh_val, _ = _eff(run, scratch, fresh)
            direct_val = [str(direct_model.nodes[f"n{i}"].value) for i in range(1, run.n + 1)]
            extracted = iface.extract_position(list(pos), ret)
            extras_kept = all(getattr(ret[f"n{i}"], "extra", None) == getattr(st[f"n{i}"], "extra", None)
                              for i in range(1, run.n + 1))
            ev.append({"ev": "update_state", "st": si + 1, "pos": pos_log, "same_object_as_last": si == last_pair,
                       "extras_kept": bool(extras_kept),
                       "ret_val": eff_val, "ret_outd": eff_outd, "raw_val": rv, "raw_outd": ro,
                       "fresh_val": fresh_val, "direct_val": direct_val,
                       "extracted": [str(extracted[n]) for n in pos],
                       "arg_unchanged": _deep_equal_state(before, st), "user_unchanged": _deep_equal_state(user_before, user.state),
                       "lp": _leaves(iface.log_prob(ret)), "direct_lp": _leaves(direct_model.log_prob)})
            pool.append(ret)
            last_pair = si
        elif r < 0.75:
            si = rng.randrange(len(pool))
            keys = rng.sample(range(1, run.n + 1), rng.randint(1, min(3, run.n)))
            got = iface.extract_position([f"n{k}" for k in keys], pool[si])
            # (a key may name a transient node, e.g. the proxy of a variable or a TransientCalc: the state stores nothing
            # for it, the extracted quantity is its value in that state all the same)
            ev.append({"ev": "extract", "st": si + 1, "keys": keys,
                       "values": [str(got[f"n{k}"]) for k in keys]})
        elif vals:
            k = rng.choice(vals)
            user.nodes[f"n{k}"].value = None if rng.random() < 0.1 else Term("u" + str(rng.randint(0, 9)))
            ev.append({"ev": "user_assign", "n": k})
            if rng.random() < 0.5:
                user.update()
                add_state(user.state)
    return {"hdr": hdr, "ev": ev}


# ---- numeric ------------------------------------------------------------------------------------

def _vec(state, names):
    out = []
    for n in names:
        out += [fstr(np.float32(x)) for x in np.ravel(np.asarray(state[n].value, np.float32))]
    return out


def numeric_trace(rng, family, via="liesel"):
    model, recipe, draws, user = model_family(family)
    iface = _mk_iface(via)(model)
    # every node of the state (incl. the per-observation log-prob of each distribution node); a changed
    # shape changes the length of the flattened vector
    names = sorted(n for n, nd in model.nodes.items() if model.state[n].value is not None
                   and not n.endswith("_seed"))
    ev = []
    st = model.state
    for _ in range(3):
        pos = {p: f(rng) for p, f in draws.items() if rng.random() < 0.8} or {p: f(rng) for p, f in list(draws.items())[:1]}
        before = jax.tree_util.tree_map(lambda x: np.asarray(x).copy(), st)
        user_before = jax.tree_util.tree_map(lambda x: np.asarray(x).copy(), model.state)
        eager = iface.update_state(pos, st)
        eager2 = iface.update_state(pos, st)
        jitted = jax.jit(iface.update_state)(pos, st)
        batch = [{p: draws[p](rng) for p in pos} for _ in range(3)]
        stacked = {p: jnp.stack([b[p] for b in batch]) for p in pos}
        vm = jax.vmap(iface.update_state, in_axes=(0, None))(stacked, st)
        eager_batch = [iface.update_state(b, st) for b in batch]
        direct = copy.deepcopy(model)
        direct.state = st
        for p, v in pos.items():
            # a position key names a node first and a variable second
            if p in direct.nodes:
                direct.nodes[p].value = v
            else:
                direct.vars[p].value = v
        direct.update()
        same = lambda a, b: all(np.array_equal(np.asarray(x), np.asarray(y)) for x, y in zip(  # noqa: E731
            jax.tree_util.tree_leaves(a), jax.tree_util.tree_leaves(b)))
        extracted = iface.extract_position(list(pos), eager)
        # the result depends on the two arguments only - not on what the user's own model holds meanwhile
        keep = model.state
        for pname, fn in draws.items():
            tgt = model.nodes[pname] if pname in model.nodes else model.vars[pname]
            tgt.value = fn(rng)
        after_user_change = iface.update_state(pos, st)
        model.state = keep
        ev.append({"ev": "numeric", "family": family, "same_after_user_change": _vec(after_user_change, names) == _vec(eager, names),
                   "eager": _vec(eager, names), "eager_again": _vec(eager2, names), "jit": _vec(jitted, names),
                   "direct": _vec(direct.state, names),
                   "vmap": [_vec(jax.tree_util.tree_map(lambda x: x[i], vm), names) for i in range(3)],
                   "eager_batch": [_vec(s, names) for s in eager_batch],
                   "arg_unchanged": same(before, st), "user_unchanged": same(user_before, model.state),
                   "extracted": [fstr(np.float32(x)) for p in pos for x in np.ravel(np.asarray(extracted[p]))],
                   "pos_vals": [fstr(np.float32(x)) for p in pos for x in np.ravel(np.asarray(pos[p]))]})
        st = eager if rng.random() < 0.5 else st
    hdr = {"n": 1, "kind": ["v"], "inp": [[]], "init": ["-"], "family": family}
    return {"hdr": hdr, "ev": ev}


# ---- dict / dataclass / named tuple -------------------------------------------------------------

@dataclass
class Hyper:
    """A structured value held in one field of a model state (a nested dataclass)."""
    a: float
    b: float


def _desc(v):
    """Canonical description of a field value: type and contents (a nested dataclass must come back as what it is)."""
    if isinstance(v, Hyper):
        return f"Hyper(a={float(v.a)!r},b={float(v.b)!r})"
    if isinstance(v, dict):
        return "dict{" + ",".join(f"{k}:{_desc(x)}" for k, x in sorted(v.items())) + "}"
    if isinstance(v, (list, tuple)):
        return type(v).__name__ + "[" + ",".join(_desc(x) for x in v) + "]"
    return repr(float(v))


@dataclass
class DState:
    x: float
    loc: float
    scale: float
    hyper: object
    cache: float = field(init=False, default=0.0)     # not an init argument

    def __post_init__(self):
        self.cache = 100.0


from dataclasses import InitVar  # noqa: E402

from liesel.goose.pytree import register_dataclass_as_pytree  # noqa: E402


@register_dataclass_as_pytree
@dataclass
class PState:
    """A dataclass model state registered as a pytree, with a sufficient statistic that is no declared field (computed
    once in __post_init__ from an init-only argument)."""
    x: object
    loc: object
    data: InitVar[object] = None

    def __post_init__(self, data):
        self.ybar = jnp.mean(jnp.asarray(data)) if data is not None else jnp.asarray(0.0)


def dataclass_jit_trace(rng):
    """DataclassInterface under jit and vmap: the state that comes back holds what the eager call returns, including
    attributes that are not declared fields; log_prob of it can be evaluated."""
    def lp(s):
        return -0.5 * jnp.sum((s.x - s.loc) ** 2) - 0.5 * (s.ybar - s.loc) ** 2

    iface = gs.DataclassInterface(lp)
    ev = []
    for _ in range(3):
        st = PState(jnp.asarray([rng.uniform(-1, 1), rng.uniform(-1, 1)], jnp.float32), jnp.float32(rng.uniform(-1, 1)),
                    data=[rng.uniform(0, 2) for _ in range(4)])
        pos = {"loc": jnp.float32(rng.uniform(-2, 2))}
        e = {"ev": "dataclass_jit", "crash": ""}

        def desc(s):
            return {"x": [fstr(np.float32(v)) for v in np.ravel(np.asarray(s.x))], "loc": fstr(np.float32(s.loc)),
                    "ybar": fstr(np.float32(s.ybar)) if hasattr(s, "ybar") else "missing"}
        try:
            eager = iface.update_state(pos, st)
            e["eager"] = desc(eager)
            e["eager_lp"] = fstr(np.float32(iface.log_prob(eager)))
            jitted = jax.jit(iface.update_state)(pos, st)
            e["jit"] = desc(jitted)
            e["jit_lp"] = fstr(np.float32(jax.jit(lambda p, s: iface.log_prob(iface.update_state(p, s)))(pos, st)))
            batch = {"loc": jnp.stack([pos["loc"], pos["loc"] + 1.0])}
            vm = jax.vmap(iface.update_state, in_axes=(0, None))(batch, st)
            first = jax.tree_util.tree_map(lambda a: a[0], vm)
            e["vmap_first"] = desc(first)
        except Exception as ex:  # noqa: BLE001
            e["crash"] = f"{type(ex).__name__}: {ex}"[:200]
        ev.append(e)
    return {"hdr": {"n": 1, "kind": ["v"], "inp": [[]], "init": ["-"], "family": "dataclass_jit"}, "ev": ev}


class NState(NamedTuple):
    x: float
    loc: float
    scale: float
    hyper: object


def plain_trace(rng):
    def lp(s):
        g = (lambda k: s[k]) if isinstance(s, dict) else (lambda k: getattr(s, k))
        return -0.5 * ((g("x") - g("loc")) / g("scale")) ** 2

    ev = []
    for kind in ("dict", "dataclass", "namedtuple"):
        for _ in range(4):
            mk_hyper = lambda: rng.choice([Hyper(rng.uniform(0, 1), rng.uniform(1, 2)), (Hyper(0.5, rng.uniform(1, 2)), 3.0),
                                           {"h": Hyper(rng.uniform(0, 1), 1.0)}])
            vals = {"x": rng.uniform(-2, 2), "loc": rng.uniform(-1, 1), "scale": rng.uniform(0.5, 2), "hyper": mk_hyper()}
            if kind == "dict":
                iface, st = gs.DictInterface(lp), dict(vals)
                fields = ["x", "loc", "scale", "hyper"]
            elif kind == "dataclass":
                iface, st = gs.DataclassInterface(lp), DState(**vals)
                st.cache = rng.uniform(5, 9)              # current value differs from what __post_init__ sets
                fields = ["x", "loc", "scale", "hyper", "cache"]
            else:
                iface, st = gs.NamedTupleInterface(lp), NState(**vals)
                fields = ["x", "loc", "scale", "hyper"]
            get = (lambda s, k: s[k]) if kind == "dict" else (lambda s, k: getattr(s, k))
            before = {k: _desc(get(st, k)) for k in fields}
            keys = rng.sample(fields if kind != "namedtuple" else fields, rng.randint(1, len(fields)))
            pos = {k: mk_hyper() if k == "hyper" else rng.uniform(-3, 3) if k != "scale" else rng.uniform(0.5, 3) for k in keys}
            e = {"ev": "plain", "kind": kind, "keys": keys, "pos": {k: _desc(v) for k, v in pos.items()},
                 "before": before}
            try:
                ret = iface.update_state(pos, st)
                e["ret"] = {k: _desc(get(ret, k)) for k in fields}
                ext = iface.extract_position(keys, ret)
                e["extracted"] = {k: _desc(ext[k]) for k in keys}
                e["lp"] = repr(float(iface.log_prob(ret)))
                exp = dict(vals, **{k: v for k, v in pos.items()})
                # (a second extraction from the *input* state: fields the update did not touch)
                ext0 = iface.extract_position(fields, st)
                e["extracted_all"] = {k: _desc(ext0[k]) for k in fields}
                e["expected_lp"] = repr(float(-0.5 * ((exp["x"] - exp["loc"]) / exp["scale"]) ** 2))
            except Exception as ex:  # noqa: BLE001
                e["ret"] = {k: "raised:" + type(ex).__name__ for k in fields}
                e["extracted"] = {k: "raised" for k in keys}
                e["extracted_all"] = {k: "raised" for k in fields}
                e["lp"], e["expected_lp"] = "raised", "ok"
            e["after"] = {k: _desc(get(st, k)) for k in fields}
            ev.append(e)
    hdr = {"n": 1, "kind": ["v"], "inp": [[]], "init": ["-"], "family": "plain"}
    return {"hdr": hdr, "ev": ev}
