"""Driver for Trace_Gibbs.tla (C13)."""
from __future__ import annotations

import jax
import jax.numpy as jnp
import numpy as np
import scipy.stats
import tensorflow_probability.substrates.jax.bijectors as tfb
import tensorflow_probability.substrates.jax.distributions as tfd

import liesel.goose as gs
import liesel.model as lsl
from liesel.goose.epoch import EpochConfig, EpochType
from vlib.core import fstr

YD = jnp.asarray([0.1, 0.5, -0.2, 0.8, 1.1, 0.9, 1.6], jnp.float32)
EPOCH = EpochConfig(EpochType.POSTERIOR, 10, 1, None).to_state(1, 1)


def penalty(d, order):
    D = np.diff(np.eye(d), order, axis=0)
    return (D.T @ D).astype(np.float32)


def build_distreg(d, order, a, b, int_penalty=False):
    xs = np.linspace(-1, 1, 7)
    Bm = jnp.asarray(np.vander(xs, d), jnp.float32)
    K = penalty(d, order) if order > 0 else np.eye(d, dtype=np.float32) * 1.5     # order 0: full rank
    if int_penalty:      # D'D of an integer difference matrix, kept as an integer array
        K = np.rint(penalty(d, max(order, 1))).astype(np.int32)
    bld = lsl.DistRegBuilder()
    bld.add_response(YD, tfd.Normal)
    bld.add_predictor("loc", tfb.Identity)
    bld.add_predictor("scale", tfb.Exp)
    bld.add_np_smooth(Bm, jnp.asarray(K), a=a, b=b, predictor="loc")
    bld.add_p_smooth(jnp.ones((7, 1), jnp.float32), m=0.0, s=3.0, predictor="scale")
    return bld.build_model(), K


def _transition(kernel, interface, key, state):
    kernel.set_model(interface)
    ks = kernel.init_state(key, state)
    out = kernel.transition(key, ks, state, EPOCH)
    return out.model_state


def tau2_events(rng, d=4, order=2, stale_change=True, nkeys=4, int_current=False, int_penalty=False, beta_scale=1.0):
    a0, b0 = rng.choice([(1.0, 0.5), (2.0, 0.005), (0.5, 1.5)])
    model, K = build_distreg(d, order, a0, b0, int_penalty)
    group = model.groups()["loc_np0"]
    kernel = lsl.tau2_gibbs_kernel(group)
    interface = gs.LieselInterface(model)
    evs = []
    for step in range(3):
        # (beta_scale: coefficients on a very large or very small scale - the full conditional then sits far out)
        beta = np.asarray([rng.uniform(-1, 1) * beta_scale for _ in range(d)], np.float32)
        model.vars["loc_np0_beta"].value = jnp.asarray(beta)
        a, b = a0, b0
        Kcur = K
        if stale_change and step > 0:
            # hyper-parameters / penalty changed *after* the kernel was built
            a, b = float(np.float32(a0 * rng.uniform(1.5, 3.0))), float(np.float32(b0 * rng.uniform(1.5, 4.0)))
            model.vars["loc_np0_a"].value = jnp.float32(a)
            model.vars["loc_np0_b"].value = jnp.float32(b)
            if step == 2:
                Kcur = (K * 2) if int_penalty else (K * np.float32(2.0)).astype(np.float32)
                model.vars["loc_np0_K"].value = jnp.asarray(Kcur)
        if int_current:
            model.vars["loc_np0_tau2"].value = 2        # an integer-typed current value
        model.update()
        state = model.state
        rank = float(np.linalg.matrix_rank(np.asarray(Kcur, np.float64)))
        q = float(np.asarray(beta, np.float64) @ np.asarray(Kcur, np.float64) @ np.asarray(beta, np.float64))
        ag, bg = a + rank / 2.0, b + q / 2.0
        grid = [0.3, 1.1, 4.0]
        lps = [float(interface.log_prob(interface.update_state({"loc_np0_tau2": jnp.float32(t)}, state))) for t in grid]
        # scaled coefficients -> scaled scale parameter, same key
        c = 1.7
        model.vars["loc_np0_beta"].value = jnp.asarray(beta * np.float32(c))
        model.update()
        state_scaled = model.state
        q_scaled = float((np.asarray(beta * np.float32(c), np.float64)) @ np.asarray(Kcur, np.float64) @ np.asarray(beta * np.float32(c), np.float64))
        for _ in range(nkeys):
            key = jax.random.PRNGKey(rng.randrange(1 << 30))
            draw = float(interface.extract_position(["loc_np0_tau2"], _transition(kernel, interface, key, state))["loc_np0_tau2"])
            draw_sc = float(interface.extract_position(["loc_np0_tau2"], _transition(kernel, interface, key, state_scaled))["loc_np0_tau2"])
            gam = float(jax.random.gamma(key, jnp.float32(ag)))
            replay_ok = abs(draw * gam - bg) <= 1e-4 * abs(bg)
            guard = False
            if not replay_ok:
                guard = tau2_guard(kernel, interface, state, ag, bg, rng)
            evs.append({"ev": "tau2", "a": fstr(a), "b": fstr(b), "rank": fstr(rank), "q": fstr(q),
                        "q_scaled": fstr(q_scaled), "grid": [fstr(t) for t in grid], "model_lp": [fstr(x) for x in lps],
                        "draw": fstr(draw), "draw_scaled": fstr(draw_sc), "gamma_replay": fstr(gam),
                        "guard_rejects": bool(guard), "d": d, "order": order})
    return evs


def tau2_guard(kernel, interface, state, ag, bg, rng, n=5000, pkey="loc_np0_tau2"):
    """Distribution-free guard: KS test of n draws (fresh keys) against IG(ag, bg); rejects only
    below p = 1e-9.  Can only suppress an alarm."""
    keys = jax.random.split(jax.random.PRNGKey(rng.randrange(1 << 30)), n)
    f = jax.jit(jax.vmap(lambda k: interface.extract_position(
        [pkey], _transition(kernel, interface, k, state))[pkey]))
    draws = np.asarray(f(keys), np.float64)
    p = scipy.stats.kstest(draws, scipy.stats.invgamma(a=ag, scale=bg).cdf).pvalue
    return p < 1e-9


def tau2_handmade_events(rng, transient=False, nkeys=3):
    """A smooth put together by hand (no DistRegBuilder): the group handed to tau2_gibbs_kernel holds a penalty matrix that
    is computed from a weight vector - by a caching calculator or on the fly (transient value node) - and the sampled
    state holds *other* weights (and coefficients) than the user's model object.  A kernel that refuses the transient
    configuration makes no draw (no event); a draw must be one from the full conditional of the state it was given."""
    from liesel.distributions import MultivariateNormalDegenerate

    p = 5
    D = np.diff(np.eye(p), n=1, axis=0).astype(np.float32)
    fK = lambda w: D.T @ (w[:, None] * D)  # noqa: E731
    w = lsl.Var(np.ones(p - 1, np.float32), name="w")
    K = lsl.Var((lsl.TransientCalc if transient else lsl.Calc)(fK, w), name="K")
    rank = lsl.Var(np.float32(p - 1), name="rank")
    a0, b0 = rng.choice([(2.0, 1.5), (1.0, 0.5)])
    a, b = lsl.Var(np.float32(a0), name="a"), lsl.Var(np.float32(b0), name="b")
    tau2 = lsl.param(np.float32(1.0), lsl.Dist(tfd.InverseGamma, concentration=a, scale=b), name="tau2")
    beta = lsl.param((np.linspace(-1.0, 1.0, p) ** 2).astype(np.float32),
                     lsl.Dist(MultivariateNormalDegenerate.from_penalty, loc=0.0, var=tau2, pen=K, rank=rank), name="beta")
    group = lsl.Group("s", tau2=tau2, a=a, b=b, rank=rank, beta=beta, K=K)
    model = lsl.GraphBuilder().add(beta).build_model()
    interface = gs.LieselInterface(model)
    kernel = lsl.tau2_gibbs_kernel(group)
    evs = []
    for step in range(2):
        wv = np.asarray([rng.uniform(0.5, 3.0) for _ in range(p - 1)], np.float32)
        bv = np.asarray([rng.uniform(-1, 1) for _ in range(p)], np.float32)
        # (the state is made through the interface: the user's model object keeps its own values)
        state = interface.update_state({"w": jnp.asarray(wv), "beta": jnp.asarray(bv)}, model.state)
        state_scaled = interface.update_state({"w": jnp.asarray(wv), "beta": jnp.asarray(bv * np.float32(1.7))}, model.state)
        Kcur = np.asarray(fK(wv), np.float64)
        q = float(np.asarray(bv, np.float64) @ Kcur @ np.asarray(bv, np.float64))
        bs = np.asarray(bv * np.float32(1.7), np.float64)
        q_scaled = float(bs @ Kcur @ bs)
        ag, bg = a0 + (p - 1) / 2.0, b0 + q / 2.0
        grid = [0.3, 1.1, 4.0]
        lps = [float(interface.log_prob(interface.update_state({"tau2": jnp.float32(t)}, state))) for t in grid]
        for _ in range(nkeys):
            key = jax.random.PRNGKey(rng.randrange(1 << 30))
            try:
                draw = float(interface.extract_position(["tau2"], _transition(kernel, interface, key, state))["tau2"])
                draw_sc = float(interface.extract_position(["tau2"], _transition(kernel, interface, key, state_scaled))["tau2"])
            except Exception:  # noqa: BLE001  (no draw at all: nothing to judge)
                continue
            gam = float(jax.random.gamma(key, jnp.float32(ag)))
            replay_ok = abs(draw * gam - bg) <= 1e-4 * abs(bg)
            guard = False
            if not replay_ok:
                guard = tau2_guard(kernel, interface, state, ag, bg, rng, pkey="tau2")
            evs.append({"ev": "tau2", "a": fstr(a0), "b": fstr(b0), "rank": fstr(float(p - 1)), "q": fstr(q),
                        "q_scaled": fstr(q_scaled), "grid": [fstr(t) for t in grid], "model_lp": [fstr(x) for x in lps],
                        "draw": fstr(draw), "draw_scaled": fstr(draw_sc), "gamma_replay": fstr(gam),
                        "guard_rejects": bool(guard), "d": p, "order": 1})
    return evs


# ---- finite discrete ---------------------------------------------------------------------------------

def discrete_models(kind):
    if kind == "prior_only":
        grid = lsl.Var(jnp.asarray([0.0, 1.0, 2.0]), name="value_grid")
        z = lsl.Var(jnp.asarray(0.0), lsl.Dist(tfd.FiniteDiscrete, outcomes=grid, probs=jnp.asarray([0.1, 0.2, 0.7])), name="z")
        return lsl.GraphBuilder().add(z).build_model(), None, [0.0, 1.0, 2.0]
    if kind == "bernoulli_direct":
        z = lsl.Var(jnp.asarray(1), lsl.Dist(tfd.Bernoulli, probs=lsl.Value(0.3)), name="z")
        y = lsl.obs(jnp.asarray([0.4, 1.2, 0.9], jnp.float32),
                    lsl.Dist(tfd.Normal, loc=lsl.Calc(lambda z: 0.2 + 1.0 * z, z), scale=0.8), name="y")
        return lsl.GraphBuilder().add(y).build_model(), [0, 1], [0, 1]
    if kind == "bernoulli_outcomes_reversed":
        # the caller lists the outcomes explicitly, in an order that is not increasing
        z = lsl.Var(jnp.asarray(1), lsl.Dist(tfd.Bernoulli, probs=lsl.Value(0.3)), name="z")
        y = lsl.obs(jnp.asarray([0.4, 1.2, 0.9], jnp.float32),
                    lsl.Dist(tfd.Normal, loc=lsl.Calc(lambda z: 0.2 + 1.0 * z, z), scale=0.8), name="y")
        return lsl.GraphBuilder().add(y).build_model(), [1, 0], [1, 0]
    if kind == "finite_outcomes_unsorted":
        grid = lsl.Var(jnp.asarray([0.0, 1.0, 2.0]), name="value_grid")
        z = lsl.Var(jnp.asarray(1.0), lsl.Dist(tfd.FiniteDiscrete, outcomes=grid, probs=jnp.asarray([0.2, 0.3, 0.5])), name="z")
        y = lsl.obs(jnp.asarray([0.7, 1.2, 0.6], jnp.float32), lsl.Dist(tfd.Normal, loc=lsl.Calc(lambda z: 0.5 * z, z), scale=0.8),
                    name="y")
        return lsl.GraphBuilder().add(y).build_model(), [2.0, 0.0, 1.0], [2.0, 0.0, 1.0]
    if kind == "finite_auto_name_clash":
        # the sampled variable is called "n0" - the name the graph builder gives to the first unnamed node (here the
        # constant scale of the response)
        z = lsl.Var(jnp.asarray(1.0), lsl.Dist(tfd.FiniteDiscrete, outcomes=jnp.asarray([1.0, 2.0, 3.0]),
                                               probs=jnp.asarray([0.1, 0.2, 0.7])), name="n0")
        y = lsl.obs(jnp.asarray([2.5, 3.5], jnp.float32), lsl.Dist(tfd.Normal, loc=z, scale=1.0), name="y")
        return lsl.GraphBuilder().add(y).build_model(), None, [1.0, 2.0, 3.0]
    if kind in ("finite_via_named_var", "finite_grid_in_state"):
        grid = lsl.Var(jnp.asarray([-1.0, 0.5, 2.0]), name="value_grid")
        z = lsl.Var(jnp.asarray(0.5), lsl.Dist(tfd.FiniteDiscrete, outcomes=grid, probs=jnp.asarray([0.5, 0.3, 0.2])), name="z")
        mu = lsl.Var(lsl.Calc(lambda z: 0.3 * z, z), name="mu")          # named deterministic variable in between
        y = lsl.obs(jnp.asarray([0.7, 0.2, 0.6, 0.9], jnp.float32), lsl.Dist(tfd.Normal, loc=mu, scale=0.5), name="y")
        return lsl.GraphBuilder().add(y).build_model(), None, [-1.0, 0.5, 2.0]
    if kind == "bernoulli_two_children":
        z = lsl.Var(jnp.asarray(0), lsl.Dist(tfd.Bernoulli, probs=lsl.Value(0.6)), name="z")
        m1 = lsl.Var(lsl.Calc(lambda z: 1.0 - z, z), name="m1")
        y1 = lsl.obs(jnp.asarray([0.1, 0.3], jnp.float32), lsl.Dist(tfd.Normal, loc=m1, scale=1.0), name="y1")
        y2 = lsl.obs(jnp.asarray([2.0], jnp.float32), lsl.Dist(tfd.Poisson, rate=lsl.Calc(lambda m: 1.0 + 2.0 * m, m1)), name="y2")
        return lsl.GraphBuilder().add(y1, y2).build_model(), [0, 1], [0, 1]
    if kind in ("finite_start_outside", "finite_zero_prior"):
        # the current value has zero density: outside the outcome set, or an outcome of prior probability 0
        grid = lsl.Var(jnp.asarray([0.0, 1.0, 2.0]), name="value_grid")
        probs = [0.2, 0.3, 0.5] if kind == "finite_start_outside" else [0.0, 0.4, 0.6]
        start = -1.0 if kind == "finite_start_outside" else 0.0
        z = lsl.Var(jnp.asarray(start), lsl.Dist(tfd.FiniteDiscrete, outcomes=grid, probs=jnp.asarray(probs)), name="z")
        y = lsl.obs(jnp.asarray([0.7, 1.2, 0.6], jnp.float32), lsl.Dist(tfd.Normal, loc=lsl.Calc(lambda z: 0.5 * z, z), scale=0.8),
                    name="y")
        return lsl.GraphBuilder().add(y).build_model(), None, [0.0, 1.0, 2.0]
    if kind == "residual_weak_dist":
        # the discrete variable enters through the *evaluation point* of a distribution: a weak variable (residual)
        # that carries the likelihood
        z = lsl.Var(jnp.asarray(1), lsl.Dist(tfd.Bernoulli, probs=lsl.Value(0.4)), name="z")
        yd = lsl.Var(jnp.asarray([0.9, 1.4, 0.3], jnp.float32), name="ydata")
        resid = lsl.Var(lsl.Calc(lambda y, z: y - 1.2 * z, yd, z), lsl.Dist(tfd.Normal, loc=0.0, scale=0.7), name="resid")
        return lsl.GraphBuilder().add(resid).build_model(), [0, 1], [0, 1]
    if kind == "bernoulli_tempered":
        # the model's joint density is a user-supplied (tempered) log-prob node
        z = lsl.Var(jnp.asarray(1), lsl.Dist(tfd.Bernoulli, probs=lsl.Value(0.3)), name="z")
        y = lsl.obs(jnp.asarray([0.4, 1.2, 0.9], jnp.float32),
                    lsl.Dist(tfd.Normal, loc=lsl.Calc(lambda z: 0.2 + 1.0 * z, z), scale=0.8), name="y")
        gb = lsl.GraphBuilder().add(y)
        gb.log_prob_node = lsl.Calc(lambda ll, lp: 0.25 * jnp.sum(ll) + jnp.sum(lp), y.dist_node, z.dist_node, _name="tempered")
        return gb.build_model(), [0, 1], [0, 1]
    if kind == "finite_int_current":
        # the current value is integer-typed, the outcomes are not integers
        grid = lsl.Var(jnp.asarray([0.5, 1.0, 1.5]), name="value_grid")
        z = lsl.Var(jnp.asarray(1), lsl.Dist(tfd.FiniteDiscrete, outcomes=grid, probs=jnp.asarray([0.2, 0.3, 0.5])), name="z")
        y = lsl.obs(jnp.asarray([0.7, 0.2, 0.6], jnp.float32), lsl.Dist(tfd.Normal, loc=lsl.Calc(lambda z: 1.0 * z, z), scale=0.7),
                    name="y")
        return lsl.GraphBuilder().add(y).build_model(), None, [0.5, 1.0, 1.5]
    raise KeyError(kind)


def discrete_events(rng, kind, nkeys=64):
    model, outcomes_arg, outcomes = discrete_models(kind)
    vname = "n0" if kind == "finite_auto_name_clash" else "z"
    kernel = gs.finite_discrete_gibbs_kernel(vname, model, outcomes=outcomes_arg) if hasattr(gs, "finite_discrete_gibbs_kernel") \
        else lsl.goose.finite_discrete_gibbs_kernel(vname, model, outcomes=outcomes_arg)
    interface = gs.LieselInterface(model)
    state = model.state
    dtype = np.float32 if kind == "finite_int_current" else np.asarray(model.vars[vname].value).dtype
    # the value of the *variable* is read from (and, for the logits, written to) its value node by that node's name
    vnode = model.vars[vname].value_node.name

    def block(state, outcomes=outcomes):
        logits = [float(interface.log_prob(interface.update_state({vnode: jnp.asarray(o, dtype)}, state))) for o in outcomes]
        keys = [jax.random.PRNGKey(rng.randrange(1 << 30)) for _ in range(nkeys)]
        draws = [float(st[vnode].value) for st in (_transition(kernel, interface, k, state) for k in keys)]
        replay = [float(outcomes[int(jax.random.categorical(k, jnp.asarray(logits, jnp.float32)))]) for k in keys]
        guard = False
        if draws != replay:
            probs = np.exp(np.asarray(logits) - np.max(logits))
            probs /= probs.sum()

            def rejects(d):
                counts = np.array([(d == o).sum() for o in outcomes])
                exp = probs * len(d)
                keep = exp > 0
                chi = ((counts[keep] - exp[keep]) ** 2 / exp[keep]).sum() + (np.inf if counts[~keep].sum() else 0)
                return scipy.stats.chi2.sf(chi, max(1, keep.sum() - 1)) < 1e-9
            ks = jax.random.split(jax.random.PRNGKey(rng.randrange(1 << 30)), 4000)
            f = jax.jit(jax.vmap(lambda k: _transition(kernel, interface, k, state)[vnode].value))
            # many fresh draws (jitted and batched), or the eager draws observed above: either sample refutes the law
            guard = bool(rejects(np.asarray(f(ks), np.float64)) or rejects(np.asarray(draws, np.float64)))
        return {"ev": "discrete", "kind": kind, "outcomes": [fstr(o) for o in outcomes], "logits": [fstr(x) for x in logits],
                "draws": [fstr(x) for x in draws], "draws_replay": [fstr(x) for x in replay], "guard_rejects": bool(guard)}

    evs = [block(state)]
    if kind == "finite_grid_in_state":
        # the outcome grid is a variable of the model: the state that is sampled holds another grid than the model did
        # when the kernel was made (the outcomes were not given, they are those of the prior)
        model.vars["value_grid"].value = jnp.asarray([-1.0, 0.5, 3.0])
        model.update()
        evs.append(block(model.state, [-1.0, 0.5, 3.0]))
        return evs
    # the same kernel object, called again (eagerly) on another model state: other data behind the sampled variable
    for dname in ("y", "y1", "ydata"):
        if dname in model.vars and not model.vars[dname].weak:
            yv = np.asarray(model.vars[dname].value, np.float32)
            model.vars[dname].value = jnp.asarray(yv * np.float32(0.25) - np.float32(0.8))
            model.update()
            evs.append(block(model.state))
            break
    return evs
