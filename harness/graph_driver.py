"""Driver for Trace_LieselGraph.tla (C01): builds real liesel Models from random
construction plans in the symbolic regime (node functions build term strings), applies
random operation histories and logs values / outdated flags / evaluated nodes."""
from __future__ import annotations

import liesel.model as lsl


POISON = "!"      # a value every node function refuses (raises) - exception paths of the update sweep


class Poisoned(Exception):
    pass


def _keystr(k):
    import numpy as np
    a = np.asarray(k).reshape(-1)
    return "key" + "_".join(str(int(x)) for x in a)


def _check(xs):
    if any(str(x) == POISON for x in xs):
        raise Poisoned("poisoned argument")


CALLS = {}        # run id -> list of evaluated nodes; node functions refer to it by id only, so that a model written
NONE_STR = {}     # run id -> how a node function spells an argument that is None ("-" = the spec's None constant)
_RID = [0]        # with save_model and read back (a deep copy of every function) still reports to its run


class Term(str):
    """String term that survives liesel's _reduced_sum (0 + term)."""

    def __radd__(self, other):
        return self if other == 0 else Term(f"{other}+{self}")

    def __add__(self, other):
        return Term(f"{str(self)}+{other}")


class MutTerm:
    """A mutable container as a node value (like a NumPy array): modified in place and assigned again."""

    def __init__(self, s):
        self.s = s

    def set(self, s):
        self.s = s

    def __str__(self):
        return self.s


def inplace_traces():
    """Value nodes that hold a mutable container: the container is modified in place and the *same object* is assigned
    again (directly and through the variable); the assignment must flag and - with auto-update on - recompute like any
    other.  (No state is saved in these traces: a saved state would share the container.)"""
    out = []
    for auto in (True, False):
        plan = [{"kind": "v", "inp": [], "wrapped": True}, {"kind": "p", "inp": [1]}, {"kind": "v", "inp": []},
                {"kind": "c", "inp": [2, 3]}, {"kind": "t", "inp": [4]}, {"kind": "c", "inp": [5]}]
        run = GraphRun(plan)
        for i in (1, 3):
            run.model.nodes[run._name(i)].value = MutTerm(f"m{i}")
        run.model.update()
        run.calls.clear()
        hdr = run.header()
        ev = [run.op({"ev": "set_auto", "b": auto})]
        for step, (i, via_var) in enumerate(((1, False), (3, False), (1, True), (3, False))):
            buf = run.vars[i].value if via_var else run.model.nodes[run._name(i)].value
            buf.set(f"q{step}")
            if via_var:
                run.vars[i].value = buf
            else:
                run.model.nodes[run._name(i)].value = buf
            e = {"ev": "assign", "n": i, "x": f"q{step}", "via_var": via_var, "raised": False, "inplace": True}
            e.update(run.snapshot())
            ev.append(e)
            if not auto and step % 2 == 1:
                ev.append(run.op({"ev": "update_all"}))
        ev.append(run.op({"ev": "update_all"}))
        run.close()
        hdr["ops"] = []
        out.append({"hdr": hdr, "ev": ev})
    return out


def gen_plan(rng, nmax=8, seeded_ok=False):
    """Random DAG in topological order.  Node kinds in the plan:
    v  value, c Calc, t TransientCalc, p proxy (VarValue of a Var), d Dist, e TransientDist.
    A Var with a strong value contributes a 'v' node immediately followed by its 'p' node;
    a weak Var wraps a Calc ('c' followed by 'p')."""
    n = rng.randint(3, nmax)
    plan = []  # list of dicts: kind, inp (1-based ids), var (bool: this v/c is wrapped by a Var)

    def usable():  # nodes other nodes may take as inputs (a Var-wrapped node is referenced via its proxy)
        return [i + 1 for i, p in enumerate(plan) if not p.get("wrapped") and not p.get("seed_for")]

    while len(plan) < n:
        u = usable()
        r = rng.random()
        if not u or r < 0.3:
            if rng.random() < 0.5 and len(plan) + 2 <= n:
                plan.append({"kind": "v", "inp": [], "wrapped": True})
                plan.append({"kind": "p", "inp": [len(plan)]})
            else:
                plan.append({"kind": "v", "inp": []})
        else:
            k = min(len(u), rng.choice([1, 1, 2, 2, 3]))
            ins = rng.sample(u, k)
            kind = rng.choice(["c", "c", "t", "d", "e"])
            if kind in ("d", "e"):
                # `at` (the last input) must not be upstream of a parameter, otherwise the model's
                # simulation graph (dist -> at edge reversed) has a cycle and cannot be built
                ins = sorted(ins)
                if not _sim_acyclic(plan + [{"kind": kind, "inp": ins}]):
                    continue
            if kind == "c" and seeded_ok and rng.random() < 0.45 and len(plan) + 2 <= n:
                # a calculator that needs a seed: the model adds a seed value node as its (keyword) input
                plan.append({"kind": "v", "inp": [], "seed_for": len(plan) + 2})
                plan.append({"kind": "c", "inp": ins + [len(plan)], "seeded": True})
            elif kind == "c" and rng.random() < 0.3 and len(plan) + 2 <= n:
                plan.append({"kind": "c", "inp": ins, "wrapped": True})
                plan.append({"kind": "p", "inp": [len(plan)]})
            else:
                plan.append({"kind": kind, "inp": ins})
    # now and then a variable carries the *name of an unrelated node* (the two namespaces are separate; names given
    # to update() and position keys mean the node first)
    wrapped = [i + 1 for i, p in enumerate(plan) if p.get("wrapped")]
    others = [i + 1 for i, p in enumerate(plan) if p["kind"] in ("c", "t", "d", "e") and not p.get("wrapped")]
    if wrapped and others and rng.random() < 0.25:
        w = rng.choice(wrapped)
        cand = [o for o in others if o not in (w, w + 1)]
        if cand:
            plan[w - 1]["var_name"] = f"n{rng.choice(cand)}"
    # now and then a value node is not created by the user but by the library: the argument is given as a literal and
    # wrapped into an anonymous Value node (an ordinary node of the model: it can be assigned, saved, restored)
    for i, p in enumerate(plan, start=1):
        if p["kind"] != "v" or p.get("wrapped") or p.get("seed_for"):
            continue
        users = [q for q in plan if i in q["inp"]]
        if len(users) == 1 and users[0]["kind"] in ("c", "t", "d", "e") and users[0]["inp"].count(i) == 1 \
                and not (users[0]["kind"] in ("d", "e") and users[0]["inp"][-1] == i) and rng.random() < 0.35:
            p["literal"] = True
    return plan


def _sim_acyclic(plan):
    import networkx as nx

    g = nx.DiGraph()
    for i, p in enumerate(plan, start=1):
        g.add_node(i)
        for j in p["inp"]:
            if p["kind"] in ("d", "e") and j == p["inp"][-1]:
                g.add_edge(i, j)
            else:
                g.add_edge(j, i)
    return nx.is_directed_acyclic_graph(g)


# (q: the legacy PIT calculator - a caching node whose only input is a distribution node)
SPEC_KIND = {"v": "v", "c": "c", "t": "t", "p": "p", "d": "c", "e": "t", "q": "c"}


class GraphRun:
    def _name(self, i):
        """Model node name of plan node i (the seed value node of a seeded calculator is created by the model)."""
        p = self.plan[i - 1]
        return f"_model_n{p['seed_for']}_seed" if p.get("seed_for") else f"n{i}"

    def __init__(self, plan, atoms=("a0", "b0")):
        self.plan = plan
        self.n = len(plan)
        _RID[0] += 1
        self.rid = _RID[0]
        self.calls = CALLS[self.rid] = []
        NONE_STR[self.rid] = self.none_str
        self.nodes = {}
        self.vars = {}
        self.pits = {}
        init = {}
        for i, p in enumerate(plan, start=1):
            name = f"n{i}"
            if p.get("seed_for"):
                continue          # created by the model for the seeded calculator that follows
            if p["kind"] == "v":
                init[i] = Term(atoms[i % len(atoms)])
                if p.get("literal"):
                    continue      # handed to its user as a plain value; the library wraps it into a Value node
                if p.get("wrapped"):
                    var = lsl.Var(init[i], name=p.get("var_name", f"var{i}"))
                    var.value_node.name = name
                    self.vars[i] = var
                    self.nodes[i] = var.value_node
                else:
                    self.nodes[i] = lsl.Value(init[i], _name=name)
            elif p["kind"] == "p":
                src = p["inp"][0]
                var = self.vars.get(src)
                if var is None:  # weak var around a Calc
                    var = lsl.Var(self.nodes[src], name=self.plan[src - 1].get("var_name", f"var{src}"))
                    self.vars[src] = var
                var.var_value_node.name = name
                self.nodes[i] = var.var_value_node
            else:
                inp = [j for j in p["inp"] if not self.plan[j - 1].get("seed_for")]
                ins = [init[j] if self.plan[j - 1].get("literal") else self.nodes[j] for j in inp]
                fn = self._fn(i, p["kind"], seeded=bool(p.get("seeded")))
                if p["kind"] == "q":
                    from liesel.model.legacy import PITCalc
                    self.pits[p["inp"][0]] = i
                    self.nodes[i] = PITCalc(ins[0], _name=name)
                elif p["kind"] == "c":
                    self.nodes[i] = lsl.Calc(fn, *ins, _name=name, update_on_init=False, _needs_seed=bool(p.get("seeded")))
                elif p["kind"] == "t":
                    self.nodes[i] = lsl.TransientCalc(fn, *ins, _name=name, update_on_init=False)
                else:
                    cls = lsl.Dist if p["kind"] == "d" else lsl.TransientDist
                    node = cls(self._dist(i, p["kind"]), *ins[:-1], _name=name)
                    node.at = ins[-1]
                    self.nodes[i] = node
                for k, j in enumerate(inp):
                    if self.plan[j - 1].get("literal"):
                        self.nodes[j] = self.nodes[i].inputs[k]
                        self.nodes[j].name = f"n{j}"
        gb = lsl.GraphBuilder(to_float32=False)
        gb.add(*self.nodes.values(), *self.vars.values())
        self.model = gb.build_model()
        self.calls.clear()
        self.slots = []

    none_str = "-"

    def close(self):
        CALLS.pop(getattr(self, "rid", None), None)
        NONE_STR.pop(getattr(self, "rid", None), None)

    def _rid(self):
        """Run id under which the node functions report their evaluations (subclasses with their own __init__ keep a
        plain `calls` list: it is registered on first use)."""
        if not hasattr(self, "rid"):
            _RID[0] += 1
            self.rid = _RID[0]
            CALLS[self.rid] = self.calls
            NONE_STR[self.rid] = self.none_str
        return self.rid

    def _fn(self, i, kind, seeded=False):
        rid = self._rid()

        def fn(*xs, seed=None):
            _check(xs)
            if kind == "c":
                CALLS[rid].append(i)
            args = [NONE_STR[rid] if x is None else str(x) for x in xs] + ([_keystr(seed)] if seeded else [])
            return Term(f"f{i}(" + ",".join(args) + ")")
        return fn

    def _dist(self, i, kind):
        rid = self._rid()
        pits = self.__dict__.setdefault("pits", {})

        class FakeDist:
            def __init__(self, *params):
                self.params = params

            def log_prob(self, x):
                _check((*self.params, x))
                if kind == "d":
                    CALLS[rid].append(i)
                return Term(f"f{i}(" + ",".join(NONE_STR[rid] if v is None else str(v) for v in (*self.params, x)) + ")")

            def cdf(self, x):
                # read by the PIT calculator on top of this distribution node: a function of what the node evaluates to
                _check((*self.params, x))
                pid = pits[i]
                CALLS[rid].append(pid)
                inner = f"f{i}(" + ",".join(NONE_STR[rid] if v is None else str(v) for v in (*self.params, x)) + ")"
                return Term(f"f{pid}({inner})")
        return FakeDist

    # ---- observation ---------------------------------------------------------------
    def snapshot(self):
        calls = list(self.calls)          # reading transient values below must not count

        def read(i):
            try:
                v = self.model.nodes[self._name(i)].value
                return _keystr(v) if self.plan[i - 1].get("seed_for") else "-" if v is None else str(v)
            except Exception:  # noqa: BLE001  (a transient node over a poisoned input raises when read)
                return "ERR"
        val = [read(i) for i in range(1, self.n + 1)]
        outd = [bool(self.model.nodes[self._name(i)].outdated) for i in range(1, self.n + 1)]
        self.calls.clear()
        return {"val": val, "outd": outd, "evald": calls}

    HIDDEN = ("_model_log_lik", "_model_log_prior", "_model_log_prob")

    def header(self, hidden=False):
        """hidden: the model's own total nodes are appended to the graph (ids n+1..n+3, caching, never observed)
        and the model's real sweep order is logged - needed where a sweep can be aborted by an exception (only for
        plans whose distribution nodes are free-standing: log_lik / log_prior then have no inputs)."""
        snap = self.snapshot()
        init = [v if SPEC_KIND[p["kind"]] not in ("t", "p") else "-" for v, p in zip(snap["val"], self.plan)]
        self.has_seeded = any(p.get("seeded") for p in self.plan)
        hdr = {"n": self.n, "kind": [SPEC_KIND[p["kind"]] for p in self.plan],
               "inp": [p["inp"] for p in self.plan], "init": init,
               "plan_kinds": [p["kind"] for p in self.plan], "plan_full": self.plan}
        self.hidden = hidden
        if hidden:
            dists = [i for i, p in enumerate(self.plan, start=1) if p["kind"] in ("d", "e")]
            ids = {self._name(i): i for i in range(1, self.n + 1)}
            ids.update({nm: self.n + 1 + k for k, nm in enumerate(self.HIDDEN)})
            assert all(not self.model.nodes[h].inputs for h in self.HIDDEN[:2])
            hdr.update({"n": self.n + 3, "nobs": self.n, "kind": hdr["kind"] + ["c", "c", "c"],
                        "inp": hdr["inp"] + [[], [], dists],
                        "init": init + [str(self.model.nodes[h].value) for h in self.HIDDEN],
                        "order": [ids[nd.name] for nd in self.model._sorted_nodes if nd.name in ids]})
        return hdr

    # ---- operations ------------------------------------------------------------------
    def op(self, o):
        m = self.model
        if o["ev"] == "rebuild" and any(str(m.nodes[self._name(i)].value) == POISON
                                        for i, p in enumerate(self.plan, start=1) if p["kind"] == "v"):
            # a poisoned value is around (e.g. restored from a saved state): building a model would fail half-way and
            # leave no model to go on with - do a plain full update instead
            o = {"ev": "update_all"}
        ev = dict(o)
        ev["raised"] = False
        try:
            if o["ev"] == "assign":
                i = o["n"]
                if i in self.vars and o.get("via_var"):
                    self.vars[i].value = Term(o["x"])
                else:
                    m.nodes[self._name(i)].value = Term(o["x"])
            elif o["ev"] == "set_auto":
                m.auto_update = o["b"]
            elif o["ev"] == "update_all":
                m.update()
            elif o["ev"] == "update_targets":
                m.update(*[self._name(i) for i in o["targets"]])
            elif o["ev"] == "save":
                self.slots.append(m.state)
            elif o["ev"] == "restore":
                m.state = self.slots[o["slot"] - 1]
            elif o["ev"] == "rebuild":
                return self.rebuild(o["n"], o["x"])
            elif o["ev"] == "flag_outdated":
                m.nodes[self._name(o["n"])].flag_outdated()
            elif o["ev"] == "clear_state":
                nd = m.nodes[self._name(o["n"])]
                how = o.get("how", 0)
                if how == 0:
                    nd.clear_state()
                elif how == 1:
                    nd.state = lsl.NodeState(None, True)
                else:
                    m.state = {nd.name: lsl.NodeState(None, True)}
            elif o["ev"] == "node_update":
                m.nodes[self._name(o["n"])].update()
            elif o["ev"] == "reload":
                self.reload()
                ev["auto"] = bool(self.model.auto_update)
            elif o["ev"] == "set_seed":
                import jax
                m.set_seed(jax.random.PRNGKey(o["seed"]))
                ids = {self._name(i): i for i in range(1, self.n + 1)}
                ev["assigned"] = [[ids[nd.name], _keystr(nd.value)] for nd in m._seed_nodes]
        except Exception as ex:  # noqa: BLE001  (a node function raised: the operation is aborted where it stands)
            if not isinstance(ex, Poisoned) and not isinstance(ex.__cause__, Poisoned):
                raise
            ev["raised"] = True
            if o["ev"] == "set_seed":
                # aborted half-way: the assignments the call was making (the ones carried out are checked against the
                # values observed below)
                import jax
                ids = {self._name(i): i for i in range(1, self.n + 1)}
                keys = jax.random.split(jax.random.PRNGKey(o["seed"]), len(m._seed_nodes))
                ev["assigned"] = [[ids[nd.name], _keystr(k)] for nd, k in zip(m._seed_nodes, keys)]
        ev.update(self.snapshot())
        return ev


def _rebuild(self, n, x):
    """pop the nodes out of the model, assign a value while they belong to no model, build a new model from the same
    objects (the documented way to modify an existing model)."""
    nodes, vars_ = self.model.pop_nodes_and_vars()
    self.nodes[n].value = Term(x)
    gb = lsl.GraphBuilder(to_float32=False)
    gb.add(*vars_.values(), *nodes.values())
    self._configure_builder(gb)
    self.calls.clear()
    self.model = gb.build_model()
    ev = {"ev": "rebuild", "n": n, "x": x, "raised": False}
    ev.update(self.snapshot())
    ev["evald"] = sorted(set(ev["evald"]))
    ids = {self._name(i): i for i in range(1, self.n + 1)}
    ids.update({nm: self.n + 1 + k for k, nm in enumerate(self.HIDDEN)})
    ev["order_all"] = [ids[nd.name] for nd in self.model._sorted_nodes if nd.name in ids]
    if getattr(self, "hidden", False):
        ev["order"] = ev["order_all"]
    return ev


def _reload(self):
    """save_model / load_model round trip at an arbitrary point of the history (a "crash point"): the run goes on
    with the model read back; the driver's node and var handles are re-bound by name."""
    import io
    buf = io.BytesIO()
    lsl.save_model(self.model, buf)
    buf.seek(0)
    self.model = lsl.load_model(buf)
    for i in list(self.nodes):
        self.nodes[i] = self.model.nodes[self._name(i)] if self._name(i) in self.model.nodes else self.nodes[i]
    for i in list(self.vars):
        self.vars[i] = self.model.vars[self.plan[i - 1].get("var_name", f"var{i}")]


GraphRun.reload = _reload
GraphRun.rebuild = _rebuild
GraphRun._configure_builder = lambda self, gb: None


def gen_ops(rng, plan, nops, atoms=("a", "b", "c"), reload_ok=False):
    vals = [i + 1 for i, p in enumerate(plan) if p["kind"] == "v" and not p.get("seed_for")]
    nonval = [i + 1 for i, p in enumerate(plan) if p["kind"] != "v"]
    caching = [i + 1 for i, p in enumerate(plan) if SPEC_KIND[p["kind"]] == "c"]
    seeded = any(p.get("seeded") for p in plan)      # (a rebuild would reset the model's seed nodes: not combined)
    nslots = 0
    ops = []
    while len(ops) < nops:
        r = rng.random()
        if r < 0.08 and vals:
            # pending updates saved, flushed, restored, flushed again
            ops += [{"ev": "set_auto", "b": False},
                    {"ev": "assign", "n": rng.choice(vals), "x": rng.choice(atoms) + str(rng.randint(0, 2)), "via_var": False},
                    {"ev": "save"}, {"ev": "update_all"}, {"ev": "restore", "slot": nslots + 1}, {"ev": "update_all"}]
            nslots += 1
        elif r < 0.16 and vals:
            # the same target updated twice with different dirty branches
            tgt = [rng.randint(1, len(plan))]
            ops += [{"ev": "set_auto", "b": False},
                    {"ev": "assign", "n": rng.choice(vals), "x": rng.choice(atoms) + str(rng.randint(0, 2)), "via_var": False},
                    {"ev": "update_targets", "targets": tgt},
                    {"ev": "assign", "n": rng.choice(vals), "x": rng.choice(atoms) + str(rng.randint(3, 5)), "via_var": True},
                    {"ev": "update_targets", "targets": tgt}, {"ev": "update_all"}]
        elif r < 0.22 and vals:
            # a value some node function refuses: the sweep is aborted by the exception; later the value is repaired
            i = rng.choice(vals)
            ops += [{"ev": "set_auto", "b": rng.random() < 0.7},
                    {"ev": "assign", "n": i, "x": POISON, "via_var": rng.random() < 0.5},
                    rng.choice([{"ev": "update_all"}, {"ev": "update_targets", "targets": [rng.randint(1, len(plan))]}, {"ev": "save"}]),
                    {"ev": "assign", "n": rng.choice(vals), "x": rng.choice(atoms) + str(rng.randint(0, 2)), "via_var": False},
                    {"ev": "update_all"},
                    {"ev": "assign", "n": i, "x": rng.choice(atoms) + str(rng.randint(0, 2)), "via_var": False},
                    {"ev": "update_all"}]
        elif r < 0.34 and seeded:
            # Model.set_seed: new keys for all seed nodes (with auto-update on or off)
            ops.append({"ev": "set_seed", "seed": rng.randint(1, 10**6)})
        elif r < 0.26 and vals:
            # (only when no poisoned value is around: a build whose node function raises fails)
            ops.append({"ev": "rebuild", "n": rng.choice(vals), "x": rng.choice(atoms) + str(rng.randint(6, 8))})
        elif r < 0.30 and reload_ok:
            ops.append({"ev": "reload"})
        elif r < 0.36 and reload_ok and nonval:
            # low-level node API: flag a node (and its outputs) outdated; later bring single nodes up to date by hand
            # in an order that respects the graph (every input up to date first) or leave it to the model
            i = rng.choice(nonval)
            ops.append({"ev": "flag_outdated", "n": i})
            if rng.random() < 0.5:
                ops.append({"ev": "node_update_chain", "n": i})
        elif r < 0.40 and reload_ok and caching:
            # the cache entry of one node dropped through the state API (three spellings), then an ancestor assigned
            ops.append({"ev": "clear_state", "n": rng.choice(caching), "how": rng.randint(0, 2)})
            if vals and rng.random() < 0.6:
                ops.append({"ev": "assign", "n": rng.choice(vals), "x": rng.choice(atoms) + str(rng.randint(0, 2)),
                            "via_var": rng.random() < 0.5})
        elif r < 0.45:
            i = rng.choice(vals)
            ops.append({"ev": "assign", "n": i, "x": rng.choice(atoms) + str(rng.randint(0, 2)),
                        "via_var": rng.random() < 0.5})
        elif r < 0.55:
            ops.append({"ev": "set_auto", "b": rng.random() < 0.4})
        elif r < 0.67:
            ops.append({"ev": "update_all"})
        elif r < 0.85:
            k = rng.randint(1, min(3, len(plan)))
            ops.append({"ev": "update_targets", "targets": rng.sample(range(1, len(plan) + 1), k)})
        elif r < 0.93 or nslots == 0:
            ops.append({"ev": "save"})
            nslots += 1
        else:
            ops.append({"ev": "restore", "slot": rng.randint(1, nslots)})
    return ops


def run_ops(run, ops):
    """Applies the operations; "node_update_chain" is expanded at run time into single-node updates of the outdated
    caching nodes from n on, each only once all of its inputs report up to date."""
    ev = []
    for o in ops:
        if o["ev"] != "node_update_chain":
            ev.append(run.op(o))
            continue
        for j in range(o["n"], run.n + 1):
            nd = run.model.nodes[run._name(j)]
            if SPEC_KIND[run.plan[j - 1]["kind"]] == "c" and nd.outdated and not any(x.outdated for x in nd.all_input_nodes()):
                e = run.op({"ev": "node_update", "n": j})
                ev.append(e)
                if e["raised"]:
                    break
    return ev


def random_trace(rng, nmax=8, maxops=30):
    plan = gen_plan(rng, nmax, seeded_ok=True)
    run = GraphRun(plan)
    hdr = run.header(hidden=True)
    ops = gen_ops(rng, plan, rng.randint(5, maxops), reload_ok=True)
    ev = run_ops(run, ops)
    run.close()
    hdr["ops"] = ops
    return {"hdr": hdr, "ev": ev}


def literal_traces(nseeds=6):
    """A distribution node (and a calculator) whose parameters were all given as literals: the library wraps them into
    anonymous Value nodes, which are nodes of the model like any other - assigned, saved and restored here."""
    import random
    out = []
    for k in range(nseeds):
        rng = random.Random(9000 + k)
        plan = [{"kind": "v", "inp": [], "literal": True}, {"kind": "v", "inp": [], "literal": True},
                {"kind": "v", "inp": [], "wrapped": True}, {"kind": "p", "inp": [3]},
                {"kind": "d" if k % 2 == 0 else "e", "inp": [1, 2, 4]}, {"kind": "v", "inp": [], "literal": True},
                {"kind": "c", "inp": [6, 4]}]
        run = GraphRun(plan)
        hdr = run.header(hidden=True)
        ops = [{"ev": "update_all"}, {"ev": "assign", "n": 1 + k % 2, "x": "c7", "via_var": False}, {"ev": "update_all"},
               {"ev": "save"}, {"ev": "assign", "n": 6, "x": "c8", "via_var": False}]
        ops += gen_ops(rng, plan, 14, reload_ok=True)
        ev = run_ops(run, ops)
        run.close()
        hdr["ops"] = ops
        out.append({"hdr": hdr, "ev": ev})
    return out


def pit_traces():
    """The legacy PIT calculator on top of a (caching / transient) distribution node: a caching node that depends on the
    distribution's parameters *and* on the value the distribution is evaluated at."""
    out = []
    for dk in ("d", "e"):
        plan = [{"kind": "v", "inp": []}, {"kind": "v", "inp": []}, {"kind": dk, "inp": [1, 2]}, {"kind": "q", "inp": [3]},
                {"kind": "c", "inp": [4]}]
        run = GraphRun(plan)
        hdr = run.header(hidden=True)
        A = lambda n, x, via=False: {"ev": "assign", "n": n, "x": x, "via_var": via}  # noqa: E731
        ops = [{"ev": "update_all"}, A(2, "c1"), {"ev": "update_all"}, {"ev": "set_auto", "b": False}, A(2, "c2"),
               {"ev": "update_targets", "targets": [4]}, {"ev": "update_all"}, A(1, "c3"), {"ev": "update_targets", "targets": [5]},
               {"ev": "update_all"}, {"ev": "save"}, A(2, "c4"), {"ev": "update_all"}, {"ev": "restore", "slot": 1},
               {"ev": "update_all"}, {"ev": "set_auto", "b": True}, A(2, "c5"), A(1, "c6")]
        ev = run_ops(run, ops)
        run.close()
        hdr["ops"] = ops
        out.append({"hdr": hdr, "ev": ev})
    return out


def replay_trace(hdr):
    if "plan_full" in hdr:
        plan = [dict(p) for p in hdr["plan_full"]]
        run = GraphRun(plan)
        h = run.header(hidden=True)
        h["ops"] = hdr["ops"]
        return {"hdr": h, "ev": run_ops(run, hdr["ops"])}
    plan = [{"kind": k, "inp": i} for k, i in zip(hdr["plan_kinds"], hdr["inp"])]
    for idx, p in enumerate(plan):
        if idx + 1 < len(plan) and plan[idx + 1]["kind"] == "p" and plan[idx + 1]["inp"] == [idx + 1]:
            p["wrapped"] = True
    run = GraphRun(plan)
    h = run.header(hidden=True)
    h["ops"] = hdr["ops"]
    return {"hdr": h, "ev": run_ops(run, hdr["ops"])}
