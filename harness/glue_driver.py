"""Driver for Trace_Glue.tla (C04, premise P6): HMC / NUTS glue with blackjax."""
from __future__ import annotations

import copy

import jax
import jax.numpy as jnp
import numpy as np

import liesel.goose as gs
from liesel.goose import hmc as hmc_mod
from liesel.goose import nuts as nuts_mod
from liesel.goose.epoch import EpochConfig, EpochType
from vlib.core import fstr

from .comp_driver import PARAMS, build_liesel_model, dict_logp

EPOCH = EpochConfig(EpochType.POSTERIOR, 10, 1, None).to_state(1, 1)


def _fl(x):
    return [fstr(np.float32(v)) for v in np.ravel(np.asarray(x, np.float32))]


class Recorder:
    def __init__(self, factory):
        self.factory, self.calls = factory, []

    def __call__(self, *a, **kw):
        real = self.factory(*a, **kw)
        rec = self
        ld = kw.get("logdensity_fn", a[0] if a else None)

        class K:
            init = getattr(real, "init", None)

            @staticmethod
            def step(key, state):
                out = real.step(key, state)
                rec.calls.append({"ld_fn": ld, "state_in": state, "state_out": out[0]})
                return out
        return K


def glue_events(rng, kernel_name="hmc", model_kind="liesel", block=("b", "sigma_transformed"), n=3):
    if model_kind == "liesel":
        user = build_liesel_model()
        interface = gs.LieselInterface(user)
        state = user.state

        def direct(vals):       # direct assignment on a copy of the user's model holding the current state
            m = copy.deepcopy(user)
            m.state = state
            m.auto_update = False
            for k, v in vals.items():
                m.vars[k].value = v
            m.update()
            return m

        def derived_of_model(m):
            return _fl(m.log_prob) + _fl(m.vars["sigma"].value) + _fl(m.vars["snr"].value) + _fl(m.vars["mean"].value)

        def derived_of_state(st):
            return (_fl(st["_model_log_prob"].value) + _fl(st[user.vars["sigma"].value_node.name].value)
                    + _fl(st[user.vars["snr"].value_node.name].value) + _fl(st[user.vars["mean"].value_node.name].value))
    else:
        interface = gs.DictInterface(dict_logp)
        state = {"b": jnp.array([0.1, -0.2], jnp.float32), "sigma_transformed": jnp.float32(np.log(1.2)), "m": jnp.float32(0.3)}

        def direct(vals):
            s = dict(state)
            s.update(vals)
            return s

        def derived_of_model(m):
            return _fl(dict_logp(m))

        def derived_of_state(st):
            return _fl(dict_logp(st))
    block = list(block)
    others = [p for p in PARAMS if p not in block]
    if kernel_name == "hmc":
        kernel = gs.HMCKernel(block, initial_step_size=0.05, num_integration_steps=3)
        mod, attr = hmc_mod, "hmc_kernel"
    else:
        kernel = gs.NUTSKernel(block, initial_step_size=0.05, max_treedepth=3)
        mod, attr = nuts_mod, "nuts_kernel"
    kernel.set_model(interface)
    evs = []
    real_factory = getattr(mod, attr)
    rec = Recorder(real_factory)
    setattr(mod, attr, rec)
    try:
        ks = kernel.init_state(jax.random.PRNGKey(0), state)
        for i in range(n):
            e = {"ev": "glue", "kernel": kernel_name, "model": model_kind, "block": block, "crash": ""}
            try:
                rec.calls.clear()
                key = jax.random.PRNGKey(rng.randrange(1 << 30))
                cur = interface.extract_position(block, state)
                other_before = interface.extract_position(others, state)
                ks_before = [fstr(np.float32(ks.step_size))] + _fl(ks.inverse_mass_matrix)
                out = kernel._standard_transition(key, ks, state, EPOCH)
                call = rec.calls[-1]
                probes = [{k: jnp.asarray(np.asarray(v) + np.float32(rng.uniform(-0.5, 0.5))) for k, v in cur.items()}
                          for _ in range(3)]
                e["ld_probe"] = [fstr(np.float32(call["ld_fn"](p))) for p in probes]
                if model_kind == "liesel":
                    e["direct_probe"] = [fstr(np.float32(direct(p).log_prob)) for p in probes]
                else:
                    e["direct_probe"] = [fstr(np.float32(dict_logp(direct(p)))) for p in probes]
                e["start_pos"] = [x for k in sorted(block) for x in _fl(call["state_in"].position[k])]
                e["current_pos"] = [x for k in sorted(block) for x in _fl(cur[k])]
                e["start_ld"] = fstr(np.float32(call["state_in"].logdensity))
                e["current_lp"] = fstr(np.float32(interface.log_prob(state)))
                new_state = out.model_state
                written = interface.extract_position(block, new_state)
                e["written_pos"] = [x for k in sorted(block) for x in _fl(written[k])]
                e["bj_out_pos"] = [x for k in sorted(block) for x in _fl(call["state_out"].position[k])]
                dm = direct({k: call["state_out"].position[k] for k in block})
                e["returned_derived"] = derived_of_state(new_state)
                e["direct_derived"] = derived_of_model(dm)
                e["other_before"] = [x for k in others for x in _fl(other_before[k])]
                e["other_after"] = [x for k in others for x in _fl(interface.extract_position(others, new_state)[k])]
                e["kstate_before"] = ks_before
                e["kstate_after"] = [fstr(np.float32(out.kernel_state.step_size))] + _fl(out.kernel_state.inverse_mass_matrix)
                state, ks = new_state, out.kernel_state
                # another kernel of the sequence moves a parameter outside the block before the next transition
                if others:
                    k = rng.choice(others)
                    cur_o = interface.extract_position([k], state)[k]
                    state = interface.update_state({k: jnp.asarray(np.asarray(cur_o) + np.float32(rng.uniform(0.2, 0.6)))}, state)
            except Exception as ex:  # noqa: BLE001
                import traceback
                e["crash"] = f"{type(ex).__name__}: {ex}"[:200] + traceback.format_exc()[-300:]
                for k in ("ld_probe", "direct_probe", "start_pos", "current_pos", "written_pos", "bj_out_pos",
                          "returned_derived", "direct_derived", "other_before", "other_after", "kstate_before", "kstate_after"):
                    e.setdefault(k, [])
                e.setdefault("start_ld", "0.0")
                e.setdefault("current_lp", "0.0")
            evs.append(e)
    finally:
        setattr(mod, attr, real_factory)
    return evs
