"""Driver for Trace_Runs.tla (C10): tables of real engine runs built through
EngineBuilder (seed forms, jitter, single / per-chain initial states)."""
from __future__ import annotations

import hashlib
import os

import jax
import jax.numpy as jnp
import numpy as np

import liesel.goose as gs
from liesel.goose.epoch import EpochConfig, EpochType
from liesel.goose.pytree import stack_leaves

from .probes import ProbeKernel


def logp(s):
    return -0.5 * jnp.sum((s["x"] - 1.0) ** 2) - 0.5 * jnp.sum(s["y"] ** 2)


def logp_pos(s):
    """y must be positive: the log-density is NaN outside the support."""
    return -0.5 * jnp.sum((s["x"] - 1.0) ** 2) + 2.0 * jnp.log(s["y"]) - s["y"]


class TuneErrRW(gs.RWKernel):
    """Random-walk kernel that really tunes: tune() and end_warmup() rescale the step size, and report error code 1 in a
    chain whose y lies outside the support (the engine only warns about such codes; every chain keeps the state its
    own kernel returned)."""
    error_book = {0: "no errors", 1: "outside the support", 90: "nan acceptance prob"}
    err_key = "y"

    def _code(self, model_state):
        y = self.model.extract_position([self.err_key], model_state)[self.err_key]
        return jnp.where(jnp.all(y > 0), 0, 1).astype(jnp.int32)

    def tune(self, prng_key, kernel_state, model_state, epoch, history=None):
        from liesel.goose.kernel import DefaultTuningInfo, TuningOutcome
        kernel_state.step_size = kernel_state.step_size * 1.5
        return TuningOutcome(DefaultTuningInfo(error_code=self._code(model_state), time=epoch.time), kernel_state)

    def end_warmup(self, prng_key, kernel_state, model_state, tuning_history):
        from liesel.goose.kernel import WarmupOutcome
        kernel_state.step_size = kernel_state.step_size * 0.8
        return WarmupOutcome(error_code=self._code(model_state), kernel_state=kernel_state)


SCHEDULES = {
    "S1": [(1, 4, 1), (3, 2, 1), (4, 6, 2)],
    "S2": [(2, 3, 1), (4, 3, 3), (4, 3, 1)],
}


def state_of(v):
    return {"x": jnp.asarray([v, v + 0.5], jnp.float32), "y": jnp.asarray(v / 2.0, jnp.float32)}


def fmt(a):
    return ",".join(repr(float(x)) for x in np.asarray(a, np.float32).reshape(-1))


def one_run(kernel="rw", schedule="S1", seed=7, seedform="int", chains=3, multi=False,
            inits=(0.25, 0.25, 0.25), jitter=False, engine_seed="none", rebuild=False, support=False, double_init=False,
            hashseed=None):
    """engine_seed: "none" | "int" | "key" - EngineBuilder.set_engine_seed with seed + 100 in that form;
    rebuild: the engine is built twice from the same builder and the second engine is run;
    support: the model's log-density is NaN for y <= 0 and the jitter of y is the shift y - 0.3, so that a chain
    with a small initial y starts outside the support (its neighbours must not notice)."""
    if hashseed is not None:
        # the same run in a separate Python process with its own string-hash salt (two runs with identical seed and
        # configuration must agree across processes, not only within one)
        import json
        import subprocess
        import sys
        kw = dict(kernel=kernel, schedule=schedule, seed=seed, seedform=seedform, chains=chains, multi=multi, inits=list(inits),
                  jitter=jitter, engine_seed=engine_seed, rebuild=rebuild, support=support, double_init=double_init)
        env = dict(os.environ, PYTHONHASHSEED=str(hashseed), PYTHONPATH=os.pathsep.join(p for p in sys.path if p))
        code = ("import json, sys; from harness import runs_driver as R; kw = json.loads(sys.argv[1]); kw['inits'] = tuple(kw['inits']); "
                "print('@@' + json.dumps(R.one_run(**kw)))")
        out = subprocess.run([sys.executable, "-c", code, json.dumps(kw)], env=env, capture_output=True, text=True, timeout=900)
        line = [ln for ln in out.stdout.splitlines() if ln.startswith("@@")]
        if not line:
            return {"ev": "run", "cid": "?", "seedform": seedform, "multi": bool(multi), "inits": [repr(float(v)) for v in inits],
                    "digests": [], "first": [], "expect": [], "jitter_keys_distinct": True,
                    "crash": "child process failed: " + out.stderr[-300:]}
        return json.loads(line[0][2:])
    cid = f"{kernel}|{schedule}|c{chains}|seed{seed}|jit{int(jitter)}|es{int(engine_seed != 'none')}|sup{int(support)}"
    ev = {"ev": "run", "cid": cid, "seedform": seedform, "multi": bool(multi),
          "inits": [repr(float(v)) for v in inits], "digests": [], "first": [], "expect": [],
          "jitter_keys_distinct": True, "crash": ""}
    calls = []
    try:
        sd = seed if seedform == "int" else jax.random.PRNGKey(seed)
        b = gs.EngineBuilder(seed=sd, num_chains=chains)
        b.set_model(gs.DictInterface(logp_pos if support else logp))
        if engine_seed != "none":
            b.set_engine_seed(seed + 100 if engine_seed == "int" else jax.random.PRNGKey(seed + 100))
        if double_init:
            # initial values are set twice: first a shared state (as helpers like dist_reg_mcmc do), then the real ones
            b.set_initial_values(state_of(9.5))
        if multi:
            b.set_initial_values(stack_leaves([state_of(v) for v in inits]), multiple_chains=True)
        else:
            assert len(set(inits)) == 1
            b.set_initial_values(state_of(inits[0]))
        if kernel == "rw":
            b.add_kernel(gs.RWKernel(["x"], initial_step_size=0.7))
            b.add_kernel(gs.RWKernel(["y"], initial_step_size=0.4))
        elif kernel == "rwx":
            # y is not sampled by any kernel (a quantity held fixed), but tracked - and jittered like any other position
            b.add_kernel(gs.RWKernel(["x"], initial_step_size=0.7))
            b.positions_included = ["y"]
        elif kernel == "tunerw":
            b.add_kernel(TuneErrRW(["x"], initial_step_size=0.7))
            b.add_kernel(gs.RWKernel(["y"], initial_step_size=0.4))
        elif kernel == "probe":
            b.add_kernel(ProbeKernel(["x"], kidx=1, cap=64, all_keys=["x", "y"]))
            b.add_kernel(gs.RWKernel(["y"], initial_step_size=0.4))
        elif kernel == "nuts":
            b.add_kernel(gs.NUTSKernel(["x", "y"], initial_step_size=0.5, max_treedepth=3))
        elif kernel == "iwls":
            b.add_kernel(gs.IWLSKernel(["x"], initial_step_size=0.5))
            b.add_kernel(gs.RWKernel(["y"], initial_step_size=0.4))
        b.set_epochs([EpochConfig(EpochType.INITIAL_VALUES, 1, 1, None)]
                     + [EpochConfig(EpochType(t), d, k, None) for t, d, k in SCHEDULES[schedule]])
        if jitter:
            def make_jit(name):
                def jit_fn(key, val):
                    u = jax.random.uniform(key, val.shape, val.dtype, -1.0, 1.0)
                    out = val + u if name == "x" else (val - 0.3 + 0.0 * u if support else val * (2.0 + u))   # per key
                    jax.debug.callback(lambda k, v, o: calls.append((name, np.asarray(k), np.asarray(v), np.asarray(o))),
                                       key, val, out, ordered=False)
                    return out
                return jit_fn
            b.set_jitter_fns({"x": make_jit("x"), "y": make_jit("y")})
        b.show_progress = False
        eng = b.build()
        if rebuild:
            eng = b.build()
        eng.sample_all_epochs()
        jax.effects_barrier()
        res = eng.get_results()
        samples = res.get_samples()
        infos = res.transition_infos.combine_all().unwrap()
        for c in range(chains):
            h = hashlib.sha256()
            for k in sorted(samples):
                h.update(np.ascontiguousarray(np.asarray(samples[k])[c]).tobytes())
            for kid in sorted(infos):
                h.update(np.ascontiguousarray(np.asarray(infos[kid].acceptance_prob)[c]).tobytes())
            ev["digests"].append(h.hexdigest()[:20])
            ev["first"].append(fmt(np.asarray(samples["x"])[c, 0]) + "|" + fmt(np.asarray(samples["y"])[c, 0]))
        # expected first sample: supplied initial value after the configured jitter
        def expected(name, c, v0):
            if not jitter:
                return v0
            cand = []
            for nm, k, v, o in calls:
                if nm != name:
                    continue
                if k.ndim == 1:
                    cand.append((k, v))
                else:
                    cand += [(k[i], v[i]) for i in range(k.shape[0])]
            mine = [(k, v) for (k, v) in cand if np.array_equal(v, v0)]
            k = mine[0][0] if (multi or len(set(inits)) > 1) and mine else (cand[c][0] if len(cand) > c else None)
            if k is None:
                return np.full_like(v0, np.nan)
            keys_seen.setdefault(name, []).append(tuple(int(z) for z in k))
            u = np.asarray(jax.random.uniform(jnp.asarray(k), v0.shape, jnp.float32, -1.0, 1.0))
            if support and name == "y":
                return v0 - np.float32(0.3) + np.float32(0.0) * u
            return v0 + u if name == "x" else v0 * (np.float32(2.0) + u)

        keys_seen = {}
        for c in range(chains):
            st = state_of(inits[c])
            ev["expect"].append(fmt(expected("x", c, np.asarray(st["x"]))) + "|" + fmt(expected("y", c, np.asarray(st["y"]))))
        if jitter:
            ev["jitter_keys_distinct"] = all(len(set(v)) == chains for v in keys_seen.values()) and \
                len(set(sum(keys_seen.values(), []))) == 2 * chains
            if not (multi or len(set(inits)) > 1) and sorted(ev["expect"]) == sorted(ev["first"]):
                # replicated state: chain <-> batch position is not claimed, compare as multisets
                ev["expect"] = list(ev["first"])
    except Exception as ex:  # noqa: BLE001
        ev["crash"] = f"{type(ex).__name__}: {ex}"[:300]
    return ev


def table_jobs(quick=True):
    """Each table = list of run kwargs; tables are independent traces."""
    tabs = []
    for kern, sch in ([("rw", "S1"), ("probe", "S2")] if quick else
                      [("rw", "S1"), ("probe", "S2"), ("rw", "S2"), ("iwls", "S1"), ("nuts", "S1")]):
        base = dict(kernel=kern, schedule=sch, seed=7, chains=3)
        t = [
            dict(base, seedform="int", inits=(0.25, 0.25, 0.25)),
            dict(base, seedform="int", inits=(0.25, 0.25, 0.25)),           # determinism
            dict(base, seedform="key", inits=(0.25, 0.25, 0.25)),           # seed equivalence
            dict(base, seedform="int", inits=(0.25, 0.25, 0.25), jitter=True),
            dict(base, seedform="key", inits=(0.25, 0.25, 0.25), jitter=True),
            dict(base, seedform="int", multi=True, inits=(0.25, -1.0, 2.0)),  # per-chain states
            dict(base, seedform="int", multi=True, inits=(0.25, -1.0, 3.5)),  # chain isolation
            dict(base, seedform="key", multi=True, inits=(0.75, -1.0, 3.5)),
            dict(base, seedform="int", multi=True, inits=(0.25, -1.0, 2.0), jitter=True),
            dict(base, seedform="int", multi=True, inits=(0.25, -1.5, 2.0), jitter=True),
            dict(base, seedform="int", multi=True, inits=(0.25, 0.25, 0.25)),
            # the same builder builds a second engine: same results as a first build
            dict(base, seedform="int", inits=(0.25, 0.25, 0.25), jitter=True, rebuild=True),
            dict(base, seedform="int", multi=True, inits=(0.25, -1.0, 2.0), jitter=True, rebuild=True),
            dict(base, seedform="int", inits=(0.25, 0.25, 0.25), rebuild=True),
        ]
        tabs.append(t)
    # one chain's jittered start lies outside the support (NaN log-density): the other chains still get their jitter and
    # their trajectories do not depend on that neighbour
    base = dict(kernel="rw", schedule="S1", seed=13, chains=3, support=True, jitter=True, multi=True)
    tabs.append([dict(base, inits=(2.0, 3.0, 4.0)), dict(base, inits=(2.0, 3.0, 0.4)), dict(base, inits=(2.0, 0.2, 4.0))])
    # ... also when the kernel's tuning / end-of-warm-up reports an error in that chain only
    base = dict(kernel="tunerw", schedule="S1", seed=17, chains=3, support=True, jitter=True, multi=True)
    tabs.append([dict(base, inits=(2.0, 3.0, 4.0)), dict(base, inits=(2.0, 3.0, 0.4)), dict(base, inits=(2.0, 0.2, 4.0))])
    # initial values set twice on one builder (first a shared state, then the per-chain ones): the last call counts
    base = dict(kernel="rw", schedule="S1", seed=19, chains=3)
    tabs.append([dict(base, multi=True, inits=(0.25, -1.0, 2.0)), dict(base, multi=True, inits=(0.25, -1.0, 2.0), double_init=True),
                 dict(base, multi=True, inits=(0.25, -1.0, 2.0), jitter=True),
                 dict(base, multi=True, inits=(0.25, -1.0, 2.0), jitter=True, double_init=True)])
    # a jitter function for a position no kernel samples (tracked as an additional position)
    base = dict(kernel="rwx", schedule="S1", seed=29, chains=3)
    tabs.append([dict(base, inits=(0.25, 0.25, 0.25), jitter=True), dict(base, inits=(0.25, 0.25, 0.25), jitter=True),
                 dict(base, multi=True, inits=(0.25, -1.0, 2.0), jitter=True), dict(base, multi=True, inits=(0.25, -1.0, 2.0))])
    # the same seeded run in other Python processes with different string-hash salts
    base = dict(kernel="rw", schedule="S1", seed=23, chains=2, jitter=True, inits=(0.25, 0.25))
    tabs.append([dict(base), dict(base, hashseed=1), dict(base, hashseed=2), dict(base, hashseed=5)])
    # EngineBuilder.set_engine_seed in both forms, for several chain counts (a raw key has shape (2,))
    for chains in ((2, 1) if quick else (2, 1, 4)):
        base = dict(kernel="rw", schedule="S1", seed=11, chains=chains)
        ini = tuple([0.25] * chains)
        tabs.append([
            dict(base, seedform="int", inits=ini, engine_seed="int"),
            dict(base, seedform="int", inits=ini, engine_seed="key"),
            dict(base, seedform="key", inits=ini, engine_seed="int"),
            dict(base, seedform="int", inits=ini, engine_seed="int", jitter=True),
            dict(base, seedform="key", inits=ini, engine_seed="key", jitter=True),
        ])
    return tabs
