"""Probe kernels: implement liesel's Kernel protocol and keep a pure functional call
log inside their *kernel state*, so that the log survives jit, vmap and lax.scan.

Record layout (int32[W]):  kind, nth_epoch, epoch_type, time, time_in_epoch,
duration, x0, x1
  kind 1 init_state
       2 start_epoch
       3 transition      x0 = 1 adaptive branch / 0 standard branch, x1 = error code
       4 end_epoch
       5 tune            x0 = history length (-1: None), x1 = 1 slow branch / 0 fast
       6 end_warmup
Float payload (float32[3 + len(all_keys)]) per record:
  transition: [tag written, chain id, seq counter on entry] + [min, max of every key in
              all_keys as seen on entry -> one (min) value per key followed by (max)]
  tune:       [first own-key history entry, last own-key history entry, number of keys
               in the history, ...]
The PRNG key of every call is logged as two uint32 words.
"""
from __future__ import annotations

from dataclasses import dataclass, field
from typing import ClassVar

import jax
import jax.numpy as jnp

import liesel.goose as gs
import numpy as np

from liesel.goose.epoch import EpochState
from liesel.goose.kernel import (
    DefaultTransitionInfo,
    DefaultTuningInfo,
    ModelMixin,
    TransitionMixin,
    TransitionOutcome,
    TuningMixin,
    TuningOutcome,
    WarmupOutcome,
)
from liesel.goose.pytree import register_dataclass_as_pytree

W = 8
F = 4
KINDS = {1: "init_state", 2: "start_epoch", 3: "transition", 4: "end_epoch", 5: "tune", 6: "end_warmup"}


@register_dataclass_as_pytree
@dataclass
class ProbeState:
    log: jnp.ndarray  # int32[CAP, W]
    flog: jnp.ndarray  # float32[CAP, F]
    keys: jnp.ndarray  # uint32[CAP, 2]
    cur: jnp.ndarray  # int32 scalar
    version: jnp.ndarray  # int32: bumped by tune / end_warmup (a "tuning parameter")


def tag_of(nth_epoch, tie_after, kidx):
    """Value a probe kernel writes in its transition: identifies (epoch, within-epoch
    iteration number 1..duration, kernel)."""
    return nth_epoch * 1000.0 + tie_after * 10.0 + kidx


class ProbeKernel(ModelMixin, TransitionMixin, TuningMixin):
    """Deterministic kernel (ignores its PRNG key for the values it writes)."""

    error_book: ClassVar[dict[int, str]] = {0: "no errors", 1: "probe error one", 2: "probe error two"}
    needs_history: ClassVar[bool] = False

    def __init__(self, position_keys, kidx=0, cap=256, needs_history=False, error_table=None,
                 all_keys=None, identifier="", tune_error_chains=()):
        self.position_keys = tuple(position_keys)
        # chains (by the "chain" entry of the model state) in which tune() and end_warmup() report error code 1
        self.tune_error_chains = tuple(tune_error_chains)
        self._model = None
        self.identifier = identifier
        self.kidx = kidx
        self.cap = cap
        self.needs_history = needs_history  # instance attribute shadows ClassVar
        self.counts_seq = True
        # error_table: int array [chains, total_time] or None
        self.error_table = None if error_table is None else jnp.asarray(error_table, dtype=jnp.int32)
        self.all_keys = tuple(all_keys) if all_keys is not None else self.position_keys
        self.nf = 3 + 2 * len(self.all_keys)

    # -- logging ------------------------------------------------------------------
    def _rec(self, st: ProbeState, key, kind, epoch: EpochState | None, x0=0, x1=0, fl=None):
        if epoch is None:
            row = [kind, -1, -1, -1, -1, -1, x0, x1]
        else:
            row = [kind, epoch.nth_epoch, epoch.config.type, epoch.time, epoch.time_in_epoch,
                   epoch.config.duration, x0, x1]
        row = jnp.stack([jnp.asarray(v, dtype=jnp.int32) for v in row])
        fl = list(fl) if fl is not None else []
        fl = fl + [0.0] * (self.nf - len(fl))
        fl = jnp.stack([jnp.asarray(v, dtype=jnp.float32).reshape(()) for v in fl])
        i = jnp.minimum(st.cur, self.cap - 1)
        return ProbeState(
            log=st.log.at[i].set(row),
            flog=st.flog.at[i].set(fl),
            keys=st.keys.at[i].set(jnp.asarray(key, dtype=jnp.uint32).reshape(2)),
            cur=st.cur + 1,
            version=st.version,
        )

    # -- protocol -----------------------------------------------------------------
    def init_state(self, prng_key, model_state):
        st = ProbeState(
            log=jnp.zeros((self.cap, W), jnp.int32),
            flog=jnp.zeros((self.cap, self.nf), jnp.float32),
            keys=jnp.zeros((self.cap, 2), jnp.uint32),
            cur=jnp.asarray(0, jnp.int32),
            version=jnp.asarray(0, jnp.int32),
        )
        # (x0: the chain number found in the model state the kernel is initialised from, -7 if the state has none)
        seen = model_state["chain"] if isinstance(model_state, dict) and "chain" in model_state else -7
        return self._rec(st, prng_key, 1, None, x0=seen)

    def start_epoch(self, prng_key, kernel_state, model_state, epoch):
        return self._rec(kernel_state, prng_key, 2, epoch)

    def end_epoch(self, prng_key, kernel_state, model_state, epoch):
        return self._rec(kernel_state, prng_key, 4, epoch)

    def _seen(self, model_state):
        pos = self.model.extract_position(self.all_keys, model_state)
        mins = [jnp.min(jnp.asarray(pos[k], jnp.float32)) for k in self.all_keys]
        maxs = [jnp.max(jnp.asarray(pos[k], jnp.float32)) for k in self.all_keys]
        return mins + maxs

    def _seq(self, model_state):
        try:
            return jnp.asarray(self.model.extract_position(["seq"], model_state)["seq"], jnp.float32)
        except Exception:
            return None

    def _chain_id(self, model_state):
        try:
            return jnp.asarray(self.model.extract_position(["chain"], model_state)["chain"], jnp.int32)
        except Exception:
            return jnp.asarray(0, jnp.int32)

    def _trans(self, adaptive, prng_key, kernel_state, model_state, epoch):
        own = self.model.extract_position(self.position_keys, model_state)
        tag = tag_of(epoch.nth_epoch, epoch.time_in_epoch + 1, self.kidx)
        new = {k: jnp.full_like(v, 0) + jnp.asarray(tag, jnp.asarray(v).dtype) for k, v in own.items()}
        chain = self._chain_id(model_state)
        if self.error_table is not None:
            tt = jnp.minimum(epoch.time, self.error_table.shape[1] - 1)
            code = self.error_table[jnp.minimum(chain, self.error_table.shape[0] - 1), tt]
        else:
            code = jnp.asarray(0, jnp.int32)
        seq = self._seq(model_state)
        st = self._rec(kernel_state, prng_key, 3, epoch, x0=adaptive, x1=code,
                       fl=[tag, chain, -1.0 if seq is None else seq] + self._seen(model_state))
        if self.counts_seq and seq is not None:
            new = dict(new)
            new["seq"] = seq + 1.0
        new_ms = self.model.update_state(new, model_state)
        info = DefaultTransitionInfo(error_code=code, acceptance_prob=jnp.asarray(1.0, jnp.float32),
                                     position_moved=jnp.asarray(1, jnp.int32))
        return TransitionOutcome(info, st, new_ms)

    def _standard_transition(self, prng_key, kernel_state, model_state, epoch):
        return self._trans(0, prng_key, kernel_state, model_state, epoch)

    def _adaptive_transition(self, prng_key, kernel_state, model_state, epoch):
        return self._trans(1, prng_key, kernel_state, model_state, epoch)

    def _tune(self, slow, prng_key, kernel_state, model_state, epoch, history):
        if history is None:
            hl, fl = -1, None
        else:
            # the history holds the *tracked* positions: the kernel's own key may have been excluded from tracking
            own = self.position_keys[0] in history
            h = jnp.asarray(history[self.position_keys[0]] if own else jax.tree_util.tree_leaves(history)[0], jnp.float32)
            hl = h.shape[0]
            h2 = h.reshape(hl, -1)[:, 0]
            fl = [h2[0], h2[-1], jnp.sum(h2), float(len(history))]
        st = self._rec(kernel_state, prng_key, 5, epoch, x0=hl, x1=slow, fl=fl)
        st.version = st.version + 1
        info = DefaultTuningInfo(error_code=self._tune_code(model_state), time=epoch.time)
        return TuningOutcome(info, st)

    def _tune_code(self, model_state):
        code = jnp.asarray(0, jnp.int32)
        chain = self._chain_id(model_state)
        for c in self.tune_error_chains:
            code = jnp.where(chain == c, jnp.asarray(1, jnp.int32), code)
        return code

    def _tune_fast(self, prng_key, kernel_state, model_state, epoch, history):
        return self._tune(0, prng_key, kernel_state, model_state, epoch, history)

    def _tune_slow(self, prng_key, kernel_state, model_state, epoch, history):
        return self._tune(1, prng_key, kernel_state, model_state, epoch, history)

    def end_warmup(self, prng_key, kernel_state, model_state, tuning_history):
        st = self._rec(kernel_state, prng_key, 6, None,
                       x0=-1 if tuning_history is None else 1)
        st.version = st.version + 1
        return WarmupOutcome(error_code=self._tune_code(model_state), kernel_state=st)


class ComputingDictInterface(gs.DictInterface):
    """A model interface whose extract_position *computes* one of the tracked quantities from the state it is handed
    (like the PyMC interface does): "nel" = number of elements of p1 in this state."""

    def extract_position(self, position_keys, model_state):
        out = {k: model_state[k] for k in position_keys if k != "nel"}
        if "nel" in position_keys:
            out["nel"] = jnp.sum(jnp.ones_like(model_state["p1"]))
        return gs.Position(out)


class NullKernel(ProbeKernel):
    pass


def probe_book(k):
    """Every booked probe kernel class documents its own messages (the same codes mean different things per kernel)."""
    return {0: "no errors", 1: f"probe {k} error one", 2: f"probe {k} error two", -1: f"probe {k} skipped",
            200: f"probe {k} error two hundred"}


class ProbeKernelB1(ProbeKernel):
    error_book: ClassVar[dict[int, str]] = probe_book(1)


class ProbeKernelB2(ProbeKernel):
    error_book: ClassVar[dict[int, str]] = probe_book(2)


class ProbeKernelB3(ProbeKernel):
    error_book: ClassVar[dict[int, str]] = probe_book(3)


BOOKED = {1: ProbeKernelB1, 2: ProbeKernelB2, 3: ProbeKernelB3}


def read_logs(engine):
    """Per (chain, kernel): list of event dicts, from the engine's kernel states."""
    kss = getattr(engine, "_kernel_states")
    out = {}
    for ki, ks in enumerate(kss):
        if not isinstance(ks, ProbeState):
            continue
        log = np.asarray(ks.log)
        flog = np.asarray(ks.flog)
        keys = np.asarray(ks.keys)
        cur = np.asarray(ks.cur)
        for c in range(log.shape[0]):
            n = int(cur[c])
            if n > log.shape[1]:
                raise RuntimeError("probe log overflow")
            evs = []
            for i in range(n):
                r = [int(x) for x in log[c, i]]
                evs.append({
                    "kind": KINDS[r[0]], "epoch": r[1], "etype": r[2], "time": r[3], "tie": r[4],
                    "dur": r[5], "x0": r[6], "x1": r[7],
                    "fl": [float(x) for x in flog[c, i]],
                    "key": f"{int(keys[c, i, 0])}:{int(keys[c, i, 1])}",
                })
            out[(c, ki)] = evs
    return out


# ======================================================================================
# Wrapping probe: delegates to a real kernel and records, per protocol call, the inner
# tuning state before and after, the reported acceptance probability and driver-defined
# observations of the model state before/after.


@register_dataclass_as_pytree
@dataclass
class WrapState:
    inner: object
    ilog: jnp.ndarray  # int32[CAP, W]
    flog: jnp.ndarray  # float32[CAP, NF]
    keys: jnp.ndarray  # uint32[CAP, 2]
    cur: jnp.ndarray


def default_tun(ks):
    """(step_size, error_sum, log_avg_step_size, mu) + flattened inverse mass matrix."""
    out = [ks.step_size, ks.error_sum, ks.log_avg_step_size, ks.mu]
    out = [jnp.asarray(x, jnp.float32).reshape(()) for x in out]
    if hasattr(ks, "inverse_mass_matrix"):
        out += list(jnp.ravel(jnp.asarray(ks.inverse_mass_matrix, jnp.float32)))
    return out


class WrapKernel:
    """Kernel-protocol wrapper around a real kernel `inner`."""

    def __init__(self, inner, n_tun=4, obs_fn=None, n_obs=0, cap=512, tun_fn=default_tun):
        self.inner = inner
        self.position_keys = tuple(inner.position_keys)
        self.identifier = ""
        self.error_book = inner.error_book
        self.needs_history = inner.needs_history
        self.n_tun, self.obs_fn, self.n_obs, self.cap, self.tun_fn = n_tun, obs_fn, n_obs, cap, tun_fn
        self.nf = 2 * n_tun + 1 + n_obs
        self._model = None

    def set_model(self, model):
        self._model = model
        self.inner.set_model(model)

    def has_model(self):
        return self.inner.has_model()

    def _rec(self, st_log, key, kind, epoch, pre, post, acc=0.0, code=0, moved=0, obs=None):
        ilog, flog, keys, cur = st_log
        if epoch is None:
            row = [kind, -1, -1, -1, -1, -1, code, moved]
        else:
            row = [kind, epoch.nth_epoch, epoch.config.type, epoch.time, epoch.time_in_epoch,
                   epoch.config.duration, code, moved]
        row = jnp.stack([jnp.asarray(v, jnp.int32).reshape(()) for v in row])
        fl = list(pre) + list(post) + [jnp.asarray(acc, jnp.float32).reshape(())]
        fl += list(obs) if obs is not None else [jnp.zeros((), jnp.float32)] * self.n_obs
        fl = jnp.stack([jnp.asarray(v, jnp.float32).reshape(()) for v in fl])
        i = jnp.minimum(cur, self.cap - 1)
        return (ilog.at[i].set(row), flog.at[i].set(fl),
                keys.at[i].set(jnp.asarray(key, jnp.uint32).reshape(2)), cur + 1)

    def _logs(self, st):
        return (st.ilog, st.flog, st.keys, st.cur)

    def init_state(self, prng_key, model_state):
        inner = self.inner.init_state(prng_key, model_state)
        logs = (jnp.zeros((self.cap, W), jnp.int32), jnp.zeros((self.cap, self.nf), jnp.float32),
                jnp.zeros((self.cap, 2), jnp.uint32), jnp.asarray(0, jnp.int32))
        post = self.tun_fn(inner)
        logs = self._rec(logs, prng_key, 1, None, post, post)
        return WrapState(inner, *logs)

    def _simple(self, kind, fn, prng_key, st, model_state, epoch):
        pre = self.tun_fn(st.inner)
        inner = fn(prng_key, st.inner, model_state, epoch)
        logs = self._rec(self._logs(st), prng_key, kind, epoch, pre, self.tun_fn(inner))
        return WrapState(inner, *logs)

    def start_epoch(self, prng_key, kernel_state, model_state, epoch):
        return self._simple(2, self.inner.start_epoch, prng_key, kernel_state, model_state, epoch)

    def end_epoch(self, prng_key, kernel_state, model_state, epoch):
        return self._simple(4, self.inner.end_epoch, prng_key, kernel_state, model_state, epoch)

    def transition(self, prng_key, kernel_state, model_state, epoch):
        pre = self.tun_fn(kernel_state.inner)
        out = self.inner.transition(prng_key, kernel_state.inner, model_state, epoch)
        obs = None
        if self.obs_fn is not None:
            obs = self.obs_fn(self._model, model_state, out.model_state, out.info, epoch, prng_key)
        logs = self._rec(self._logs(kernel_state), prng_key, 3, epoch, pre, self.tun_fn(out.kernel_state),
                         acc=out.info.acceptance_prob, code=out.info.error_code,
                         moved=out.info.position_moved, obs=obs)
        return TransitionOutcome(out.info, WrapState(out.kernel_state, *logs), out.model_state)

    def tune(self, prng_key, kernel_state, model_state, epoch, history):
        pre = self.tun_fn(kernel_state.inner)
        out = self.inner.tune(prng_key, kernel_state.inner, model_state, epoch, history)
        hl = -1
        if history is not None:
            hl = jax.tree_util.tree_leaves(history)[0].shape[0]
        logs = self._rec(self._logs(kernel_state), prng_key, 5, epoch, pre, self.tun_fn(out.kernel_state),
                         code=hl)
        return TuningOutcome(out.info, WrapState(out.kernel_state, *logs))

    def end_warmup(self, prng_key, kernel_state, model_state, tuning_history):
        pre = self.tun_fn(kernel_state.inner)
        out = self.inner.end_warmup(prng_key, kernel_state.inner, model_state, tuning_history)
        logs = self._rec(self._logs(kernel_state), prng_key, 6, None, pre, self.tun_fn(out.kernel_state))
        return WarmupOutcome(out.error_code, WrapState(out.kernel_state, *logs))


def read_wrap_logs(engine, kernels):
    """Per (chain, kernel index): list of event dicts for WrapKernel states."""
    kss = getattr(engine, "_kernel_states")
    out = {}
    for ki, ks in enumerate(kss):
        if not isinstance(ks, WrapState):
            continue
        nt = kernels[ki].n_tun
        ilog, flog, keys, cur = (np.asarray(x) for x in (ks.ilog, ks.flog, ks.keys, ks.cur))
        for c in range(ilog.shape[0]):
            n = int(cur[c])
            if n > ilog.shape[1]:
                raise RuntimeError("wrap probe log overflow")
            evs = []
            for i in range(n):
                r = [int(x) for x in ilog[c, i]]
                f = [float(x) for x in flog[c, i]]
                evs.append({"kind": KINDS[r[0]], "epoch": r[1], "etype": r[2], "time": r[3], "tie": r[4],
                            "dur": r[5], "code": r[6], "moved": r[7],
                            "pre": f[:nt], "post": f[nt:2 * nt], "acc": f[2 * nt], "obs": f[2 * nt + 1:],
                            "key": f"{int(keys[c, i, 0])}:{int(keys[c, i, 1])}"})
            out[(c, ki)] = evs
    return out


class ProbeQG:
    """Quantity generator that reports what it was given: the (min over elements of the)
    values of all kernel keys, the epoch's time / time_in_epoch and its PRNG key."""

    error_book = {0: "no errors"}

    def __init__(self, identifier, all_keys):
        self.identifier = identifier
        self.all_keys = tuple(all_keys)
        self._model = None

    def set_model(self, model):
        self._model = model

    def has_model(self):
        return self._model is not None

    def generate(self, prng_key, model_state, epoch):
        pos = self._model.extract_position(self.all_keys, model_state)
        return {"seen": jnp.stack([jnp.min(jnp.asarray(pos[k], jnp.float32)) for k in self.all_keys]),
                "tie": jnp.asarray(epoch.time_in_epoch, jnp.int32), "time": jnp.asarray(epoch.time, jnp.int32),
                "key": jnp.asarray(prng_key, jnp.uint32).reshape(2)}
