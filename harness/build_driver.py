"""Driver for Trace_LieselBuild.tla (C15): a fixed universe of real user objects
  1 "a"  Value            2 "b"  Calc(a)        3 ""  Calc(b, s) (unnamed)
  4 "s"  Calc(needs_seed)
driven through random sequences of add / build(copy) / guarded-mutator attempts / pop /
copies (deepcopy, copy_nodes_and_vars + rebuild, save + load) / assignments.  After each
operation the observable projection of every live model is recorded."""
from __future__ import annotations

import copy as _copy
import io
import json

import jax.numpy as jnp
import numpy as np
import networkx as nx

import liesel.model as lsl
from liesel.model.model import load_model, save_model

USER = {1: "a", 2: "b", 3: "", 4: "s"}
UIN = {1: [], 2: [1], 3: [2, 4], 4: []}


def closure(objs, uin=None):
    uin = uin or UIN
    todo, seen = list(objs), set()
    while todo:
        o = todo.pop()
        if o not in seen:
            seen.add(o)
            todo += uin[o]
    return seen


def classify(ex):
    msg = str(ex)
    if "reserved name" in msg:
        return "reserved_name"
    if "Duplicate" in msg:
        return "duplicate_names"
    if "can only be part of one model" in msg:
        return "already_in_model"
    if isinstance(ex, nx.NetworkXUnfeasible) or "cycle" in msg:
        return "cycle"
    if "is part of a model" in msg:
        return "frozen"
    return "other:" + type(ex).__name__ + ":" + msg[:80]


class World:
    def __init__(self, user_seed=False):
        """user_seed: the seeded node s gets its seed from a value node `us` (object 5) the user wired in as keyword
        input `seed` - the model then adds no seed node of its own for it, and the input is the user's to keep."""
        self.a = lsl.Value(jnp.float32(1.0), _name="a")
        self.b = lsl.Calc(lambda a: a + 1.0, self.a, _name="b")
        self.uin = dict(UIN)
        if user_seed:
            import jax
            self.us = lsl.Value(jax.random.PRNGKey(5), _name="us")
            self.s = lsl.Calc(lambda seed=None: jnp.float32(0.5), seed=self.us, _needs_seed=True, _name="s")
            self.uin.update({4: [5], 5: []})
        else:
            self.s = lsl.Calc(lambda seed=None: jnp.float32(0.5), _needs_seed=True, _name="s")
        self.c = lsl.Calc(lambda b, s: b + s, self.b, self.s)
        self.obj = {1: self.a, 2: self.b, 3: self.c, 4: self.s}
        if user_seed:
            self.obj[5] = self.us
        # a group over a (value node) and c (the calculator at the root)
        self.group = lsl.Group("g", first=self.a, root=self.c)
        self.gmembers = [1, 3]
        self.gb = lsl.GraphBuilder()
        self.models = {}          # id -> (Model, {user id -> node in that model})
        self.n = 0

    # ---- observation ------------------------------------------------------------
    def proj(self, mid):
        model, nodes = self.models[mid]
        names = sorted(model.nodes)
        rec = {"names": names,
               "inputs": {str(o): sorted(n.name for n in nd.all_input_nodes()) for o, nd in nodes.items()},
               "vals": {str(o): float(nd.value) for o, nd in nodes.items() if nd.value is not None and jnp.ndim(nd.value) == 0},
               "objs": sorted(nodes)}
        # structural facts read from the real model
        order = {nd.name: i for i, nd in enumerate(model._sorted_nodes)}
        rec["topo_ok"] = all(order[i.name] < order[nd.name] for nd in model.nodes.values()
                             for i in nd.all_input_nodes())
        # groups as the model reports them: name -> member keys and the names of the members
        rec["groups"] = sorted([g, sorted(grp.nodes_and_vars), sorted(m.name for m in grp.nodes_and_vars.values())]
                               for g, grp in model.groups().items())

        def outs(nd):
            # `outputs` refuses to answer for a node that does not know its model
            try:
                return nd.outputs
            except RuntimeError:
                return None

        every = list(model.nodes.values()) + [i for nd in model.nodes.values() for i in nd.all_input_nodes()]
        rec["members_ok"] = all(nd.model is model for nd in every)
        rec["outputs_inverse_ok"] = all(outs(nd) is not None for nd in every) and all(
            (nd in outs(i)) for nd in model.nodes.values() for i in nd.all_input_nodes()) and all(
            (nd in o.all_input_nodes()) for nd in model.nodes.values() for o in outs(nd))
        rec["closed"] = all(i.name in model.nodes and model.nodes[i.name] is i
                            for nd in model.nodes.values() for i in nd.all_input_nodes())
        rec["full"] = json.dumps({n: [type(nd).__name__, sorted(i.name for i in nd.all_input_nodes()),
                                      None if outs(nd) is None else sorted(o.name for o in outs(nd)),
                                      None if nd.value is None else [float(x) for x in jnp.ravel(jnp.asarray(nd.value, jnp.float32))],
                                      bool(nd.outdated), sorted(nd.groups)] for n, nd in sorted(model.nodes.items())}, sort_keys=True) \
            + json.dumps(rec["groups"])
        return rec

    def user_names(self):
        return [self.obj[o].name for o in sorted(self.obj)]

    def all_projs(self):
        return {str(m): self.proj(m) for m in sorted(self.models)}

    # ---- operations -----------------------------------------------------------------
    def add(self, o):
        crash = ""
        try:
            self.gb.add(self.obj[o])
        except Exception as ex:  # noqa: BLE001  (adding an object to a builder never fails for these universes)
            crash = f"{type(ex).__name__}: {ex}"[:200]
            self.broken = True
        self.added = getattr(self, "added", set()) | {o}
        return {"ev": "add", "o": o, "crash": crash}

    def build(self, copy, ctor=False):
        """ctor (with copy): the copy is made by the Model constructor itself, Model(<added objects>, copy=True)"""
        # (the constructor grows the graph by building a temporary model of the originals first, which objects frozen in a
        # live model refuse: that route is only taken for free objects)
        ctor = bool(ctor and copy and all(self.obj[o].model is None for o in closure(getattr(self, "added", set()), getattr(self, "uin", None))))
        ev = {"ev": "build", "copy": copy, "ctor": ctor}
        try:
            if ctor:
                model = lsl.Model(list(self.gb.nodes) + list(self.gb.vars), copy=True)
            else:
                model = self.gb.build_model(copy=copy)
            self.n += 1
            cl = closure(self.added, getattr(self, "uin", None))
            if copy:
                nodes = {o: model.nodes[self.obj[o].name] for o in cl}
            else:
                nodes = {o: self.obj[o] for o in cl}
                self.added = set()
            self.models[self.n] = (model, nodes)
            ev.update({"ok": True, "reason": "none", "m": self.n, "proj": self.proj(self.n)})
        except Exception as ex:  # noqa: BLE001
            ev.update({"ok": False, "reason": classify(ex)})
        ev["user_names"] = self.user_names()
        return ev

    MUTATORS = ["name", "needs_seed", "set_inputs", "add_inputs", "function", "claimed_by_free_var"]

    def mutate(self, o, which):
        nd = self.obj[o]
        before = (nd.name, nd.needs_seed, tuple(nd.inputs), tuple(sorted(nd.kwinputs)), getattr(nd, "function", None), nd.var)
        ev = {"ev": "mutate", "o": o, "which": which}
        if which == "claimed_by_free_var" and not nd.model:
            which = "needs_seed"       # (a free node would really become the variable's value node: only tried on frozen ones)
        try:
            if which == "claimed_by_free_var":
                # a variable outside every model tries to take the node as its value node
                lsl.Var(0.0, name="free_tmp").value_node = nd
            elif which == "name":
                nd.name = "z"
            elif which == "needs_seed":
                nd.needs_seed = nd.needs_seed
            elif which == "set_inputs":
                nd.set_inputs(*nd.inputs, **dict(nd.kwinputs))
            elif which == "add_inputs":
                nd.add_inputs()
            elif which == "function":
                if hasattr(nd, "function"):
                    nd.function = nd.function
                else:
                    nd.name = nd.name
            ev["raised"] = False
            ev["reason"] = "none"
        except Exception as ex:  # noqa: BLE001
            ev["raised"] = True
            ev["reason"] = classify(ex)
        after = (nd.name, nd.needs_seed, tuple(nd.inputs), tuple(sorted(nd.kwinputs)), getattr(nd, "function", None), nd.var)
        ev["unchanged"] = before == after
        ev["user_names"] = self.user_names()
        return ev

    def pop(self, m):
        model, nodes = self.models.pop(m)
        model.pop_nodes_and_vars()
        return {"ev": "pop", "m": m, "user_names": self.user_names()}

    def drop(self, m):
        """Release the last reference to a model without popping it."""
        import gc

        del self.models[m]
        gc.collect()
        return {"ev": "drop", "m": m, "user_names": self.user_names()}

    def copy_model(self, m, how):
        model, nodes = self.models[m]
        ev = {"ev": "copy", "m": m, "how": how}
        before = self.proj(m)["full"]
        try:
            if how == "deepcopy":
                new = _copy.deepcopy(model)
            elif how == "save_load":
                buf = io.BytesIO()
                save_model(model, buf)
                buf.seek(0)
                new = load_model(buf)
            else:  # copy_nodes_and_vars + rebuild
                nds, vrs = model.copy_nodes_and_vars()
                new = lsl.GraphBuilder().add(*nds.values(), *vrs.values()).build_model()
            self.n += 1
            self.models[self.n] = (new, {o: new.nodes[nd.name] for o, nd in nodes.items()})
            p = self.proj(self.n)
            ev.update({"ok": True, "reason": "none", "new": self.n, "proj": p, "same_as_original": p["full"] == before,
                       "shares_objects": any(new.nodes[k] is model.nodes[k] for k in new.nodes if k in model.nodes)})
        except Exception as ex:  # noqa: BLE001
            ev.update({"ok": False, "reason": classify(ex)})
        ev["original_unchanged"] = self.proj(m)["full"] == before
        return ev

    def assign(self, m, x):
        model, nodes = self.models[m]
        others = {k: self.proj(k)["full"] for k in self.models if k != m}
        try:
            nodes[1].value = jnp.float32(x)
            crash = ""
        except Exception as ex:  # noqa: BLE001
            crash = f"{type(ex).__name__}: {ex}"[:200]
        ev = {"ev": "assign", "m": m, "x": x, "proj": self.proj(m), "crash": crash,
              "others_unchanged": all(self.proj(k)["full"] == v for k, v in others.items())}
        return ev


def random_trace(rng, nops=14, user_seed=False):
    w = World(user_seed)
    objs = sorted(w.obj)
    ev = []
    popped = None
    for _ in range(nops):
        if getattr(w, "broken", False):
            break
        r = rng.random()
        live = sorted(w.models)
        if r < 0.25:
            if popped and rng.random() < 0.7:
                for o in popped:
                    ev.append(w.add(o))
                popped = None
            else:
                ev.append(w.add(rng.choice(objs + [3, 3])))
        elif r < 0.45:
            if w.n < 3 and (w.gb.nodes or w.gb.vars):
                ev.append(w.build(rng.random() < 0.25, ctor=rng.random() < 0.4))
        elif r < 0.6:
            ev.append(w.mutate(rng.choice(objs), rng.choice(World.MUTATORS)))
        elif r < 0.72 and live:
            m = rng.choice(live)
            # only models that hold the user's own objects can be popped back into the user's hands
            if all(w.models[m][1][o] is w.obj[o] for o in w.models[m][1]):
                popped = sorted(w.models[m][1])
                ev.append(w.pop(m))
        elif r < 0.77 and live:
            m = rng.choice(live)
            if all(w.models[m][1][o] is w.obj[o] for o in w.models[m][1]):
                ev.append(w.drop(m))
        elif r < 0.88 and live and w.n < 3:
            ev.append(w.copy_model(rng.choice(live), rng.choice(["deepcopy", "save_load", "copy_rebuild"])))
        elif live:
            m = rng.choice(live)
            if 1 in w.models[m][1]:
                ev.append(w.assign(m, rng.choice([2.0, 3.0, 5.0])))
    return {"hdr": {"universe": "abcsu" if user_seed else "abcs"}, "ev": ev}


def dropped_then_subgraph_traces():
    """A model is built from the whole graph and dropped without popping its nodes (they are free again once the model
    is collected); then a model is built from a *part* of the graph and a value is assigned in it; and the same after a
    pop.  The nodes that stayed outside must play no role in the new model."""
    out = []
    for how in ("drop", "pop"):
        for first, second in (((3,), (2,)), ((3,), (1,)), ((3,), (4,)), ((2,), (1,))):
            w = World()
            ev = [w.add(o) for o in first]
            ev.append(w.build(False))
            ev.append(w.drop(1) if how == "drop" else w.pop(1))
            ev += [w.add(o) for o in second]
            ev.append(w.build(False))
            if 1 in w.models.get(w.n, (None, {}))[1]:
                ev.append(w.assign(w.n, 3.0))
            ev += [w.add(o) for o in first]
            ev.append(w.build(True))
            out.append({"hdr": {"universe": "abcs"}, "ev": ev})
    return out


def cyclic_trace(copy=False, seeded=False, hold=False):
    """Deliberately cyclic universe 1 <- 2 <- 3 <- 1 (4 free): the build must be rejected
    and must leave the nodes unfrozen.  seeded: node 2 needs a seed (the model attaches a seed input to it while
    building); hold: the caller keeps the exception of the rejected build (and with it the half-built model) alive."""
    w = World.__new__(World)
    n1 = lsl.Calc(lambda x: x, lsl.Value(0.0), _name="a", update_on_init=False)
    n2 = lsl.Calc((lambda x, seed=None: x) if seeded else (lambda x: x), n1, _name="b", update_on_init=False,
                  _needs_seed=seeded)
    n3 = lsl.Calc(lambda x: x, n2, update_on_init=False)
    n1.set_inputs(n3)
    n4 = lsl.Value(1.0, _name="s")
    w.obj = {1: n1, 2: n2, 3: n3, 4: n4}
    w.gb = lsl.GraphBuilder()
    w.models, w.n = {}, 0
    ev = [w.add(2)]
    e = {"ev": "build", "copy": copy}
    try:
        w.gb.build_model(copy=copy)
        e.update({"ok": True, "reason": "none"})
    except Exception as ex:  # noqa: BLE001
        e.update({"ok": False, "reason": classify(ex)})
        if hold:
            w.held = ex
    e["user_names"] = w.user_names()
    e["seed_inputs_left"] = sorted(kw for nd in (n1, n2, n3) for kw, i in nd.kwinputs.items() if i.name.startswith("_model"))
    ev.append(e)
    ev.append(w.mutate(2, "function"))
    ev.append(w.mutate(1, "name"))
    return {"hdr": {"universe": "cyclic"}, "ev": ev}


# ---- models with variables and distribution nodes: structural facts of one build -----------------------------
def plan_build_trace(rng, n=6):
    """Random plans of harness.graph_driver (Vars with proxies, weak Vars, Dist / TransientDist with `at`) are built;
    the event reports what the real model recorded (update order, outputs, names) next to the plan."""
    from harness import graph_driver as G

    ev = []
    for _ in range(n):
        plan = G.gen_plan(rng, nmax=9)
        run = G.GraphRun(plan)
        m = run.model
        ids = {f"n{i}": i for i in range(1, run.n + 1)}
        own = [nd for nd in m._sorted_nodes if nd.name in ids]
        ev.append({"ev": "plan_built", "inp": [p["inp"] for p in plan], "kinds": [p["kind"] for p in plan],
                   "order": [ids[nd.name] for nd in own],
                   "outs": [sorted(ids[o.name] for o in m.nodes[f"n{i}"].outputs if o.name in ids) for i in range(1, run.n + 1)],
                   "all_names": sorted(m.nodes) + sorted("var:" + v for v in m.vars),
                   "frozen": all(nd.model is m for nd in m.nodes.values()),
                   "var_nodes_present": all(nd.name in m.nodes for v in m.vars.values() for nd in v.nodes)})
    return {"hdr": {"universe": "plans"}, "ev": ev}


def moved_dist_events():
    """A distribution node that the graph has already been walked over gets its evaluation point afterwards, and is later
    moved to another variable (pop, a.dist_node = None, b.dist_node = prior, rebuild): every build records the wiring
    that holds at that moment.  Plan ids: 1 a_value, 2 a_var_value, 3 b_value, 4 b_var_value, 5 the distribution."""
    import tensorflow_probability.substrates.jax.distributions as tfd
    ev = []
    a, b = lsl.Var(jnp.float32(1.0), name="a"), lsl.Var(jnp.float32(2.0), name="b")
    for v, (i, j) in ((a, (1, 2)), (b, (3, 4))):
        v.value_node.name, v.var_value_node.name = f"n{i}", f"n{j}"
    prior = lsl.Dist(tfd.Normal, loc=0.0, scale=1.0, _name="n5")
    lsl.GraphBuilder().add(prior)            # the builder walks the graph of the still unattached distribution node
    prior.all_input_nodes()
    ids = {f"n{i}": i for i in range(1, 6)}

    def built(at):
        m = lsl.GraphBuilder().add(a, b).build_model()
        own = [nd for nd in m._sorted_nodes if nd.name in ids]
        inp = [[], [1], [], [3], [at]]
        e = {"ev": "plan_built", "inp": inp, "kinds": ["v", "p", "v", "p", "d"], "order": [ids[nd.name] for nd in own],
             "outs": [sorted(ids[o.name] for o in m.nodes[f"n{i}"].outputs if o.name in ids) for i in range(1, 6)],
             "all_names": sorted(m.nodes) + sorted("var:" + v for v in m.vars),
             "frozen": all(nd.model is m for nd in m.nodes.values()),
             "var_nodes_present": all(nd.name in m.nodes for v in m.vars.values() for nd in v.nodes)}
        return m, e

    a.dist_node = prior
    m, e = built(2)
    ev.append(e)
    m.pop_nodes_and_vars()
    a.dist_node = None
    b.dist_node = prior
    m, e = built(4)
    ev.append(e)
    return {"hdr": {"universe": "plans"}, "ev": ev}


def direct_value_consumer_events():
    """A variable without a distribution that the builder only finds because a calculator reads its *value node*
    directly (legal; the variable itself is never added): the model holds the variable with all of its nodes, the proxy
    included.  Plan ids: 1 x_value, 2 x_var_value, 3 the calculator; with a second, distributed variable read the same
    way: 4 y_value, 5 y_var_value, 6 its distribution node, 7 a calculator on y's value node."""
    import tensorflow_probability.substrates.jax.distributions as tfd
    ev = []
    for with_dist in (False, True):
        x = lsl.Var(jnp.float32(1.0), name="x")
        x.value_node.name, x.var_value_node.name = "n1", "n2"
        c = lsl.Calc(lambda v: v + 1.0, x.value_node, _name="n3")
        inp, kinds, roots = [[], [1], [1]], ["v", "p", "c"], [c]
        if with_dist:
            y = lsl.Var(jnp.float32(2.0), lsl.Dist(tfd.Normal, loc=0.0, scale=1.0, _name="n6"), name="y")
            y.value_node.name, y.var_value_node.name = "n4", "n5"
            c2 = lsl.Calc(lambda v: 2.0 * v, y.value_node, _name="n7")
            inp, kinds, roots = inp + [[], [4], [5], [4]], kinds + ["v", "p", "d", "c"], [c, c2]
        ids = {f"n{i}": i for i in range(1, len(kinds) + 1)}
        e = {"ev": "plan_built", "inp": inp, "kinds": kinds}
        try:
            m = lsl.GraphBuilder().add(*roots).build_model()
            own = [nd for nd in m._sorted_nodes if nd.name in ids]
            e.update({"order": [ids[nd.name] for nd in own],
                      "outs": [sorted(ids[o.name] for o in m.nodes[f"n{i}"].outputs if o.name in ids) if f"n{i}" in m.nodes else [-1]
                               for i in range(1, len(kinds) + 1)],
                      "all_names": sorted(m.nodes) + sorted("var:" + v for v in m.vars),
                      "frozen": all(nd.model is m for nd in m.nodes.values()),
                      "var_nodes_present": all(nd.name in m.nodes for v in m.vars.values() for nd in v.nodes)})
        except Exception as ex:  # noqa: BLE001
            e.update({"order": [], "outs": [], "all_names": ["crash:" + classify(ex)], "frozen": False, "var_nodes_present": False})
        ev.append(e)
    return {"hdr": {"universe": "plans"}, "ev": ev}


def user_total_nodes_events():
    """A builder with a user-defined log-likelihood node is built with copy=True several times: every model uses the
    user's node (the builder keeps what it was given)."""
    import tensorflow_probability.substrates.jax.distributions as tfd
    ev = {"ev": "copy_behaviour", "how": "build_copy_true_user_nodes", "crash": "", "copy_follows_its_own_values": False,
          "original_unaffected": True, "copy_unaffected_by_original": True}
    try:
        mu = lsl.Var(jnp.float32(0.5), lsl.Dist(tfd.Normal, loc=0.0, scale=1.0), name="mu")
        y = lsl.Var(jnp.asarray([0.2, 0.9], jnp.float32), lsl.Dist(tfd.Normal, loc=mu, scale=1.0), name="y")
        y.observed = True
        gb = lsl.GraphBuilder().add(y)
        gb.log_lik_node = lsl.Calc(lambda ll: 2.0 * jnp.sum(ll), y.dist_node, _name="tempered_lik")
        lls = [float(gb.build_model(copy=True).log_lik) for _ in range(3)]
        direct = 2.0 * float(np.sum(np.asarray(tfd.Normal(0.5, 1.0).log_prob(jnp.asarray([0.2, 0.9], jnp.float32)))))
        ev["copy_follows_its_own_values"] = all(abs(v - direct) < 1e-4 for v in lls)
    except Exception as ex:  # noqa: BLE001
        ev["crash"] = f"{type(ex).__name__}: {ex}"[:200]
    return {"hdr": {"universe": "plans"}, "ev": [ev]}


def rejected_build_events():
    """Graphs that must be rejected: a cycle that runs through the `at` edge of a distribution node, duplicate node /
    variable names, two different groups of the same name (also when one holds only nodes and the other only vars)."""
    import tensorflow_probability.substrates.jax.distributions as tfd
    out = []

    def attempt(what, build, expect):
        try:
            build()
            got = "accepted"
        except Exception as ex:  # noqa: BLE001
            got = classify(ex)
        out.append({"ev": "must_reject", "what": what, "got": got, "expect": expect})

    def cyc_at():
        # a variable whose value is computed from its own log-prob node
        d = lsl.Dist(tfd.Normal, loc=0.0, scale=1.0)
        z = lsl.Var(lsl.Calc(lambda lp: lp * 0.0 + 1.0, d), d, name="z")
        lsl.GraphBuilder().add(z).build_model()

    def dup_nodes():
        a, b = lsl.Value(1.0, _name="x"), lsl.Value(2.0, _name="x")
        lsl.GraphBuilder().add(lsl.Calc(lambda u, v: u + v, a, b, _name="c")).build_model()

    def dup_vars():
        a, b = lsl.Var(1.0, name="v"), lsl.Var(2.0, name="v")
        b.value_node.name = "other_value"
        b.var_value_node.name = "other_var_value"
        lsl.GraphBuilder().add(lsl.Var(lsl.Calc(lambda u, v: u + v, a, b), name="c")).build_model()

    def dup_groups(kind1, kind2):
        def f():
            a, b = lsl.Value(1.0, _name="a"), lsl.Value(2.0, _name="b")
            va, vb = lsl.Var(a, name="va"), lsl.Var(b, name="vb")
            lsl.Group("g", m=(a if kind1 == "node" else va))
            lsl.Group("g", m=(b if kind2 == "node" else vb))
            lsl.GraphBuilder().add(lsl.Calc(lambda u, v: u + v, va, vb, _name="c")).build_model()
        return f

    def auto_clash():
        # a variable asks for an automatic transformation, and a variable with the name the new variable would get is
        # already there: the build is rejected - and a rejected build leaves the user's variables as they were
        sv = lsl.param(1.0, lsl.Dist(tfd.HalfCauchy, loc=0.0, scale=25.0), name="s")
        sv.auto_transform = True
        other = lsl.Var(0.0, name="s_transformed")
        y = lsl.Var(lsl.Calc(lambda a, b: a + b, sv, other), name="y")
        before = (bool(sv.weak), bool(sv.has_dist), bool(sv.parameter), bool(sv.auto_transform))
        try:
            lsl.GraphBuilder().add(y).build_model()
            got = "accepted"
        except RuntimeError as ex:
            got = "duplicate_names" if ("Duplicate" in str(ex) or "already present" in str(ex)) else classify(ex)
        after = (bool(sv.weak), bool(sv.has_dist), bool(sv.parameter), bool(sv.auto_transform))
        out.append({"ev": "must_reject", "what": "auto_transform_name_clash", "got": got, "expect": "duplicate_names",
                    "unchanged": before == after})

    auto_clash()
    attempt("cycle_through_at", cyc_at, "cycle")
    attempt("duplicate_node_names", dup_nodes, "duplicate_names")
    attempt("duplicate_var_names", dup_vars, "duplicate_names")
    for k1, k2 in (("node", "node"), ("var", "var"), ("node", "var"), ("var", "node")):
        attempt(f"duplicate_group_names_{k1}_{k2}", dup_groups(k1, k2), "duplicate_names")
    return {"hdr": {"universe": "plans"}, "ev": out}


def copy_behaviour_events():
    """Copies of a model must *behave* like the original and independently of it: a model with a default-transformed
    variable whose bijector depends on another variable (u ~ Uniform(0, hi), u.transform()) is copied in every way the
    library offers; then `hi` is changed in the copy (closed form for u) and afterwards in the original."""
    import tensorflow_probability.substrates.jax.distributions as tfd
    out = []

    def make():
        hi = lsl.Var(jnp.float32(2.0), name="hi")
        u = lsl.Var(jnp.float32(0.8), lsl.Dist(tfd.Uniform, low=0.0, high=hi), name="u")
        ut = u.transform()
        y = lsl.Var(lsl.Calc(lambda u: 10.0 * u, u), name="y")
        return lsl.GraphBuilder().add(y, ut), ut

    def u_expected(m):
        h, t = float(m.vars["hi"].value), float(m.vars["u_transformed"].value)
        return h / (1.0 + np.exp(-t))

    for how in ("deepcopy", "save_load", "copy_rebuild", "build_copy_true"):
        ev = {"ev": "copy_behaviour", "how": how, "crash": ""}
        try:
            gb, _ = make()
            if how == "build_copy_true":
                orig = gb.build_model(copy=True)
                new = gb.build_model(copy=True)
            else:
                orig = gb.build_model()
                if how == "deepcopy":
                    new = _copy.deepcopy(orig)
                elif how == "save_load":
                    buf = io.BytesIO()
                    save_model(orig, buf)
                    buf.seek(0)
                    new = load_model(buf)
                else:
                    nds, vrs = orig.copy_nodes_and_vars()
                    new = lsl.GraphBuilder().add(*nds.values(), *vrs.values()).build_model()
            new.vars["hi"].value = jnp.float32(5.0)
            ev["copy_follows_its_own_values"] = bool(abs(float(new.vars["u"].value) - u_expected(new)) < 1e-4
                                                     and abs(float(new.vars["y"].value) - 10 * u_expected(new)) < 1e-3)
            ev["original_unaffected"] = bool(abs(float(orig.vars["hi"].value) - 2.0) < 1e-6
                                             and abs(float(orig.vars["u"].value) - u_expected(orig)) < 1e-4)
            before = float(new.vars["u"].value)
            orig.vars["hi"].value = jnp.float32(9.0)
            ev["copy_unaffected_by_original"] = bool(float(new.vars["u"].value) == before
                                                     and abs(float(orig.vars["u"].value) - u_expected(orig)) < 1e-4)
        except Exception as ex:  # noqa: BLE001
            ev["crash"] = f"{type(ex).__name__}: {ex}"[:200]
            ev.update({"copy_follows_its_own_values": False, "original_unaffected": False, "copy_unaffected_by_original": False})
        out.append(ev)
    return {"hdr": {"universe": "plans"}, "ev": out}
