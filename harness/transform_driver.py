"""Driver for Trace_Transform.tla (C14)."""
from __future__ import annotations

import jax.numpy as jnp
import numpy as np
import tensorflow_probability.substrates.jax.bijectors as tfb
import tensorflow_probability.substrates.jax.distributions as tfd

import liesel.model as lsl
from vlib.core import fstr


def fl(x):
    return [fstr(np.float32(v)) for v in np.ravel(np.asarray(x, np.float32))]


def fldj_total(b, t):
    """log|det db/dt| summed over the elements of t (TFP returns a scalar for bijectors
    with constant Jacobian)."""
    t = jnp.asarray(t)
    return jnp.sum(jnp.broadcast_to(b.forward_log_det_jacobian(t), t.shape))


def fsum(x):
    return fstr(np.float32(np.sum(np.asarray(x, np.float64))))


# (name, dist class, parameter spec, initial value in the support, admissible t values)
# parameter spec: dict kw -> float (constant) or ("var", name, value)
CASES = {
    "exponential": (tfd.Exponential, {"rate": 1.5}, 0.7),
    "gamma_varparam": (tfd.Gamma, {"concentration": ("var", "a", 3.0), "rate": 2.0}, 1.3),
    "invgamma": (tfd.InverseGamma, {"concentration": 2.5, "scale": ("var", "b", 1.2)}, 0.6),
    "halfnormal": (tfd.HalfNormal, {"scale": 2.0}, 0.9),
    "halfcauchy": (tfd.HalfCauchy, {"loc": 0.0, "scale": 1.0}, 1.1),
    "beta": (tfd.Beta, {"concentration1": 2.0, "concentration0": 3.0}, 0.3),
    "uniform_varhi": (tfd.Uniform, {"low": 0.0, "high": ("var", "hi", 2.0)}, 1.0),
    "normal_vec": (tfd.Normal, {"loc": ("var", "m", 0.5), "scale": 1.5}, [0.2, -0.4, 1.0]),
    "lognormal": (tfd.LogNormal, {"loc": 0.0, "scale": 0.5}, 1.7),
    "uniform_pm1": (tfd.Uniform, {"low": -1.0, "high": 1.0}, 0.3),
    # the upper bound is a *weak* variable (2 * root): it is only as current as its last update
    "uniform_weakhi": (tfd.Uniform, {"low": 0.0, "high": ("weak", "hi", 1.0)}, 1.0),
    # both bounds are calculated, the lower one *from the upper one* (low = high / 4, high = 2 * root), and the deeper
    # one is listed first among the distribution's inputs
    "uniform_diamond": (tfd.Uniform, {"low": ("ratio", "lo", "high", 0.25), "high": ("weak", "hi", 1.0)}, 1.5),
}
# bijector choices: (spec name, mode, maker(params_vars) -> (args for transform, fn(param values) -> TFP bijector))
BIJ = {
    "exp_instance": ("instance", lambda pv: ((tfb.Exp(),), {}), lambda p: tfb.Exp()),
    "softplus_instance": ("instance", lambda pv: ((tfb.Softplus(),), {}), lambda p: tfb.Softplus()),
    "sigmoid_instance": ("instance", lambda pv: ((tfb.Sigmoid(),), {}), lambda p: tfb.Sigmoid()),
    "chain_instance": ("instance", lambda pv: ((tfb.Chain([tfb.Scale(2.0), tfb.Exp()]),), {}),
                       lambda p: tfb.Chain([tfb.Scale(2.0), tfb.Exp()])),
    "scale_class_const": ("class_args", lambda pv: ((tfb.Scale,), {"scale": 3.0}), lambda p: tfb.Scale(3.0)),
    "softplus_class_hinge": ("class_args", lambda pv: ((tfb.Softplus,), {"hinge_softness": 0.7}),
                             lambda p: tfb.Softplus(hinge_softness=0.7)),
    "scale_class_var": ("class_args", lambda pv: ((tfb.Scale,), {"scale": pv["__bv"]}), lambda p: tfb.Scale(p["__bv"])),
    # liesel's own bijector onto (-1, 1)
    "algsig_instance": ("instance", lambda pv: ((_algsig(),), {}), lambda p: _algsig()),
    "default": ("default", lambda pv: ((), {}), None),
    "auto": ("auto", lambda pv: ((), {}), None),
    "gb_default": ("deprecated_gb", lambda pv: ((), {}), None),
    "gb_exp_class": ("deprecated_gb", lambda pv: ((tfb.Exp,), {}), lambda p: tfb.Exp()),
}
# which bijectors make sense for which case (supports must match)
COMPAT = {
    "exponential": ["exp_instance", "softplus_instance", "softplus_class_hinge", "default", "auto", "gb_default", "gb_exp_class", "chain_instance"],
    "gamma_varparam": ["exp_instance", "default", "auto", "softplus_class_hinge", "gb_default"],
    "invgamma": ["exp_instance", "default", "auto", "gb_default", "softplus_instance"],
    "halfnormal": ["exp_instance", "default", "auto"],
    "halfcauchy": ["softplus_instance", "default", "gb_default"],
    "beta": ["sigmoid_instance", "default", "auto"],
    "uniform_varhi": ["default", "auto", "gb_default"],
    "normal_vec": ["scale_class_const", "scale_class_var"],
    "lognormal": ["exp_instance", "default"],
    "uniform_pm1": ["algsig_instance"],
    "uniform_weakhi": ["default", "gb_default", "auto"],
    "uniform_diamond": ["default", "auto"],
}


def _algsig():
    from liesel.bijectors import AlgebraicSigmoid
    return AlgebraicSigmoid()


def one_trace(rng, case, bname, parameter=True, observed=False, via_copy=False, per_obs=True, fail_first=False,
              stale_before=False, stale_bij=False, transform_bij_arg=False):
    """via_copy: the assignments are made on a deep copy of the built model (what the Goose interface and
    build_model(copy=True) work on); per_obs: the flag of the original distribution node."""
    dist_cls, pspec, x0 = CASES[case]
    mode, mk, bij_of = BIJ[bname]
    pvars, pvals = {}, {}
    kw = {}
    pfactor = {}
    ratios = {}
    for k, v in pspec.items():
        if isinstance(v, tuple) and v[0] == "ratio":
            continue
        if isinstance(v, tuple) and v[0] == "weak":
            root = lsl.Var(jnp.float32(v[2]), name=v[1] + "_root")
            kw[k] = lsl.Var(lsl.Calc(lambda r: 2.0 * r, root), name=v[1])
            pvars[k], pvals[k], pfactor[k] = root, 2.0 * float(v[2]), 2.0
        elif isinstance(v, tuple):
            pv = lsl.Var(jnp.float32(v[2]), name=v[1])
            pvars[k], pvals[k] = pv, float(v[2])
            kw[k] = pv
        else:
            kw[k] = v
            pvals[k] = float(v)
    for k, v in pspec.items():
        if isinstance(v, tuple) and v[0] == "ratio":
            kw[k] = lsl.Var(lsl.Calc(lambda h, f=v[3]: f * h, kw[v[2]]), name=v[1])
            ratios[k] = (v[2], v[3])

    class _Derived(dict):
        """parameter values by keyword; the calculated ratios follow the entries they are calculated from"""
        def __getitem__(self, k):
            if k in ratios:
                return ratios[k][1] * dict.__getitem__(self, ratios[k][0])
            return dict.__getitem__(self, k)
    pvals = _Derived(pvals)
    kw = {k: kw[k] for k in pspec}          # keyword order as listed in the case
    bval = 2.0
    if stale_bij:
        # the bijector's argument is a calculated variable (2 * bv_root) whose root is changed before the transformation
        broot = lsl.Var(jnp.float32(1.0), name="bv_root")
        bvar = lsl.Var(lsl.Calc(lambda r: 2.0 * r, broot), name="bv")
        if stale_bij == "node":      # ... or a bare calculator node, not wrapped in a variable
            bvar = lsl.Calc(lambda r: 2.0 * r, broot, _name="bv_node")
        broot.value = jnp.float32(1.7)
        bval = float(np.float32(3.4))
    elif transform_bij_arg:
        # the variable given as bijector argument has a distribution of its own and is itself transformed afterwards
        bvar = lsl.Var(jnp.float32(2.0), lsl.Dist(tfd.Exponential, rate=1.0), name="bv")
    else:
        bvar = lsl.Var(jnp.float32(2.0), name="bv")
    pv_for_bij = {"__bv": bvar}
    x = lsl.Var(jnp.asarray(x0, jnp.float32), lsl.Dist(dist_cls, **kw), name="x")
    x.parameter, x.observed = parameter, observed
    x.dist_node.per_obs = per_obs
    hdr = {"via_copy": via_copy, "per_obs": per_obs, "case": case, "bij": bname, "mode": mode, "has_dist": True, "parameter": parameter, "observed": observed,
           "weak": False}

    def orig_dist(vals):
        return dist_cls(**{k: jnp.float32(vals[k]) for k in pspec})

    def bij_now(vals, bval=2.0):
        if bij_of is None:
            return orig_dist(vals).experimental_default_event_space_bijector()
        return bij_of({"__bv": jnp.float32(bval)})

    ev = []
    if fail_first:
        # a first call that raises half-way (misspelt bijector argument); the retry below must find everything as before
        f = {"ev": "transform", "bij": "<unconstructible>"}
        if mode == "auto":
            x.auto_transform = True       # requested before the failing manual call: the request must survive it
        try:
            x.transform(tfb.Softplus, hinge_softnes=0.7)
            f.update({"ok": True, "reason": "none"})
        except Exception:  # noqa: BLE001
            f.update({"ok": False, "reason": "bad_bijector"})
        f["names"] = ["x"]
        f["flags"] = {"x": {"weak": bool(x.weak), "has_dist": bool(x.has_dist), "parameter": bool(x.parameter),
                            "observed": bool(x.observed)}}
        ev.append(f)
    if stale_before and pvars:
        # a parameter variable gets a new value after the graph was created and before the transformation (nothing is
        # in a model yet, so nothing is flagged): the transformation must see the current value
        k = sorted(pvars)[0]
        pvals[k] = float(np.float32(pvals[k] * 1.7))
        pvars[k].value = jnp.float32(pvals[k] / pfactor.get(k, 1.0))
    e = {"ev": "transform", "bij": bname}
    gb = lsl.GraphBuilder()
    model = None
    try:
        args, kwargs = mk(pv_for_bij)
        if mode == "auto":
            if not fail_first:
                x.auto_transform = True
            model = gb.add(x, bvar).build_model()
            tv = model.vars["x_transformed"]
            xx = model.vars["x"]
        elif mode == "deprecated_gb":
            gb.add(x, bvar)
            tv = gb.transform(x, *args, **kwargs)
            xx = x
        else:
            tv = x.transform(*args, **kwargs)
            xx = x
        e.update({"ok": True, "reason": "none", "new_name": tv.name})
    except Exception as ex:  # noqa: BLE001
        e.update({"ok": False, "reason": "other:" + type(ex).__name__ + ":" + str(ex)[:120]})
        e["names"] = ["x"]
        e["flags"] = {"x": {"weak": bool(x.weak), "has_dist": bool(x.has_dist), "parameter": bool(x.parameter),
                            "observed": bool(x.observed)}}
        return {"hdr": hdr, "ev": ev + [e]}
    if model is None:
        try:
            extra = [bvar.transform(tfb.Exp())] if transform_bij_arg else []
            model = gb.add(xx, tv, bvar, *extra).build_model()
        except Exception as ex:  # noqa: BLE001  (the variables of an accepted transformation form one buildable graph)
            e.update({"ok": False, "reason": "build:" + type(ex).__name__ + ":" + str(ex)[:120], "names": ["x", "x_transformed"],
                      "flags": {n: {"weak": bool(v.weak), "has_dist": bool(v.has_dist), "parameter": bool(v.parameter),
                                    "observed": bool(v.observed)} for n, v in (("x", xx), ("x_transformed", tv))}})
            return {"hdr": hdr, "ev": ev + [e]}
    copy_ok = True
    if via_copy:
        import copy
        try:
            model = copy.deepcopy(model)
        except Exception:  # noqa: BLE001  (liesel copies models itself: interface, build_model(copy=True))
            copy_ok = False
    xx, tv = model.vars["x"], model.vars["x_transformed"]

    def flags():
        return {n: {"weak": bool(model.vars[n].weak), "has_dist": bool(model.vars[n].has_dist),
                    "parameter": bool(model.vars[n].parameter), "observed": bool(model.vars[n].observed)}
                for n in ("x", "x_transformed")}

    b = bij_now(pvals, bval)
    t0 = b.inverse(jnp.asarray(x0, jnp.float32))
    e.update({"names": ["x", "x_transformed"], "flags": flags(), "orig_value": fl(xx.value), "new_value": fl(tv.value),
              # (a second distributed variable - the transformed bijector argument - is taken out of the model's totals)
              "copy_ok": copy_ok,
              "model_log_prob": fsum(model.log_prob - (model.vars["bv_transformed"].log_prob if transform_bij_arg else 0.0)),
              "model_log_prior": fsum(model.log_prior - (model.vars["bv_transformed"].log_prob
                                                         if transform_bij_arg and model.vars["bv_transformed"].parameter else 0.0)),
              "new_log_prob": fsum(tv.log_prob), "new_per_obs": bool(tv.dist_node.per_obs),
              "new_lp_scalar": bool(np.ndim(tv.log_prob) == 0),
              "leaves": {"x": fl(x0), "t": fl(t0), "logp_b_t": fsum(orig_dist(pvals).log_prob(b.forward(t0))),
                         "fldj_t": fsum(fldj_total(b, t0))}})
    ev.append(e)
    for step in range(4):
        if step % 2 == 1 and (pvars or bname == "scale_class_var"):
            # change a parameter variable of the distribution / of the bijector
            if bname == "scale_class_var" and (not pvars or rng.random() < 0.5):
                bval = float(np.float32(rng.uniform(0.5, 4.0)))
                if transform_bij_arg:
                    model.vars["bv_transformed"].value = jnp.float32(np.log(bval))
                    bval = float(np.exp(np.float32(np.log(bval))))
                elif stale_bij:
                    model.vars["bv_root"].value = jnp.float32(bval / 2.0)
                else:
                    model.vars["bv"].value = jnp.float32(bval)
                target = "bv"
            else:
                k = rng.choice(sorted(pvars))
                newv = pvals[k] * rng.uniform(1.2, 2.5)
                pvals[k] = float(np.float32(newv))
                model.vars[pvars[k].name].value = jnp.float32(newv / pfactor.get(k, 1.0))
                target = pvars[k].name
        else:
            tnew = jnp.asarray(np.float32(rng.uniform(-1.5, 1.5)) + 0 * np.asarray(x0, np.float32))
            model.vars["x_transformed"].value = tnew
            target = "x_transformed"
        b = bij_now(pvals, bval)
        tcur = jnp.asarray(model.vars["x_transformed"].value)
        ev.append({"ev": "assign", "target": target, "names": ["x", "x_transformed"], "flags": flags(),
                   "orig_value": fl(model.vars["x"].value), "new_log_prob": fsum(model.vars["x_transformed"].log_prob),
                   "orig_log_prob": fstr(float(np.sum(np.asarray(model.vars["x"].log_prob)))),
                   "leaves": {"b_t": fl(b.forward(tcur)),
                              "logp_b_t": fsum(orig_dist(pvals).log_prob(b.forward(tcur))),
                              "fldj_t": fsum(fldj_total(b, tcur))}})
    return {"hdr": hdr, "ev": ev}


B2 = {"scale": lambda: tfb.Scale(0.5), "shift": lambda: tfb.Shift(1.25), "chain": lambda: tfb.Chain([tfb.Shift(-0.5), tfb.Scale(2.0)])}


def chained_trace(rng, case, b1name, b2name, first="var"):
    """x is transformed with a bijector instance, and the new unconstrained variable is transformed again
    (u = b2^-1(t), t = b1^-1(x)); the model holds all three; afterwards u and the distribution's parameter variables are
    assigned.  Leaves: x = b1(b2(u)), log p_u(u) = log p_x(b1(b2(u))) + fldj_b1(b2(u)) + fldj_b2(u)."""
    dist_cls, pspec, x0 = CASES[case]
    mode, mk, bij_of = BIJ[b1name]
    assert mode == "instance"
    pvars, pvals, kw = {}, {}, {}
    for k, v in pspec.items():
        if isinstance(v, tuple):
            pv = lsl.Var(jnp.float32(v[2]), name=v[1])
            pvars[k], pvals[k], kw[k] = pv, float(v[2]), pv
        else:
            kw[k], pvals[k] = v, float(v)
    x = lsl.Var(jnp.asarray(x0, jnp.float32), lsl.Dist(dist_cls, **kw), name="x")
    hdr = {"via_copy": False, "per_obs": True, "case": case, "bij": b1name + "+" + b2name, "mode": "instance", "has_dist": True,
           "parameter": True, "observed": False, "weak": False}
    x.parameter = True

    def orig_dist(vals):
        return dist_cls(**{k: jnp.float32(vals[k]) for k in pspec})

    b1, b2 = bij_of({}), B2[b2name]()
    names3 = ["x", "x_transformed", "x_transformed_transformed"]

    def flags_of(vs):
        return {n: {"weak": bool(v.weak), "has_dist": bool(v.has_dist), "parameter": bool(v.parameter), "observed": bool(v.observed)}
                for n, v in vs.items()}

    ev = []
    args, kwargs = mk({})
    if first == "gb":       # the first transformation through the deprecated builder method
        import warnings
        with warnings.catch_warnings():
            warnings.simplefilter("ignore")
            t = lsl.GraphBuilder().add(x).transform(x, *args, **kwargs)
        hdr["mode"] = "deprecated_gb"
    else:
        t = x.transform(*args, **kwargs)
    ev.append({"ev": "transform", "var": "x", "bij": b1name, "structural_only": True, "ok": True, "reason": "none",
               "new_name": t.name, "names": names3[:2], "flags": flags_of({"x": x, "x_transformed": t})})
    e = {"ev": "transform", "var": "x_transformed", "bij": b2name}
    try:
        u = t.transform(B2[b2name]())
        e.update({"ok": True, "reason": "none", "new_name": u.name})
    except Exception as ex:  # noqa: BLE001
        e.update({"ok": False, "reason": "other:" + type(ex).__name__ + ":" + str(ex)[:120], "names": names3[:2],
                  "flags": flags_of({"x": x, "x_transformed": t})})
        return {"hdr": hdr, "ev": ev + [e]}
    try:
        model = lsl.GraphBuilder().add(x, t, u).build_model()
    except Exception as ex:  # noqa: BLE001  (the three variables of a chain must form one buildable graph)
        e.update({"ok": False, "reason": "build:" + type(ex).__name__ + ":" + str(ex)[:120], "names": names3,
                  "flags": flags_of({"x": x, "x_transformed": t, "x_transformed_transformed": u})})
        return {"hdr": hdr, "ev": ev + [e]}
    present = [n for n in names3 if n in model.vars]

    def flags():
        return flags_of({n: model.vars[n] for n in present})

    def leaves(uval):
        tt = b2.forward(uval)
        xx = b1.forward(tt)
        return {"b_t": fl(xx), "logp_b_t": fsum(orig_dist(pvals).log_prob(xx)),
                "fldj_t": fstr(float(np.sum(np.asarray(fldj_total(b1, tt), np.float64)) + np.sum(np.asarray(fldj_total(b2, uval), np.float64))))}

    u0 = b2.inverse(b1.inverse(jnp.asarray(x0, jnp.float32)))
    uv = model.vars[u.name] if u.name in model.vars else u
    lv = leaves(u0)
    e.update({"names": present, "flags": flags(), "orig_value": fl(model.vars["x"].value), "new_value": fl(uv.value), "copy_ok": True,
              "model_log_prob": fsum(model.log_prob), "model_log_prior": fsum(model.log_prior), "new_log_prob": fsum(uv.log_prob),
              "new_per_obs": bool(uv.dist_node.per_obs), "new_lp_scalar": bool(np.ndim(uv.log_prob) == 0),
              "leaves": {"x": fl(x0), "t": fl(u0), "logp_b_t": lv["logp_b_t"], "fldj_t": lv["fldj_t"]}})
    ev.append(e)
    for step in range(4):
        if step % 2 == 1 and pvars:
            k = rng.choice(sorted(pvars))
            pvals[k] = float(np.float32(pvals[k] * rng.uniform(1.2, 2.5)))
            model.vars[pvars[k].name].value = jnp.float32(pvals[k])
            target = pvars[k].name
        else:
            model.vars[u.name].value = jnp.asarray(np.float32(rng.uniform(-1.5, 1.5)) + 0 * np.asarray(x0, np.float32))
            target = u.name
        ucur = jnp.asarray(model.vars[u.name].value)
        ev.append({"ev": "assign", "target": target, "names": present, "flags": flags(), "orig_value": fl(model.vars["x"].value),
                   "new_log_prob": fsum(model.vars[u.name].log_prob),
                   "orig_log_prob": fstr(float(np.sum(np.asarray(model.vars["x"].log_prob)))), "leaves": leaves(ucur)})
    return {"hdr": hdr, "ev": ev}


def rejected_trace(kind):
    """weak variable / variable without distribution / variable that belongs to a model: transform must be rejected -
    and a model the variable belongs to must be left exactly as it was (also its pending updates)."""
    if kind == "frozen":
        s_ = lsl.Var(jnp.float32(1.0), name="s")
        c = lsl.Var(lsl.Calc(lambda v: 2.0 * v, s_), name="c")
        x = lsl.Var(jnp.float32(0.7), lsl.Dist(tfd.Exponential, rate=c), name="x")
        x.parameter = True
        m = lsl.GraphBuilder().add(x).build_model()
        m.auto_update = False
        m.vars["s"].value = jnp.float32(5.0)          # a pending update
        hdr = {"case": "frozen", "bij": "exp_instance", "mode": "instance", "has_dist": True, "parameter": True, "observed": False,
               "weak": False, "frozen": True}
        snap = lambda: {k: (None if v.value is None else [float(z) for z in np.ravel(np.asarray(v.value))], bool(v.outdated))  # noqa: E731
                        for k, v in m.state.items()}
        before = snap()
        e = {"ev": "transform", "bij": "exp_instance"}
        try:
            x.transform(tfb.Exp())
            e.update({"ok": True, "reason": "none"})
        except RuntimeError as ex:
            e.update({"ok": False, "reason": "frozen" if "is part of a model" in str(ex) else str(ex)[:80]})
        e["model_unchanged"] = snap() == before
        e["names"] = ["x"]
        e["flags"] = {"x": {"weak": bool(x.weak), "has_dist": bool(x.has_dist), "parameter": bool(x.parameter),
                            "observed": bool(x.observed)}}
        return {"hdr": hdr, "ev": [e]}
    if kind == "weak":
        base = lsl.Var(jnp.float32(1.0), name="base")
        x = lsl.Var(lsl.Calc(lambda b: b + 1.0, base), lsl.Dist(tfd.Exponential, rate=1.0), name="x")
        hdr = {"case": "weak", "bij": "exp_instance", "mode": "instance", "has_dist": True, "parameter": False, "observed": False,
               "weak": True}
    else:
        x = lsl.Var(jnp.float32(1.0), name="x")
        hdr = {"case": "nodist", "bij": "exp_instance", "mode": "instance", "has_dist": False, "parameter": False, "observed": False,
               "weak": False}
    e = {"ev": "transform", "bij": "exp_instance"}
    try:
        x.transform(tfb.Exp())
        e.update({"ok": True, "reason": "none"})
    except RuntimeError as ex:
        e.update({"ok": False, "reason": "weak" if "is weak" in str(ex) else ("no_distribution" if "no distribution" in str(ex) else str(ex))})
    e["names"] = ["x"]
    e["flags"] = {"x": {"weak": bool(x.weak), "has_dist": bool(x.has_dist), "parameter": bool(x.parameter),
                        "observed": bool(x.observed)}}
    return {"hdr": hdr, "ev": [e]}


def all_traces(rng, reps=1):
    out = []
    for case, bs in COMPAT.items():
        for bname in bs:
            for r in range(reps):
                out.append(one_trace(rng, case, bname, parameter=(r % 2 == 0), observed=False))
            if r == reps - 1 and (any(isinstance(v, tuple) for v in CASES[case][1].values()) or bname == "scale_class_var"):
                # distribution / bijector parameters are variables: the same on a deep copy of the model
                out.append(one_trace(rng, case, bname, via_copy=True))
    # a parameter of the distribution changed between graph creation and the transformation
    for case, bname in (("uniform_diamond", "default"), ("uniform_diamond", "auto"),
                        ("uniform_weakhi", "gb_default"), ("uniform_weakhi", "default"), ("uniform_weakhi", "auto"),
                        ("uniform_varhi", "gb_default"), ("uniform_varhi", "default"), ("gamma_varparam", "gb_default"),
                        ("invgamma", "gb_default"), ("gamma_varparam", "exp_instance")):
        out.append(one_trace(rng, case, bname, stale_before=True))
    # ... and the same for a calculated argument of the bijector
    out.append(one_trace(rng, "normal_vec", "scale_class_var", stale_bij=True))
    out.append(one_trace(rng, "normal_vec", "scale_class_var", stale_bij="node"))
    # ... and for a bijector argument that is a distributed variable, transformed itself after it was used as argument
    out.append(one_trace(rng, "normal_vec", "scale_class_var", transform_bij_arg=True))
    # a failing first call (raises after the early checks), then the proper one
    for case, bname in (("exponential", "exp_instance"), ("gamma_varparam", "default"), ("halfnormal", "auto"),
                        ("invgamma", "gb_default"), ("exponential", "softplus_class_hinge")):
        out.append(one_trace(rng, case, bname, fail_first=True))
    # the original distribution stores its log-density summed (per_obs = False)
    for case, bname in (("normal_vec", "scale_class_const"), ("normal_vec", "scale_class_var"), ("exponential", "default"),
                        ("gamma_varparam", "auto"), ("halfcauchy", "gb_default")):
        out.append(one_trace(rng, case, bname, per_obs=False))
    # chained transformations: the new variable of a transformation with a bijector instance is transformed again
    for case, b1name, b2name in (("exponential", "exp_instance", "scale"), ("gamma_varparam", "exp_instance", "shift"),
                                 ("beta", "sigmoid_instance", "chain"), ("invgamma", "softplus_instance", "scale")):
        out.append(chained_trace(rng, case, b1name, b2name))
    out.append(chained_trace(rng, "exponential", "exp_instance", "scale", first="gb"))
    out.append(chained_trace(rng, "gamma_varparam", "exp_instance", "shift", first="gb"))
    return out
