"""Drivers for Trace_LogProb.tla (C02).

Symbolic regime: random programs of distributed variables (strong / weak / free
distribution nodes, all flag combinations, optional user-supplied total nodes) with
term-valued fake distributions, so Model.log_prob & co. come back as multisets of leaves.

Numeric regime: a family of real TFP models; every leaf is computed *outside* liesel
from the driver's own recipe (never from the model's wiring)."""
from __future__ import annotations

import jax
import jax.numpy as jnp
import numpy as np
import tensorflow_probability.substrates.jax.bijectors as tfb
import tensorflow_probability.substrates.jax.distributions as tfd

import liesel.model as lsl
from vlib.core import fstr

from .graph_driver import SPEC_KIND, GraphRun, Term, _sim_acyclic


# ---- symbolic -------------------------------------------------------------------------

def gen_program(rng, nvars=None):
    """Plan as in graph_driver, plus per distribution node: attached var flags."""
    nvars = nvars or rng.randint(1, 4)
    plan = []
    proxies = []
    for _ in range(nvars):
        # optional intermediate calcs
        for _ in range(rng.randint(0, 2)):
            u = [i + 1 for i, p in enumerate(plan) if not p.get("wrapped") and p["kind"] not in ("d", "e")]
            if u:
                plan.append({"kind": rng.choice(["c", "t"]), "inp": sorted(rng.sample(u, min(len(u), rng.randint(1, 2))))})
        u = [i + 1 for i, p in enumerate(plan) if not p.get("wrapped") and p["kind"] not in ("d", "e")]
        params = sorted(rng.sample(u, min(len(u), rng.randint(0, 2)))) if u else []
        r = rng.random()
        if r < 0.6:      # strong var with distribution
            plan.append({"kind": "v", "inp": [], "wrapped": True})
            plan.append({"kind": "p", "inp": [len(plan)]})
            at = len(plan)
            hv = True
        elif r < 0.8 and u:   # weak var (Calc) with distribution
            plan.append({"kind": "c", "inp": [rng.choice(u)], "wrapped": True})
            plan.append({"kind": "p", "inp": [len(plan)]})
            at = len(plan)
            hv = True
        elif u:          # free distribution node evaluated at some node
            at = rng.choice(u)
            params = [p for p in params if p < at]
            hv = False
        else:
            continue
        cand = {"kind": rng.choice(["d", "d", "e"]), "inp": params + [at], "has_var": hv,
                "observed": hv and rng.random() < 0.5, "parameter": hv and rng.random() < 0.5}
        if rng.random() < 0.5 and hv:   # exactly one flag
            cand["observed"] = rng.random() < 0.5
            cand["parameter"] = not cand["observed"]
        if r < 0.6 and rng.random() < 0.15:
            cand["moved"] = True
        if _sim_acyclic(plan + [cand]):
            plan.append(cand)
            proxies.append(at)
    if not any(p["kind"] in ("d", "e") for p in plan):
        return gen_program(rng, nvars)
    return plan


class TaggedValue(lsl.Value):
    """A value node of a user-defined class that carries extra information in its state (the documented extension
    point of NodeState)."""

    def __init__(self, value, _name="", extra=None):
        super().__init__(value, _name=_name)
        self._extra = extra

    @property
    def state(self):
        return lsl.NodeState(self.value, self.outdated, self._extra)

    @state.setter
    def state(self, state):
        self._value = state.value
        self._outdated = state.outdated
        self._extra = state.extra


class ProgramRun(GraphRun):
    """GraphRun whose distribution nodes may be attached to Vars with flags, and whose
    builder may get user-supplied total nodes."""
    none_str = "None"     # (in these traces None is an ordinary value of a node, spelled like Python spells it)

    def __init__(self, plan, user=None, atoms=("a0", "b0")):
        self.user = user or {}
        self.plan, self.n = plan, len(plan)
        self.calls, self.nodes, self.vars = [], {}, {}
        pending_val, pending_calc = {}, {}
        for i, p in enumerate(plan, start=1):
            name = f"n{i}"
            if p["kind"] == "v":
                t = Term(atoms[i % len(atoms)])
                if p.get("wrapped"):
                    pending_val[i] = t
                elif p.get("tagged"):
                    self.nodes[i] = TaggedValue(t, _name=name, extra=f"tag{i}")
                else:
                    self.nodes[i] = lsl.Value(t, _name=name)
            elif p["kind"] in ("c", "t"):
                cls = lsl.Calc if p["kind"] == "c" else lsl.TransientCalc
                node = cls(self._fn(i, p["kind"]), *[self.nodes[j] for j in p["inp"]], _name=name,
                           update_on_init=False)
                if p.get("wrapped"):
                    pending_calc[i] = node
                self.nodes[i] = node
            elif p["kind"] == "p":
                pass
            else:
                at = p["inp"][-1]
                params = [self.nodes[j] for j in p["inp"][:-1]]
                cls = lsl.Dist if p["kind"] == "d" else lsl.TransientDist
                dist = cls(self._dist(i, p["kind"]), *params, _name=name)
                if p["has_var"]:
                    src = plan[at - 1]["inp"][0]
                    if src in pending_val and p.get("moved"):
                        # the distribution node belonged to another variable first, was released there and is then
                        # given to this one: it is evaluated at its new owner
                        tmp = lsl.Var(Term("zz"), dist, name=f"tmp{i}")
                        tmp.dist_node = None
                        var = lsl.Var(pending_val.pop(src), name=f"var{src}")
                        var.dist_node = dist
                    elif src in pending_val:
                        var = lsl.Var(pending_val.pop(src), dist, name=f"var{src}")
                    else:
                        var = lsl.Var(pending_calc.pop(src), dist, name=f"var{src}")
                    var.observed = p["observed"]
                    var.parameter = p["parameter"]
                    var.value_node.name = f"n{src}"
                    var.var_value_node.name = f"n{at}"
                    self.nodes[src], self.nodes[at] = var.value_node, var.var_value_node
                    self.vars[src] = var
                else:
                    dist.at = self.nodes[at]
                self.nodes[i] = dist
        # wrapped nodes without a distribution: plain Vars
        for src, t in list(pending_val.items()):
            var = lsl.Var(t, name=f"var{src}")
            var.value_node.name = f"n{src}"
            pid = next(j + 1 for j, q in enumerate(plan) if q["kind"] == "p" and q["inp"] == [src])
            var.var_value_node.name = f"n{pid}"
            self.nodes[src], self.nodes[pid] = var.value_node, var.var_value_node
            self.vars[src] = var
        gb = lsl.GraphBuilder(to_float32=False)
        gb.add(*self.vars.values(), *[n for n in self.nodes.values()])
        if self.user.get("lp"):
            gb.log_prob_node = self.nodes[self.user["lp"]]
        if self.user.get("ll"):
            gb.log_lik_node = self.nodes[self.user["ll"]]
        if self.user.get("lpr"):
            gb.log_prior_node = self.nodes[self.user["lpr"]]
        self.model = gb.build_model()
        self.calls.clear()
        self.slots = []

    TOTALS = {"log_prob": "_model_log_prob", "log_lik": "_model_log_lik", "log_prior": "_model_log_prior"}

    def targeted_total(self, which):
        """model.update(<that total's node>) - with auto-update possibly off and ancestors outdated."""
        m = self.model
        m.update(self.TOTALS[which])
        calls = list(self.calls)
        ev = {"ev": "targeted_total", "which": which, which: self._leaves(getattr(m, which))}
        self.calls[:] = calls
        self.calls.clear()
        return ev

    def failed_simulate(self):
        """Model.simulate on a model whose (fake) distributions cannot be sampled: the call raises; nothing may change -
        in particular the model keeps updating automatically afterwards."""
        import jax
        raised = False
        try:
            self.model.simulate(jax.random.PRNGKey(0))
        except Exception:  # noqa: BLE001
            raised = True
        self.calls.clear()
        ev = {"ev": "failed_simulate", "raised": False, "sim_raised": raised, "auto_update_after": bool(self.model.auto_update)}
        ev.update(self.snapshot())
        return ev

    def _configure_builder(self, gb):
        for key, attr in (("lp", "log_prob_node"), ("ll", "log_lik_node"), ("lpr", "log_prior_node")):
            if self.user.get(key):
                setattr(gb, attr, self.nodes[self.user[key]])

    def header(self):
        h = super().header()
        n = self.n
        dists = [i + 1 for i, p in enumerate(self.plan) if p["kind"] in ("d", "e")]
        h.update({"dists": dists,
                  "has_var": [bool(p.get("has_var")) for p in self.plan],
                  "observed": [bool(p.get("observed")) for p in self.plan],
                  "parameter": [bool(p.get("parameter")) for p in self.plan],
                  "user_lp": self.user.get("lp", 0), "user_ll": self.user.get("ll", 0),
                  "user_lpr": self.user.get("lpr", 0), "plan": self.plan})
        return h

    @staticmethod
    def _leaves(x):
        if isinstance(x, str):
            return [s for s in str(x).split("+") if s]
        return [] if x == 0 else [str(x)]

    def totals(self):
        m = self.model
        calls = list(self.calls)
        ev = {"ev": "totals", "log_prob": self._leaves(m.log_prob), "log_lik": self._leaves(m.log_lik),
              "log_prior": self._leaves(m.log_prior)}
        self.calls[:] = calls
        return ev


def symbolic_trace(rng):
    plan = gen_program(rng)
    user = {}
    if rng.random() < 0.25:   # user-supplied total node: any calc / value node
        cand = [i + 1 for i, p in enumerate(plan) if p["kind"] in ("c", "t") and not p.get("wrapped")]
        if cand:
            user[rng.choice(["lp", "ll", "lpr"])] = rng.choice(cand)
    run = ProgramRun(plan, user)
    hdr = run.header()
    ev = [run.totals()]
    vals = [i + 1 for i, p in enumerate(plan) if p["kind"] == "v"]
    ops = []
    for _ in range(rng.randint(1, 4)):
        r = rng.random()
        if vals and r < 0.22:
            # assignments with auto-update off, then a targeted update of one total only
            o1 = {"ev": "set_auto", "b": False}
            o2 = {"ev": "assign", "n": rng.choice(vals), "x": rng.choice("abc") + str(rng.randint(4, 6)), "via_var": rng.random() < 0.5}
            which = rng.choice(["log_prob", "log_prob", "log_lik", "log_prior"])
            ops += [o1, o2, {"ev": "targeted_total", "which": which}]
            ev += [run.op(o1), run.op(o2), run.targeted_total(which)]
            o3, o4 = {"ev": "update_all"}, {"ev": "set_auto", "b": True}
            ops += [o3, o4]
            ev += [run.op(o3), run.op(o4)]
        elif vals and 0.5 <= r < 0.62:
            # a state captured while an assignment is still pending, restored after a full update, and flushed again
            seq = [{"ev": "set_auto", "b": False},
                   {"ev": "assign", "n": rng.choice(vals), "x": rng.choice("abc") + str(rng.randint(4, 6)), "via_var": rng.random() < 0.5},
                   {"ev": "save"}, {"ev": "update_all"}]
            ops += seq
            ev += [run.op(o) for o in seq]
            ev.append(run.totals())
            seq = [{"ev": "restore", "slot": len(run.slots)}, {"ev": "update_all"}, {"ev": "set_auto", "b": True}]
            ops += seq
            ev += [run.op(o) for o in seq]
        elif len(vals) >= 2 and 0.62 <= r < 0.74:
            # an assignment left pending (auto-update off), auto-update switched on again without an update, then an
            # assignment to *another* value: "setting a value triggers an update of the model", the totals are complete
            a, b = rng.sample(vals, 2)
            seq = [{"ev": "set_auto", "b": False},
                   {"ev": "assign", "n": a, "x": rng.choice("abc") + str(rng.randint(4, 6)), "via_var": rng.random() < 0.5},
                   {"ev": "set_auto", "b": True},
                   {"ev": "assign", "n": b, "x": rng.choice("abc") + str(rng.randint(7, 9)), "via_var": rng.random() < 0.5}]
            ops += seq
            ev += [run.op(o) for o in seq]
        elif vals and 0.4 <= r < 0.5:
            ops.append({"ev": "failed_simulate"})
            ev.append(run.failed_simulate())
            o = {"ev": "assign", "n": rng.choice(vals), "x": rng.choice("abc") + str(rng.randint(0, 3)), "via_var": False}
            ops.append(o)
            ev.append(run.op(o))
        elif vals and r < 0.4:
            o = {"ev": "rebuild", "n": rng.choice(vals), "x": rng.choice("abc") + str(rng.randint(7, 9))}
            ops.append(o)
            ev.append(run.rebuild(o["n"], o["x"]))
        elif vals:
            o = {"ev": "assign", "n": rng.choice(vals), "x": rng.choice("abc") + str(rng.randint(0, 3)),
                 "via_var": rng.random() < 0.5}
            ops.append(o)
            ev.append(run.op(o))
        ev.append(run.totals())
    hdr["ops"] = ops
    return {"hdr": hdr, "ev": ev}


# ---- numeric ------------------------------------------------------------------------------

def _f(x):
    return fstr(np.float32(np.sum(np.asarray(x, np.float64))))


X = jnp.asarray(np.c_[np.ones(7), np.linspace(-1, 1, 7)], jnp.float32)
YD = jnp.asarray([0.1, 0.5, -0.2, 0.8, 1.1, 0.9, 1.6], jnp.float32)
K2 = jnp.asarray(np.diff(np.eye(4), 2, axis=0).T @ np.diff(np.eye(4), 2, axis=0), jnp.float32)  # rank 2 penalty


def model_family(name, per_obs=True, flags="exclusive"):
    """Returns (model, recipe) where recipe: values -> list of leaves
    [{'name', 'v', 'has_var', 'observed', 'parameter'}], and the names of settable params."""
    if name == "uniform_default":
        # default event-space bijector that depends on another parameter: u ~ Uniform(0, hi), u.transform()
        hi = lsl.param(jnp.float32(2.0), lsl.Dist(tfd.Gamma, concentration=4.0, rate=2.0), name="hi")
        u = lsl.param(jnp.float32(0.8), lsl.Dist(tfd.Uniform, low=0.0, high=hi), name="u")
        y = lsl.obs(jnp.asarray([0.4, 1.1, 0.8], jnp.float32), lsl.Dist(tfd.Normal, loc=u, scale=1.0), name="y")
        u.transform()
        model = lsl.GraphBuilder().add(y).build_model()
        draws = {"hi": lambda r: jnp.float32(r.uniform(1.0, 6.0)), "u_transformed": lambda r: jnp.float32(r.uniform(-2, 2))}
        return model, None, draws, {}
    if name == "int_init":
        # nodes initialised with integers (a Python int and an integer array) that later receive float positions
        shift = lsl.Var(3, name="shift")
        rate = lsl.Var(jnp.asarray(2), name="rate")
        mean = lsl.Var(lsl.Calc(lambda r, s: r * 10.0 + s, rate, shift), name="mean")
        y = lsl.obs(jnp.asarray([20.0, 25.0, 31.0], jnp.float32), lsl.Dist(tfd.Normal, loc=mean, scale=2.0), name="y")
        model = lsl.GraphBuilder(to_float32=False).add(y).build_model()
        draws = {"rate": lambda r: jnp.float32(r.uniform(1.0, 4.0)), "shift": lambda r: jnp.float32(r.uniform(0.0, 6.0))}
        return model, None, draws, {}
    if name == "name_collision":
        # a settable node and a (weak) variable share the name "x": a position key "x" means the node
        raw = lsl.Data(jnp.asarray([1.0, 2.0, 4.0], jnp.float32), _name="x")
        xc = lsl.Var(lsl.Calc(lambda r: r - jnp.mean(r), raw), name="x")
        mu = lsl.param(jnp.float32(0.3), lsl.Dist(tfd.Normal, loc=0.0, scale=2.0), name="mu")
        y = lsl.obs(jnp.asarray([0.1, 0.5, -0.2], jnp.float32),
                    lsl.Dist(tfd.Normal, loc=lsl.Calc(lambda m, c: m + c, mu, xc), scale=1.0), name="y")
        model = lsl.GraphBuilder().add(y).build_model()
        draws = {"x": lambda r: jnp.asarray([r.uniform(-2, 2) for _ in range(3)], jnp.float32),
                 "mu": lambda r: jnp.float32(r.uniform(-1, 1))}
        return model, None, draws, {}
    if name == "linreg_flag":
        # a calculator with a literal Python `True` among its inputs
        beta = lsl.param(jnp.array([0.2, 0.7], jnp.float32), lsl.Dist(tfd.Normal, loc=0.0, scale=5.0), name="beta")
        mu = lsl.Var(lsl.Calc(lambda X, b, center: X @ b - jnp.where(center, jnp.mean(X @ b), 0.0), lsl.obs(X, name="X"), beta,
                              center=True), name="mu")
        y = lsl.obs(YD, lsl.Dist(tfd.Normal, loc=mu, scale=0.9), name="y")
        for v in (beta, y):
            v.dist_node.per_obs = per_obs
        model = lsl.GraphBuilder().add(y).build_model()

        def recipe(v):
            m = X @ v["beta"]
            return [
                {"name": "beta", "v": _f(tfd.Normal(0.0, 5.0).log_prob(v["beta"])), "has_var": True, "observed": False, "parameter": True},
                {"name": "y", "v": _f(tfd.Normal(m - jnp.mean(m), 0.9).log_prob(YD)), "has_var": True, "observed": True, "parameter": False},
            ]
        draws = {"beta": lambda r: jnp.asarray([r.uniform(-2, 2), r.uniform(-2, 2)], jnp.float32)}
        return model, recipe, draws, {}
    if name in ("linreg", "linreg_user_ll", "linreg_user_ll_pointwise", "linreg_both_flags", "linreg_noflags"):
        beta = lsl.param(jnp.array([0.2, 0.7], jnp.float32), lsl.Dist(tfd.Normal, loc=0.0, scale=5.0), name="beta")
        sigma = lsl.param(jnp.float32(0.9), lsl.Dist(tfd.InverseGamma, concentration=2.0, scale=1.5), name="sigma")
        mu = lsl.Var(lsl.Calc(lambda X, b: X @ b, lsl.obs(X, name="X"), beta), name="mu")     # weak intermediate var
        y = lsl.obs(YD, lsl.Dist(tfd.Normal, loc=mu, scale=sigma), name="y")
        if name == "linreg_both_flags":
            sigma.observed = True
        if name == "linreg_noflags":
            beta.parameter = False
        for v in (beta, sigma, y):
            v.dist_node.per_obs = per_obs
        gb = lsl.GraphBuilder().add(y)
        user = None
        if name == "linreg_user_ll":
            user = lsl.Calc(lambda yv: jnp.sum(yv) * 0.0 - 12.5, y, _name="my_ll")
            gb.add(user)
            gb.log_lik_node = user
        if name == "linreg_user_ll_pointwise":
            # a user-supplied total that is not a scalar (pointwise log-likelihood contributions)
            user = lsl.Calc(lambda yv, m: -0.5 * (yv - m) ** 2, y, mu, _name="my_pointwise_ll")
            gb.add(user)
            gb.log_lik_node = user
        model = gb.build_model()

        def recipe(v):
            b, s = v["beta"], v["sigma"]
            return [
                {"name": "beta", "v": _f(tfd.Normal(0.0, 5.0).log_prob(b)), "has_var": True, "observed": False,
                 "parameter": name != "linreg_noflags"},
                {"name": "sigma", "v": _f(tfd.InverseGamma(2.0, 1.5).log_prob(s)), "has_var": True,
                 "observed": name == "linreg_both_flags", "parameter": True},
                {"name": "y", "v": _f(tfd.Normal(X @ b, s).log_prob(YD)), "has_var": True, "observed": True,
                 "parameter": False},
            ]
        draws = {"beta": lambda r: jnp.asarray([r.uniform(-2, 2), r.uniform(-2, 2)], jnp.float32),
                 "sigma": lambda r: jnp.float32(r.uniform(0.3, 3.0))}
        return model, recipe, draws, ({} if user is None else {"ll": "my_pointwise_ll"} if name.endswith("pointwise") else {"ll": -12.5})
    if name == "auto_transformed":
        mu = lsl.param(jnp.float32(0.3), lsl.Dist(tfd.Normal, loc=0.0, scale=2.0), name="mu")
        tau = lsl.param(jnp.float32(1.4), lsl.Dist(tfd.Gamma, concentration=3.0, rate=2.0), name="tau")
        y = lsl.obs(YD, lsl.Dist(tfd.Normal, loc=mu, scale=tau), name="y")
        for v in (mu, tau, y):
            v.dist_node.per_obs = per_obs
        tau.auto_transform = True          # transformed inside build_model()
        model = lsl.GraphBuilder().add(y).build_model()
        bij = tfd.Gamma(3.0, 2.0).experimental_default_event_space_bijector()

        def recipe(v):
            t = v["tau_transformed"]
            tv = bij.forward(t)
            return [
                {"name": "mu", "v": _f(tfd.Normal(0.0, 2.0).log_prob(v["mu"])), "has_var": True, "observed": False,
                 "parameter": True},
                {"name": "tau_transformed", "v": _f(tfd.Gamma(3.0, 2.0).log_prob(tv) + bij.forward_log_det_jacobian(t)),
                 "has_var": True, "observed": False, "parameter": True},
                {"name": "y", "v": _f(tfd.Normal(v["mu"], tv).log_prob(YD)), "has_var": True, "observed": True,
                 "parameter": False},
            ]
        draws = {"mu": lambda r: jnp.float32(r.uniform(-2, 2)),
                 "tau_transformed": lambda r: jnp.float32(r.uniform(-1, 1))}
        return model, recipe, draws, {}
    if name == "transformed":
        mu = lsl.param(jnp.float32(0.3), lsl.Dist(tfd.Normal, loc=0.0, scale=2.0), name="mu")
        tau = lsl.param(jnp.float32(1.4), lsl.Dist(tfd.Gamma, concentration=3.0, rate=2.0), name="tau")
        y = lsl.obs(YD, lsl.Dist(tfd.Normal, loc=mu, scale=tau), name="y")
        for v in (mu, tau, y):
            v.dist_node.per_obs = per_obs
        tau.transform(tfb.Exp())
        model = lsl.GraphBuilder().add(y).build_model()

        def recipe(v):
            t = v["tau_transformed"]
            tv = jnp.exp(t)
            return [
                {"name": "mu", "v": _f(tfd.Normal(0.0, 2.0).log_prob(v["mu"])), "has_var": True, "observed": False,
                 "parameter": True},
                {"name": "tau_transformed", "v": _f(tfd.Gamma(3.0, 2.0).log_prob(tv) + t), "has_var": True,
                 "observed": False, "parameter": True},
                {"name": "y", "v": _f(tfd.Normal(v["mu"], tv).log_prob(YD)), "has_var": True, "observed": True,
                 "parameter": False},
            ]
        draws = {"mu": lambda r: jnp.float32(r.uniform(-2, 2)),
                 "tau_transformed": lambda r: jnp.float32(r.uniform(-1, 1))}
        return model, recipe, draws, {}
    if name == "mvn_degen":
        from liesel.distributions import MultivariateNormalDegenerate as MVND

        tau2 = lsl.param(jnp.float32(0.8), lsl.Dist(tfd.InverseGamma, concentration=1.5, scale=0.7), name="tau2")
        coef = lsl.param(jnp.asarray([0.1, -0.3, 0.2, 0.5], jnp.float32),
                         lsl.Dist(MVND.from_penalty, loc=0.0, var=tau2, pen=K2), name="coef")
        B = jnp.asarray(np.vander(np.linspace(-1, 1, 7), 4), jnp.float32)
        eta = lsl.Calc(lambda c: B @ c, coef)
        y = lsl.obs(YD, lsl.Dist(tfd.Normal, loc=eta, scale=0.7), name="y")
        free = lsl.Dist(tfd.Normal, loc=0.0, scale=1.0, _name="free_dist")     # distribution node without a var
        free.at = eta
        for d in (tau2.dist_node, coef.dist_node, y.dist_node, free):
            d.per_obs = per_obs
        model = lsl.GraphBuilder().add(y, free).build_model()

        def recipe(v):
            c, t2 = v["coef"], v["tau2"]
            return [
                {"name": "tau2", "v": _f(tfd.InverseGamma(1.5, 0.7).log_prob(t2)), "has_var": True, "observed": False,
                 "parameter": True},
                {"name": "coef", "v": _f(MVND.from_penalty(loc=0.0, var=t2, pen=K2).log_prob(c)), "has_var": True,
                 "observed": False, "parameter": True},
                {"name": "y", "v": _f(tfd.Normal(B @ c, 0.7).log_prob(YD)), "has_var": True, "observed": True,
                 "parameter": False},
                {"name": "free_dist", "v": _f(tfd.Normal(0.0, 1.0).log_prob(B @ c)), "has_var": False,
                 "observed": False, "parameter": False},
            ]
        draws = {"coef": lambda r: jnp.asarray([r.uniform(-1, 1) for _ in range(4)], jnp.float32),
                 "tau2": lambda r: jnp.float32(r.uniform(0.2, 2.0))}
        return model, recipe, draws, {}
    if name == "uniform_gb":
        # the deprecated GraphBuilder.transform with a default bijector that depends on another parameter:
        # u ~ Uniform(0, hi) sampled on the unconstrained scale, hi ~ Gamma(4, 2), y ~ N(u, 1)
        import warnings
        yv = jnp.asarray([0.4, 1.1, 0.8], jnp.float32)
        hi = lsl.param(jnp.float32(2.0), lsl.Dist(tfd.Gamma, concentration=4.0, rate=2.0), name="hi")
        u = lsl.param(jnp.float32(0.8), lsl.Dist(tfd.Uniform, low=0.0, high=hi), name="u")
        y = lsl.obs(yv, lsl.Dist(tfd.Normal, loc=u, scale=1.0), name="y")
        for v in (hi, u, y):
            v.dist_node.per_obs = per_obs
        gb = lsl.GraphBuilder().add(y)
        with warnings.catch_warnings():
            warnings.simplefilter("ignore")
            gb.transform(u)
        model = gb.build_model()

        def recipe(v):
            t = jnp.float32(v["u_transformed"])
            sg = jax.nn.sigmoid(t)
            uu = v["hi"] * sg
            return [
                {"name": "hi", "v": _f(tfd.Gamma(4.0, 2.0).log_prob(v["hi"])), "has_var": True, "observed": False, "parameter": True},
                # Uniform(0, hi) at u = hi * sigmoid(t) plus log |du/dt|: -log hi + log hi + log s + log(1 - s)
                {"name": "u_transformed", "v": _f(jnp.log(sg) + jnp.log1p(-sg)), "has_var": True, "observed": False, "parameter": True},
                {"name": "y", "v": _f(tfd.Normal(uu, 1.0).log_prob(yv)), "has_var": True, "observed": True, "parameter": False},
            ]
        draws = {"hi": lambda r: jnp.float32(r.uniform(1.0, 6.0)), "u_transformed": lambda r: jnp.float32(r.uniform(-2, 2))}
        return model, recipe, draws, {}
    if name == "legacy_pit":
        # the legacy helpers: a probability integral transform of one parameter feeds the mean of the response
        m = lsl.Param(jnp.float32(0.3), lsl.Dist(tfd.Normal, loc=0.0, scale=2.0), name="m")
        z = lsl.Param(jnp.float32(0.1), lsl.Dist(tfd.Normal, loc=m, scale=1.0), name="z")
        u = lsl.PIT(z)
        y = lsl.Obs(jnp.asarray([0.4, 0.9, 0.6], jnp.float32), lsl.Dist(tfd.Normal, loc=u, scale=0.5), name="y")
        for v in (m, z, y):
            v.dist_node.per_obs = per_obs
        model = lsl.GraphBuilder().add(y).build_model()

        def recipe(v):
            uu = tfd.Normal(v["m"], 1.0).cdf(v["z"])
            return [
                {"name": "m", "v": _f(tfd.Normal(0.0, 2.0).log_prob(v["m"])), "has_var": True, "observed": False, "parameter": True},
                {"name": "z", "v": _f(tfd.Normal(v["m"], 1.0).log_prob(v["z"])), "has_var": True, "observed": False, "parameter": True},
                {"name": "y", "v": _f(tfd.Normal(uu, 0.5).log_prob(jnp.asarray([0.4, 0.9, 0.6], jnp.float32))), "has_var": True,
                 "observed": True, "parameter": False},
            ]
        draws = {"m": lambda r: jnp.float32(r.uniform(-1, 1)), "z": lambda r: jnp.float32(r.uniform(-1.5, 1.5))}
        return model, recipe, draws, {}
    if name == "hier_vector":
        m0 = lsl.param(jnp.float32(0.0), lsl.Dist(tfd.Normal, loc=0.0, scale=3.0), name="m0")
        s0 = lsl.param(jnp.float32(1.0), lsl.Dist(tfd.Exponential, rate=1.0), name="s0")
        g = lsl.param(jnp.asarray([0.1, 0.2, -0.1], jnp.float32), lsl.Dist(tfd.Normal, loc=m0, scale=s0), name="g")
        idx = jnp.asarray([0, 0, 1, 1, 2, 2, 2])
        y = lsl.obs(YD, lsl.Dist(tfd.Normal, loc=lsl.Calc(lambda gv: gv[idx], g), scale=0.5), name="y")
        for v in (m0, s0, g, y):
            v.dist_node.per_obs = per_obs
        model = lsl.GraphBuilder().add(y).build_model()

        def recipe(v):
            return [
                {"name": "m0", "v": _f(tfd.Normal(0.0, 3.0).log_prob(v["m0"])), "has_var": True, "observed": False, "parameter": True},
                {"name": "s0", "v": _f(tfd.Exponential(1.0).log_prob(v["s0"])), "has_var": True, "observed": False, "parameter": True},
                {"name": "g", "v": _f(tfd.Normal(v["m0"], v["s0"]).log_prob(v["g"])), "has_var": True, "observed": False, "parameter": True},
                {"name": "y", "v": _f(tfd.Normal(v["g"][idx], 0.5).log_prob(YD)), "has_var": True, "observed": True, "parameter": False},
            ]
        draws = {"m0": lambda r: jnp.float32(r.uniform(-1, 1)), "s0": lambda r: jnp.float32(r.uniform(0.3, 2)),
                 "g": lambda r: jnp.asarray([r.uniform(-1, 1) for _ in range(3)], jnp.float32)}
        return model, recipe, draws, {}
    if name in ("distreg", "distreg_smallscale"):
        from liesel.distributions import MultivariateNormalDegenerate as MVND

        # distreg_smallscale: a penalty on a very small scale (eigenvalues below any absolute tolerance); the leaf of
        # the coefficient prior is then a float64 closed form with the rank of the penalty matrix
        Kp = K2 if name == "distreg" else K2 * jnp.float32(1e-7)
        Kp64 = np.asarray(Kp, np.float64)
        rk = int(np.linalg.matrix_rank(np.asarray(K2, np.float64)))
        top = np.sort(np.linalg.eigvalsh(Kp64))[-rk:]

        def mvnd_closed(beta, t2):
            b64, t = np.asarray(beta, np.float64), float(t2)
            return (-0.5 * rk * np.log(2 * np.pi) + 0.5 * (np.sum(np.log(top)) - rk * np.log(t)) - 0.5 * b64 @ Kp64 @ b64 / t)

        Bm = jnp.asarray(np.vander(np.linspace(-1, 1, 7), 4), jnp.float32)
        one = jnp.asarray(np.c_[np.ones(7)], jnp.float32)
        b = lsl.DistRegBuilder()
        b.add_response(YD, tfd.Normal)
        b.add_predictor("loc", tfb.Identity)
        b.add_predictor("scale", tfb.Exp)
        b.add_p_smooth(one, m=0.0, s=10.0, predictor="loc")
        b.add_np_smooth(Bm, Kp, a=2.0, b=0.5, predictor="loc")
        b.add_p_smooth(one, m=0.0, s=3.0, predictor="scale")
        for v in b.vars:
            if v.has_dist:
                v.dist_node.per_obs = per_obs
        model = b.build_model()

        def recipe(v):
            loc = one @ v["loc_p0_beta"] + Bm @ v["loc_np0_beta"]
            scale = jnp.exp(one @ v["scale_p0_beta"])
            t2 = v["loc_np0_tau2"]
            return [
                {"name": "loc_p0_beta", "v": _f(tfd.Normal(0.0, 10.0).log_prob(v["loc_p0_beta"])), "has_var": True, "observed": False, "parameter": True},
                {"name": "loc_np0_tau2", "v": _f(tfd.InverseGamma(2.0, 0.5).log_prob(t2)), "has_var": True, "observed": False, "parameter": True},
                {"name": "loc_np0_beta", "v": (_f(MVND.from_penalty(loc=0.0, var=t2, pen=K2).log_prob(v["loc_np0_beta"])) if name == "distreg"
                                               else _f(mvnd_closed(v["loc_np0_beta"], t2))), "has_var": True, "observed": False, "parameter": True},
                {"name": "scale_p0_beta", "v": _f(tfd.Normal(0.0, 3.0).log_prob(v["scale_p0_beta"])), "has_var": True, "observed": False, "parameter": True},
                {"name": "response", "v": _f(tfd.Normal(loc, scale).log_prob(YD)), "has_var": True, "observed": True, "parameter": False},
            ]
        draws = {"loc_p0_beta": lambda r: jnp.asarray([r.uniform(-1, 1)], jnp.float32),
                 "loc_np0_beta": lambda r: jnp.asarray([r.uniform(-1, 1) for _ in range(4)], jnp.float32),
                 "loc_np0_tau2": lambda r: jnp.float32(r.uniform(0.2, 3.0)),
                 "scale_p0_beta": lambda r: jnp.asarray([r.uniform(-0.5, 0.5)], jnp.float32)}
        return model, recipe, draws, {}
    raise KeyError(name)


FAMILY = ["distreg", "distreg_smallscale", "auto_transformed", "linreg_flag", "linreg", "linreg_user_ll", "linreg_user_ll_pointwise", "linreg_both_flags", "linreg_noflags", "transformed", "mvn_degen", "hier_vector", "legacy_pit", "uniform_gb"]


def numeric_trace(rng, name, nassign=3):
    model, recipe, draws, user = model_family(name, per_obs=True)
    alt, _, _, _ = model_family(name, per_obs=False)
    ev = []
    for step in range(nassign + 1):
        if step:
            # all parameters, or only one of them (the others keep their values: what depends on the assigned one through
            # the graph must follow, nothing else may be needed to get there)
            names = list(draws)
            chosen = names if step % 2 == 1 or len(names) == 1 else [names[(step // 2) % len(names)]]
            for pname in chosen:
                val = draws[pname](rng)
                model.vars[pname].value = val
                alt.vars[pname].value = val
        vals = {p: model.vars[p].value for p in draws}
        uval = {k: (model.nodes[v].value if isinstance(v, str) else v) for k, v in user.items()}
        total = {"lp": model.log_prob, "ll": model.log_lik, "lpr": model.log_prior}
        exact = all(np.shape(total[k]) == np.shape(uval[k]) and np.array_equal(np.asarray(total[k]), np.asarray(uval[k]))
                    for k in user)
        e = {"ev": "totals_num", "leaves": recipe(vals), "user_forward_exact": bool(exact),
             "log_prob": _f(model.log_prob), "log_lik": _f(model.log_lik), "log_prior": _f(model.log_prior),
             "alt_log_prob": _f(alt.log_prob), "alt_log_lik": _f(alt.log_lik), "alt_log_prior": _f(alt.log_prior),
             "user_lp": "lp" in user, "user_ll": "ll" in user, "user_lpr": "lpr" in user,
             "user_lp_value": _f(uval.get("lp", 0.0)), "user_ll_value": _f(uval.get("ll", 0.0)),
             "user_lpr_value": _f(uval.get("lpr", 0.0))}
        ev.append(e)
    # graph header placeholders (the numeric events do not touch the graph state)
    hdr = {"n": 1, "kind": ["v"], "inp": [[]], "init": ["-"], "family": name, "dists": [], "has_var": [False],
           "observed": [False], "parameter": [False], "user_lp": 0, "user_ll": 0, "user_lpr": 0}
    return {"hdr": hdr, "ev": ev}


