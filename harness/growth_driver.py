"""Drivers for Trace_Growth.tla: behaviour beyond the listed properties."""
from __future__ import annotations

import itertools

import jax
import jax.numpy as jnp
import numpy as np

import liesel.goose as gs
import liesel.model as lsl
from liesel.goose.epoch import EpochConfig, EpochType

from .probes import ProbeKernel, ProbeQG


def classify(ex):
    m = str(ex)
    if "claimed by multiple kernels" in m:
        return "duplicate_position_key"
    if "wrong dimensions" in m:
        return "seed_dimensions"
    if "multiple quantity generators" in m or "used by multiple" in m:
        return "duplicate_generator_identifier"
    if "Model interface must be set" in m:
        return "no_model"
    if "Model state must be set" in m:
        return "no_initial_values"
    if "no position would be tracked" in m:
        return "nothing_tracked"
    if "identifier must be unique" in m:
        return "duplicate_kernel_identifier"
    return "other:" + type(ex).__name__ + ":" + m[:80]


def builder_events():
    evs = []
    key_sets = [[["a"], ["b"]], [["a", "b"], ["b"]], [["a"], ["a"]], [["a"], ["b"], ["c", "a"]], [["a", "b"]]]
    idents = [["", ""], ["k", "k"], ["kernel_01", ""], ["x", "y"]]
    for ks, ids, qgs, hm, hi, sc, sel in itertools.product(key_sets, idents, [[], ["q", "q"], ["q", "r"]],
                                                           [True, False], [True, False], [0, 2, 3], [0, 1, 2]):
        ids = (ids + ["", ""])[: len(ks)]
        # selection of tracked positions: none given / every kernel key excluded / ... but an additional key included
        every = sorted({k for s_ in ks for k in s_})
        incl, excl = ([], []) if sel == 0 else ([], every) if sel == 1 else (["chain"], every)
        chains = 2
        b = gs.EngineBuilder(seed=1, num_chains=chains)
        if sc:
            b.set_engine_seed(jax.random.split(jax.random.PRNGKey(0), sc))
        allk = sorted({k for s in ks for k in s})
        if hm:
            b.set_model(gs.DictInterface(lambda s: jnp.asarray(0.0)))
        if hi:
            st = {k: jnp.asarray(0.0) for k in allk}
            st.update({"chain": jnp.asarray(0), "seq": jnp.asarray(0.0)})
            b.set_initial_values(st)
        kernels = []
        for keys, ident in zip(ks, ids):
            k = ProbeKernel(keys, all_keys=allk, cap=16, identifier=ident)
            kernels.append(k)
            b.add_kernel(k)
        for q in qgs:
            b.add_quantity_generator(ProbeQG(q, allk))
        b.set_epochs([EpochConfig(EpochType.INITIAL_VALUES, 1, 1, None), EpochConfig(EpochType.POSTERIOR, 2, 1, None)])
        b.positions_included, b.positions_excluded = list(incl), list(excl)
        e = {"ev": "builder", "kernels": [{"keys": keys, "ident": ident} for keys, ident in zip(ks, ids)], "qgs": qgs,
             "has_model": hm, "has_init": hi, "seed_chains": sc, "chains": chains, "included": incl, "excluded": excl}
        try:
            b.build()
            e.update({"ok": True, "reason": "none", "idents": [k.identifier for k in kernels]})
        except Exception as ex:  # noqa: BLE001
            e.update({"ok": False, "reason": classify(ex), "idents": []})
        evs.append(e)
    return evs


def epoch_time_events(rng):
    evs = []
    for _ in range(50):
        before, dur = rng.randint(0, 50), rng.randint(1, 30)
        s = EpochConfig(EpochType.BURNIN, dur, 1, None).to_state(3, before)
        evs.append({"ev": "epoch_start", "before": before, "dur": dur, "time": int(s.time), "tie": int(s.time_in_epoch),
                    "left": int(s.time_left())})
        for _ in range(rng.randint(1, 4)):
            by = rng.randint(0, 5)
            s.advance_time(by)
            evs.append({"ev": "advance", "by": by, "dur": dur, "time": int(s.time), "tie": int(s.time_in_epoch),
                        "left": int(s.time_left())})
    return evs


def set_seed_events(rng):
    evs = []
    for n in (1, 2, 3, 5):
        nodes = [lsl.Calc(lambda seed=None: seed, _needs_seed=True, _name=f"s{i}") for i in range(n)]
        plain = lsl.Calc(lambda a, b: 0.0, nodes[0], lsl.Value(1.0), _name="plain")
        model = lsl.GraphBuilder().add(plain, *nodes).build_model()
        for _ in range(3):
            key = jax.random.PRNGKey(rng.randrange(1 << 30))
            model.set_seed(key)
            keys = [f"{int(v[0])}:{int(v[1])}" for v in (np.asarray(model.nodes[f"_model_s{i}_seed"].value) for i in range(n))]
            seen = [f"{int(v[0])}:{int(v[1])}" for v in (np.asarray(model.nodes[f"s{i}"].value) for i in range(n))]
            model.set_seed(key)
            again = [f"{int(v[0])}:{int(v[1])}" for v in (np.asarray(model.nodes[f"_model_s{i}_seed"].value) for i in range(n))]
            evs.append({"ev": "set_seed", "n_seeded": n, "keys": keys, "seen": seen, "keys_again": again})
    return evs


def group_events(rng):
    from .gibbs_driver import build_distreg

    model, K = build_distreg(4, 2, 1.0, 0.5)
    g = model.groups()["loc_np0"]
    evs = []
    for _ in range(3):
        model.vars["loc_np0_tau2"].value = jnp.float32(rng.uniform(0.5, 3))
        st = model.state
        for member in ("tau2", "a", "b", "rank", "beta"):
            fs = np.ravel(np.asarray(g.value_from(st, member), np.float64))
            dr = np.ravel(np.asarray(model.vars[g[member].name].value, np.float64))
            evs.append({"ev": "group", "member": member, "from_state": [repr(float(x)) for x in fs],
                        "direct": [repr(float(x)) for x in dr]})
    return evs


def var_graph_events(rng, n=40):
    """Real models from random programs: Var.all_input_vars / all_output_vars and the model's graphs
    against the construction plan."""
    from .logprob_driver import ProgramRun, gen_program

    evs = []
    for _ in range(n):
        plan = gen_program(rng, rng.randint(2, 4))
        run = ProgramRun(plan)
        own = [0] * len(plan)
        for src, var in run.vars.items():
            own[src - 1] = src
            for j, p in enumerate(plan, start=1):
                if p["kind"] == "p" and p["inp"] == [src]:
                    own[j - 1] = src
                    for k, q in enumerate(plan, start=1):
                        if q["kind"] in ("d", "e") and q.get("has_var") and q["inp"][-1] == j:
                            own[k - 1] = src
        idx = {f"n{i}": i for i in range(1, len(plan) + 1)}
        vid = {f"var{src}": src for src in run.vars}
        m = run.model
        iv = [[] for _ in plan]
        ov = [[] for _ in plan]
        for name, src in vid.items():
            iv[src - 1] = sorted(vid[v.name] for v in m.vars[name].all_input_vars())
            ov[src - 1] = sorted(vid[v.name] for v in m.vars[name].all_output_vars())
        edges = sorted([vid[a.name], vid[b.name]] for a, b in m.var_graph.edges)
        nedges = sorted([idx[a.name], idx[b.name]] for a, b in m.node_graph.edges if a.name in idx and b.name in idx)
        evs.append({"ev": "var_graph", "inp": [p["inp"] for p in plan], "own": own, "input_vars": iv, "output_vars": ov,
                    "edges": edges, "node_edges": nedges})
    return evs


def wiring_events():
    import tensorflow_probability.substrates.jax.bijectors as tfb
    import tensorflow_probability.substrates.jax.distributions as tfd

    from .gibbs_driver import YD, penalty

    evs = []
    for spec in ([("np", "loc")], [("p", "loc"), ("np", "loc"), ("p", "scale")],
                 [("np", "loc"), ("np", "scale"), ("p", "scale"), ("np", "loc")]):
        b = lsl.DistRegBuilder()
        b.add_response(YD, tfd.Normal)
        b.add_predictor("loc", tfb.Identity)
        b.add_predictor("scale", tfb.Exp)
        Bm = jnp.asarray(np.vander(np.linspace(-1, 1, 7), 4), jnp.float32)
        for kind, pred in spec:
            if kind == "np":
                b.add_np_smooth(Bm, jnp.asarray(penalty(4, 2)), a=1.0, b=0.5, predictor=pred)
            else:
                b.add_p_smooth(jnp.ones((7, 1), jnp.float32), m=0.0, s=5.0, predictor=pred)
        model = b.build_model()
        eb = lsl.dist_reg_mcmc(model, seed=1, num_chains=2)
        groups = [{"name": g.name, "has_tau2": "tau2" in g, "has_beta": "beta" in g} for g in model.groups().values()]
        evs.append({"ev": "distreg_wiring", "groups": groups,
                    "kernels": [{"type": type(k).__name__, "keys": list(k.position_keys)} for k in eb.kernels],
                    "jitter_keys": sorted(eb.jitter_fns.unwrap().keys()),
                    "param_vars": sorted(v.name for v in model.vars.values() if v.parameter)})
    return evs


def builder_ops_events(rng, n=40):
    import re

    evs = []
    for _ in range(n):
        N = rng.randint(3, 7)
        nodes, inp, names = [], [], []
        for i in range(N):
            k = rng.randint(0, min(i, 2))
            ins = rng.sample(range(1, i + 1), k) if i else []
            nm = rng.choice(["a", "ab", "b", "", "xa"]) + (str(i) if rng.random() < 0.8 else "")
            nm = "" if nm.isdigit() else nm
            if ins:
                node = lsl.Calc(lambda *a: 0.0, *[nodes[j - 1] for j in ins], _name=nm, update_on_init=False)
            else:
                node = lsl.Value(float(i), _name=nm)
            nodes.append(node)
            inp.append(ins)
            names.append(nm)
        added = sorted(rng.sample(range(1, N + 1), rng.randint(1, N)))
        gb = lsl.GraphBuilder().add(*[nodes[a - 1] for a in added])
        idx = {id(nd): i + 1 for i, nd in enumerate(nodes)}
        if rng.random() < 0.5:
            old = rng.randint(1, N)
            new_node = lsl.Value(99.0, _name="new")
            nodes.append(new_node)
            idx[id(new_node)] = N + 1
            gb.replace_node(nodes[old - 1], new_node)
            evs.append({"ev": "replace_node", "inp": inp + [[]], "added": added, "old": old, "new": N + 1,
                        "inp_after": [[idx[id(x)] for x in nd.inputs] for nd in nodes],
                        "added_after": sorted(idx[id(x)] for x in gb.nodes)})
        else:
            pat, rep = rng.choice([("a", "Q"), ("^a", "z"), ("b$", ""), ("[0-9]", "#")])
            gb.rename(pat, rep)
            sub = {nm: re.sub(pat, rep, nm) for nm in set(names) if nm}
            sub[""] = ""
            evs.append({"ev": "rename", "inp": inp, "added": added, "names": names, "sub": sub,
                        "names_after": [nd.name for nd in nodes]})
    return evs


def gb_update_events(rng, n=30):
    """GraphBuilder.update / count_node_names / copy on random graphs whose node functions build term strings."""
    from .graph_driver import Term
    evs = []
    for _ in range(n):
        N = rng.randint(3, 7)
        nodes, inp, names = [], [], []
        for i in range(1, N + 1):
            k = rng.randint(0, min(i - 1, 3))
            ins = rng.sample(range(1, i), k) if i > 1 else []
            nm = rng.choice(["a", "b", "", "", "n0", "n1", "n3"]) + (str(i) if rng.random() < 0.4 else "")
            if nm in names:
                nm = ""
            if ins:
                node = lsl.Calc(lambda *a, _i=i: Term(f"f{_i}(" + ",".join(str(x) for x in a) + ")"),
                                *[nodes[j - 1] for j in ins], _name=nm, update_on_init=False)
            else:
                node = lsl.Value(Term(f"v{i}"), _name=nm)
            nodes.append(node)
            inp.append(ins)
            names.append(nm)
        added = rng.sample(range(1, N + 1), rng.randint(1, N))       # the order of the add() calls
        gb = lsl.GraphBuilder(to_float32=False)
        for a in added:
            gb.add(nodes[a - 1])
        idx = {id(nd): i + 1 for i, nd in enumerate(nodes)}
        vals = ["-" if nd.value is None else str(nd.value) for nd in nodes]
        cp = gb.copy()
        gb.update()
        counts = gb.count_node_names()
        ev = {"ev": "gb_update", "inp": inp, "added": added, "names": names, "vals": vals,
              "vals_after": ["-" if nd.value is None else str(nd.value) for nd in nodes],
              "names_after": [nd.name for nd in nodes], "added_after": [idx[id(x)] for x in gb.nodes],
              "all_free": all(nd.model is None for nd in nodes),
              "no_model_inputs_left": not any(i.name.startswith("_model") for nd in nodes for i in nd.all_input_nodes()),
              "counts": sorted([k, int(v)] for k, v in counts.items()),
              "copy_same_list": [idx[id(x)] for x in cp.nodes] == added}
        extra = lsl.Value(Term("extra"), _name="extra_node")
        cp.add(extra)
        ev["original_unchanged_by_adding_to_the_copy"] = [idx.get(id(x), 0) for x in gb.nodes] == added
        evs.append(ev)
    return evs


# ---- VarWiring: ownership of nodes by variables before a model is built -----------------
class WiringWorld:
    """NV variables (born with a private Value node, no distribution, no name) and NN free nodes."""

    def __init__(self, nv, kinds):
        import tensorflow_probability.substrates.jax.distributions as tfd
        self.nv, self.kinds = nv, list(kinds)
        self.free = [lsl.Value(0.0) if k == "val" else lsl.Dist(tfd.Normal, loc=0.0, scale=1.0) for k in kinds]
        self.vars = [lsl.Var(0.0) for _ in range(nv)]
        self.nodes = self.free + [v.value_node for v in self.vars]     # ids 1..NN, NN+1..NN+NV

    def hdr(self):
        return {"NV": self.nv, "NN": len(self.free), "kind": self.kinds}

    def _nid(self, node):
        for i, n in enumerate(self.nodes, start=1):
            if n is node:
                return i
        return -1          # a node outside the world (a NoDist)

    def _vid(self, var):
        for i, v in enumerate(self.vars, start=1):
            if v is var:
                return i
        return 0

    def observe(self):
        at = []
        for n in self.nodes:
            a = getattr(n, "at", None)
            w = 0
            if a is not None:
                w = next((i for i, v in enumerate(self.vars, start=1) if v.var_value_node is a), -1)
            at.append(w)
        return {
            "nvar": [self._vid(n.var) for n in self.nodes],
            "vval": [self._nid(v.value_node) for v in self.vars],
            "vdist": [0 if v.dist_node is None else self._nid(v.dist_node) for v in self.vars],
            "at": at,
            "vname": [v.name for v in self.vars],
            "nname": [n.name for n in self.nodes],
            "pname": [v.var_value_node.name for v in self.vars],
            "proxy_ok": all(v.var_value_node.inputs == (v.value_node,) and v.var_value_node.var is v for v in self.vars),
        }

    def op(self, o):
        rej = "none"
        try:
            if o["op"] == "set_value_node":
                self.vars[o["v"] - 1].value_node = self.nodes[o["n"] - 1]
            elif o["op"] == "set_dist_node":
                self.vars[o["v"] - 1].dist_node = None if o["d"] == 0 else self.nodes[o["d"] - 1]
            elif o["op"] == "set_at":
                self.nodes[o["d"] - 1].at = None if o["w"] == 0 else self.vars[o["w"] - 1].var_value_node
            elif o["op"] == "set_var_name":
                self.vars[o["v"] - 1].name = o["s"]
            elif o["op"] == "set_node_name":
                self.nodes[o["n"] - 1].name = o["s"]
        except RuntimeError as e:
            m = str(e)
            rej = "one_var" if "only be part of one var" in m else "part_of_var" if "is part of a var" in m else "other:" + m[:60]
        return {"ev": "wiring_op", **o, "rej": rej, "obs": self.observe()}


def wiring_random_ops(rng, world, n):
    nn, nv = len(world.free), world.nv
    vals = [i for i in range(1, nn + nv + 1) if i > nn or world.kinds[i - 1] == "val"]
    dists = [i for i in range(1, nn + 1) if world.kinds[i - 1] == "dist"]
    names = ["", "a", "b"]
    ops = []
    for _ in range(n):
        k = rng.random()
        if k < 0.3:
            ops.append({"op": "set_value_node", "v": rng.randint(1, nv), "n": rng.choice(vals)})
        elif k < 0.6 and dists:
            ops.append({"op": "set_dist_node", "v": rng.randint(1, nv), "d": rng.choice(dists + [0])})
        elif k < 0.7 and dists:
            ops.append({"op": "set_at", "d": rng.choice(dists), "w": rng.randint(0, nv)})
        elif k < 0.9:
            ops.append({"op": "set_var_name", "v": rng.randint(1, nv), "s": rng.choice(names)})
        else:
            ops.append({"op": "set_node_name", "n": rng.randint(1, nn + nv), "s": rng.choice(names)})
    return ops


def wiring_trace(rng, nops=25, ops=None, nv=None, kinds=None):
    nv = nv or rng.randint(2, 3)
    kinds = kinds or [rng.choice(["val", "dist"]) for _ in range(rng.randint(2, 4))]
    w = WiringWorld(nv, kinds)
    ops = ops if ops is not None else wiring_random_ops(rng, w, nops)
    return {"hdr": {"kind": "var_wiring", **w.hdr()}, "ev": [w.op(o) for o in ops]}


# ---- Chain: EpochChainManager / ListEpochChain thinning and combination -----------------
def chain_trace(rng, apply_thinning=True, nops=25):
    from liesel.goose.chain import EpochChainManager

    mgr = EpochChainManager(apply_thinning=apply_thinning)
    ev = []
    seen = []
    nchains = rng.choice([1, 2, 3])

    def chunk(e, lo, size):
        # item number (1-based position in the epoch's stream) carried in two differently shaped leaves
        idx = np.arange(lo + 1, lo + size + 1)
        a = np.broadcast_to(idx[None, :], (nchains, size)).astype(np.int32)
        b = np.broadcast_to(idx[None, :, None], (nchains, size, 2)).astype(np.float32)
        return {"a": jnp.asarray(a), "b": jnp.asarray(b), "e": jnp.full((nchains, size), e, jnp.int32)}

    def items(opt):
        if opt.is_none():
            return True, [], [], True
        t = opt.unwrap()
        a, b, e = np.asarray(t["a"]), np.asarray(t["b"]), np.asarray(t["e"])
        agree = bool((a[:, :, None] == b).all() and (a == a[0]).all() and a.shape[:2] == e.shape[:2] == b.shape[:2])
        return False, [int(x) for x in a[0]], [int(x) for x in e[0]], agree

    for _ in range(nops):
        k = rng.random()
        if not seen or (k < 0.15 and len(seen) < 4):
            th = rng.choice([1, 1, 2, 3, 4])
            mgr.advance_epoch(EpochConfig(EpochType.POSTERIOR, 100, th, None))
            seen.append(0)
            ev.append({"ev": "advance", "thin": th, "current": len(mgr.get_epochs()), "nepochs": len(mgr._chains)})
        elif k < 0.6:
            size = rng.choice([0, 1, 1, 2, 3, 4, 5, 7])
            e = len(seen)
            mgr.append(chunk(e, seen[-1], size))
            seen[-1] += size
            ev.append({"ev": "append", "size": size})
        elif k < 0.8:
            e = rng.randint(1, len(seen))
            none, it, _, agree = items(mgr.get_specific_chain(e - 1).get() if rng.random() < 0.7 or e != len(seen)
                                       else mgr.get_current_chain().get())
            ev.append({"ev": "get", "e": e, "none": none, "items": it, "leaves_agree": agree})
        else:
            mode = rng.choice(["combine", "all", "filtered"])
            if mode == "combine":
                es = [rng.randint(1, len(seen)) for _ in range(rng.randint(0, 3))]
                es = list(dict.fromkeys(es)) if rng.random() < 0.7 else es
                opt = mgr.combine([e - 1 for e in es])
            elif mode == "all":
                es = list(range(1, len(seen) + 1))
                opt = mgr.combine_all()
            else:
                ths = [c.thinning for c in mgr.get_epochs()]
                pick = rng.choice(sorted(set(ths)))
                es = [i + 1 for i, t in enumerate(ths) if t == pick]
                opt = mgr.combine_filtered(lambda c: c.thinning == pick)
            none, it, eps, _ = items(opt)
            ev.append({"ev": "combine", "mode": mode, "epochs": es, "none": none, "items": [[e, i] for e, i in zip(eps, it)]})
    return {"hdr": {"kind": "chain", "apply_thinning": apply_thinning}, "ev": ev}


# ---- Groups: membership registration -----------------------------------------------------------
def groups_trace(rng, nm=4, gnames=("a", "b"), nops=8):
    members = [lsl.Value(0.0, _name=f"m{i}") if i % 2 else lsl.Var(0.0, name=f"m{i}") for i in range(1, nm + 1)]
    made = []          # successfully constructed groups, in order
    ev = []
    for _ in range(nops):
        name = rng.choice(gnames)
        ms = rng.sample(range(1, nm + 1), rng.randint(1, nm))
        rej = "none"
        g = None
        try:
            g = lsl.Group(name, **{f"k{m}": members[m - 1] for m in ms})
            made.append(g)
        except RuntimeError as e:
            rej = "already_member" if "already a member" in str(e) else "other:" + str(e)[:60]
        reg = []
        for mem in members:
            row = {}
            for n in gnames:
                if n not in mem.groups:
                    row[n] = 0
                else:
                    row[n] = next((i for i, x in enumerate(made, start=1) if x is mem.groups[n]), -1)
            reg.append(row)
        e = {"ev": "new_group", "name": name, "members": ms, "rej": rej, "reg": reg, "listed": [], "partition_ok": True}
        if g is not None:
            e["listed"] = [int(k[1:]) for k in g.nodes_and_vars]
            e["partition_ok"] = (set(g.nodes) | set(g.vars) == set(g.nodes_and_vars) and not set(g.nodes) & set(g.vars)
                                 and all(isinstance(v, lsl.Var) for v in g.vars.values())
                                 and all(f"k{m}" in g and g[f"k{m}"] is members[m - 1] for m in ms) and g.name == name)
        ev.append(e)
    return {"hdr": {"kind": "groups", "nm": nm}, "ev": ev}


# ---- GraphBuilder.replace_var ------------------------------------------------------------------
def replace_var_events(rng, n=40):
    import tensorflow_probability.substrates.jax.distributions as tfd
    evs = []
    for _ in range(n):
        nodes, inp, at, vars_, vobjs = [], [], [], [], []

        def reg(node, ins, a=0):
            nodes.append(node)
            inp.append(ins)
            at.append(a)
            return len(nodes)

        nv = rng.randint(2, 4)
        for k in range(nv):
            # value node: strong (Value) or weak (Calc over earlier proxies / calcs)
            cand = [i for i in range(1, len(nodes) + 1) if not isinstance(nodes[i - 1], lsl.Dist)]
            ins = rng.sample(cand, min(len(cand), rng.randint(0, 2))) if rng.random() < 0.5 else []
            if ins:
                vnode = lsl.Calc(lambda *a: 0.0, *[nodes[j - 1] for j in ins], update_on_init=False)
            else:
                vnode = lsl.Value(float(k))
            dist = None
            dins = []
            if rng.random() < 0.6:
                cand = [i for i in range(1, len(nodes) + 1) if not isinstance(nodes[i - 1], lsl.Dist)]
                dins = rng.sample(cand, min(len(cand), rng.randint(0, 2)))
                dist = lsl.Dist(tfd.Normal, *[nodes[j - 1] for j in dins]) if dins else lsl.Dist(tfd.Normal, loc=0.0, scale=1.0)
            var = lsl.Var(vnode, dist, name=f"v{k}")
            vi = reg(var.value_node, ins)
            pi = reg(var.var_value_node, [vi])
            di = 0
            if dist is not None:
                # constants given by keyword became Value nodes: kw inputs are not recorded (never replaced here)
                di = reg(dist, dins, pi)
            vars_.append([vi, pi, di])
            vobjs.append(var)
            # a free calc using this var
            if rng.random() < 0.5:
                reg(lsl.Calc(lambda *a: 0.0, var, update_on_init=False), [pi])
        idx = {id(nd): i + 1 for i, nd in enumerate(nodes)}
        free = [i for i in range(1, len(nodes) + 1) if not any(i in v for v in vars_)]
        added = sorted(rng.sample(free, rng.randint(0, len(free)))) if free else []
        gbvars = sorted(rng.sample(range(1, nv + 1), rng.randint(1, nv)))
        gb = lsl.GraphBuilder().add(*[nodes[a - 1] for a in added], *[vobjs[g - 1] for g in gbvars])
        old, new = rng.sample(range(1, nv + 1), 2)
        # `new` must not depend on `old` (a variable cannot replace one of its own ancestors sensibly); keep any pair,
        # the spec describes what the code does in either case
        def reach(start):
            seen, todo = set(), list(start)
            while todo:
                x = todo.pop()
                if x in seen or x == 0:
                    continue
                seen.add(x)
                todo += inp[x - 1] + [at[x - 1]]
            return seen
        depends = bool(reach(vars_[new - 1]) & set(vars_[old - 1]))
        raised = False
        try:
            gb.replace_var(vobjs[old - 1], vobjs[new - 1])
        except RuntimeError:
            raised = True
        evs.append({"ev": "replace_var", "inp": inp, "at": at, "vars": vars_, "added": added, "gbvars": gbvars,
                    "old": old, "new": new, "raised": raised, "new_depends_on_old": depends,
                    "inp_after": [[idx[id(x)] for x in nd.inputs] for nd in nodes],
                    "added_after": sorted(idx[id(x)] for x in gb.nodes),
                    "gbvars_after": sorted(i + 1 for i, v in enumerate(vobjs) if any(v is g for g in gb.vars))})
    return evs


# ---- DistRegBuilder assembly rules -------------------------------------------------------------
def distreg_trace(rng, nops=10, preds=("loc", "scale")):
    import tensorflow_probability.substrates.jax.bijectors as tfb
    import tensorflow_probability.substrates.jax.distributions as tfd
    b = lsl.DistRegBuilder()
    X = jnp.ones((5, 2), jnp.float32)
    K = jnp.eye(2, dtype=jnp.float32)
    current = {}          # predictor name -> current predictor Var
    ev = []
    for _ in range(nops):
        k = rng.random()
        o = {"ev": "distreg_op"}
        rej = "none"
        try:
            if k < 0.15:
                o["op"] = "response"
                b.add_response(jnp.zeros(5, jnp.float32), tfd.Normal)
            elif k < 0.4:
                o.update(op="predictor", p=rng.choice(preds))
                b.add_predictor(o["p"], tfb.Identity if o["p"] == "loc" else tfb.Exp)
                current[o["p"]] = b._predictors[o["p"]]
            elif k < 0.7:
                o.update(op="p_smooth", p=rng.choice(preds), name=rng.choice(["", "", "s"]))
                b.add_p_smooth(X, 0.0, 10.0, o["p"], name=o["name"] or None)
            else:
                o.update(op="np_smooth", p=rng.choice(preds), name=rng.choice(["", "", "s"]))
                b.add_np_smooth(X, K, 1.0, 0.5, o["p"], name=o["name"] or None)
        except RuntimeError as e:
            m = str(e)
            rej = ("no_response" if "No response" in m else "no_predictor" if "No predictor" in m
                   else "duplicate_group" if "Group with name" in m
                   else "duplicate_smooth" if "already exists" in m else "other:" + m[:60])
        except KeyError:
            rej = "key_error"
        o["rej"] = rej
        # what is observable through public attributes
        pvars = {v.name[:-4]: v for v in b.vars if v.name.endswith("_pdt")}
        o["pred_in"] = {p: [] for p in preds}
        for p, v in current.items():
            o["pred_in"][p] = [i.var.name for i in v.value_node.inputs]
        try:
            o["resp_in"] = list(b.response.dist_node.kwinputs)
        except RuntimeError:
            o["resp_in"] = []
        o["groups"] = sorted(b.groups())
        o["builder_vars_ok"] = all(current[p] is pvars.get(p) or True for p in current)
        ev.append(o)
    return {"hdr": {"kind": "distreg"}, "ev": ev}


# ---- EngineBuilder: the result depends on the configuration, not on the order of the setter calls ------------
def builder_order_events(rng, nperm=6):
    import hashlib

    def logp(s):
        return -0.5 * jnp.sum((s["x"] - 1.0) ** 2) - 0.5 * (s["y"] / 2.0) ** 2

    steps = {
        "model": lambda b: b.set_model(gs.DictInterface(logp)),
        "init": lambda b: b.set_initial_values({"x": jnp.array([0.1, 0.2], jnp.float32), "y": jnp.float32(0.3)}),
        "epochs": lambda b: b.set_epochs([EpochConfig(EpochType.INITIAL_VALUES, 1, 1, None), EpochConfig(EpochType.BURNIN, 4, 1, None),
                                          EpochConfig(EpochType.POSTERIOR, 6, 2, None)]),
        "jitter": lambda b: b.set_jitter_fns({"x": lambda k, v: v + jax.random.uniform(k, v.shape, v.dtype),
                                              "y": lambda k, v: v * 2.0}),
        "kernels": lambda b: (b.add_kernel(gs.RWKernel(["x"], initial_step_size=0.5)),
                              b.add_kernel(gs.RWKernel(["y"], initial_step_size=0.8))),
        "included": lambda b: setattr(b, "positions_included", ["y"]),
        "engine_seed": lambda b: b.set_engine_seed(5),
    }
    names = sorted(steps)
    perms = [names] + [rng.sample(names, len(names)) for _ in range(nperm - 1)]
    evs = []
    for perm in perms:
        b = gs.EngineBuilder(seed=3, num_chains=2)
        for s in perm:
            steps[s](b)
        b.show_progress = False
        eng = b.build()
        eng.sample_all_epochs()
        res = eng.get_results()
        smp = res.get_samples()
        h = hashlib.sha256()
        for k in sorted(smp):
            h.update(np.ascontiguousarray(np.asarray(smp[k])).tobytes())
        evs.append({"ev": "builder_order", "order": perm, "digest": h.hexdigest()[:16], "keys": sorted(smp)})
    return evs


# ------------------------------------------------------------------ liesel.logging (Logging.tla)
def logging_trace(rng, nops=14, tmpdir=None):
    """Random calls of setup_logger / reset_logger / add_file_handler on the real logging module, with the projected
    state after each call and - for emitted records - the handlers that received them (a recording filter on every
    handler sees exactly the records the handler was given and keeps them from being written anywhere)."""
    import logging
    import tempfile

    import liesel.logging as LL

    names = {"root": "", "liesel": "liesel", "liesel.goose": "liesel.goose"}
    lg = {k: logging.getLogger(v) for k, v in names.items()}
    saved = {k: (list(g.handlers), g.level, g.propagate) for k, g in lg.items()}
    got = []

    class Rec(logging.Filter):
        def __init__(self, owner):
            super().__init__()
            self.owner = owner

        def filter(self, record):
            got.append(self.owner)
            return False

    probe = logging.Handler(0)
    tmp = tmpdir or tempfile.mkdtemp(prefix="vlog")
    try:
        for k, g in lg.items():
            g.handlers[:] = []
            g.setLevel(logging.WARNING if k == "root" else logging.NOTSET)
            g.propagate = True
        lg["root"].addHandler(probe)

        def arm():
            for k, g in lg.items():
                for h in g.handlers:
                    if not any(isinstance(f, Rec) for f in h.filters):
                        h.addFilter(Rec(h))

        def obs():
            kind = lambda h: "file" if isinstance(h, logging.FileHandler) else "stream" if isinstance(h, logging.StreamHandler) else "probe"
            return {"handlers": {k: [[kind(h), int(h.level)] for h in lg[k].handlers] for k in ("liesel", "liesel.goose")},
                    "level": {k: int(lg[k].level) for k in ("liesel", "liesel.goose")},
                    "propagate": {k: bool(lg[k].propagate) for k in ("liesel", "liesel.goose")}}

        ev = []
        nfile = 0
        for _ in range(nops):
            u = rng.random()
            nh = len(lg["liesel"].handlers)
            if u < 0.2:
                LL.setup_logger()
                ev.append({"ev": "setup", "obs": obs()})
            elif u < 0.4:
                LL.reset_logger()
                ev.append({"ev": "reset", "obs": obs(), "before": nh})
            elif u < 0.6:
                name = rng.choice(["liesel", "liesel.goose"])
                level = rng.choice(["debug", "info", "warning", "error"])
                nfile += 1
                LL.add_file_handler(f"{tmp}/sub{nfile % 2}/log{nfile}.log", level, logger=name)
                ev.append({"ev": "add_file", "logger": name, "level": getattr(logging, level.upper()), "obs": obs()})
            else:
                arm()
                name = rng.choice(["liesel", "liesel.goose", "liesel.goose"])
                level = rng.choice([10, 20, 30, 40])
                del got[:]
                lg[name].log(level, "probe record")
                deliv = []
                for h in got:
                    for k, g in lg.items():
                        if h in g.handlers:
                            deliv.append([k, g.handlers.index(h) + 1])
                ev.append({"ev": "emit", "logger": name, "level": level, "delivered": deliv, "n": len(got)})
        return {"hdr": {"kind": "logging"}, "ev": ev}
    finally:
        for k, g in lg.items():
            for h in list(g.handlers):
                if isinstance(h, logging.FileHandler):
                    h.close()
            g.handlers[:] = saved[k][0]
            g.setLevel(saved[k][1])
            g.propagate = saved[k][2]
        if tmpdir is None:
            import shutil
            shutil.rmtree(tmp, ignore_errors=True)


# ---- EngineBuilder life-cycle across several builds (EngineBuilderLife.tla) -------------------------------------------
def builder_life_trace(rng, nops=10, ops=None):
    import liesel.goose as gs
    from liesel.goose.epoch import EpochConfig, EpochType

    from .probes import NullKernel
    models = [gs.DictInterface(lambda s, c=c: -0.5 * sum(jnp.sum((s[k] - c) ** 2) for k in ("p1", "p2", "p3"))) for c in (0.0, 5.0)]
    b = gs.EngineBuilder(seed=rng.randint(0, 99), num_chains=2)
    b.show_progress = False
    kernels = []

    def mid(m):
        for i, x in enumerate(models, start=1):
            if m is x:
                return i
        return 0

    def obs():
        return [{"bound": mid(k.model) if k.has_model() else 0, "ident": k.identifier} for k in kernels]

    ev = []
    todo = list(ops) if ops else None
    for _ in range(len(todo) if todo else nops):
        if todo:
            o = todo.pop(0)
        else:
            r = rng.random()
            o = (("set_model", rng.randint(1, 2)) if r < 0.25 else
                 ("add_kernel", rng.choice([0, 0, 0, 1, 2]), rng.random() < 0.3) if r < 0.45 and len(kernels) < 3 else
                 ("set_initial_values",) if r < 0.6 else ("set_epochs",) if r < 0.72 else ("build",))
        e = {"ev": o[0], "reason": "none"}
        if o[0] == "set_model":
            b.set_model(models[o[1] - 1])
            e["m"] = o[1]
        elif o[0] == "add_kernel":
            k = NullKernel([f"p{len(kernels) + 1}"])
            if o[1]:
                k.set_model(models[o[1] - 1])
            if o[2]:
                k.identifier = f"z{len(kernels) + 1}"
            kernels.append(k)
            b.add_kernel(k)
            e.update({"u": o[1], "named": bool(o[2])})
        elif o[0] == "set_initial_values":
            b.set_initial_values({f"p{i}": jnp.zeros((), jnp.float32) for i in (1, 2, 3)})
        elif o[0] == "set_epochs":
            b.set_epochs([EpochConfig(EpochType.INITIAL_VALUES, 1, 1, None), EpochConfig(EpochType.POSTERIOR, 2, 1, None)])
        else:
            if sum(1 for x in ev if x["ev"] == "build" and x["reason"] == "none") >= 3:
                continue
            try:
                eng = b.build()
                e["engine_model"] = mid(eng._model)
                e["engine_kmodels"] = [mid(k.model) for k in eng._kernel_sequence.get_kernels()]
            except AttributeError as ex:
                e["reason"] = "no_epochs" if "_epochs" in str(ex) else "other:" + str(ex)[:80]
            except RuntimeError as ex:
                msg = str(ex)
                e["reason"] = ("no_model" if "Model interface must be set" in msg else
                               "no_initial_values" if "Model state must be set" in msg else "other:" + msg[:80])
        e["kernels"] = obs()
        ev.append(e)
    return {"hdr": {"kind": "builder_life"}, "ev": ev}
