"""Driver for Trace_Proposals.tla (C06): real RW / IWLS / MH kernels on model families
with analytic gradient and Hessian (float64 numpy leaves)."""
from __future__ import annotations

import dataclasses

import jax
import jax.numpy as jnp
import numpy as np

import liesel.goose as gs
import liesel.goose.pytree  # noqa: F401
from liesel.goose.epoch import EpochConfig, EpochType
from vlib.core import fstr

from .probes import WrapKernel, read_wrap_logs

P2 = np.array([[2.0, 0.6], [0.6, 1.0]])
P3 = np.array([[2.0, 0.6, -0.3], [0.6, 1.5, 0.2], [-0.3, 0.2, 1.0]])
M2, M3 = np.array([0.5, -1.0]), np.array([0.5, -1.0, 0.3])
YP, SIG2 = 3.0, 4.0
YP_B = 0.25
YT = np.array([-3.0, 3.0])                 # two observations of the Student-t location model
PBIG = np.linspace(60.0, 140.0, 40)        # diagonal information of the 40-dimensional block
XC = np.c_[np.ones(6), np.linspace(-1, 1, 6)]
YC = np.array([0.2, 0.1, 0.7, 0.9, 1.4, 1.3])


@gs.pytree.register_dataclass_as_pytree
@dataclasses.dataclass
class DCBlock:
    """Model state as a dataclass in the style of liesel's own kernel states: `tau` is not a constructor argument, it
    gets a start value in __post_init__ and has been changed since."""
    x: object
    tau: object = dataclasses.field(init=False)

    def __post_init__(self):
        self.tau = jnp.asarray(1.0, jnp.float32)


TAU_DC = 2.5


def _get(st, k):
    return st[k] if isinstance(st, dict) else getattr(st, k)


class Family:
    """log pi, gradient and information over the flat block (sorted keys)."""

    def __init__(self, name):
        self.name = name
        if name == "gauss1":
            self.keys, self.init = ["x"], {"x": jnp.array([0.2], jnp.float32)}
        elif name == "gauss2":
            self.keys, self.init = ["x"], {"x": jnp.array([0.2, -0.4], jnp.float32)}
        elif name == "gauss2_dc":      # the same target, tempered by a member of a dataclass state that is not an init argument
            st = DCBlock(jnp.array([0.2, -0.4], jnp.float32))
            st.tau = jnp.asarray(TAU_DC, jnp.float32)
            self.keys, self.init = ["x"], st
        elif name == "student_t":      # not log-concave: the information matrix is indefinite between the two observations
            self.keys, self.init = ["x"], {"x": jnp.array([2.6], jnp.float32)}
        elif name == "gauss3":
            self.keys, self.init = ["x"], {"x": jnp.array([0.2, -0.4, 0.1], jnp.float32)}
        elif name in ("poisson", "poisson_userchol", "poisson_b"):
            self.keys, self.init = ["z"], {"z": jnp.array(0.3, jnp.float32)}
        elif name in ("product", "product_rev"):
            # product_rev: the position keys are listed in non-alphabetical order (the flat layout is the sorted one)
            self.keys = ["x", "z"] if name == "product" else ["z", "x"]
            self.init = {"x": jnp.array([0.2, -0.4], jnp.float32), "z": jnp.array(0.3, jnp.float32)}
        elif name == "gauss2_userchol":
            self.keys, self.init = ["x"], {"x": jnp.array([0.2, -0.4], jnp.float32)}
        elif name == "gamma_mh":
            self.keys, self.init = ["x"], {"x": jnp.array([1.2, 0.7], jnp.float32)}
        elif name == "gamma_cached":   # the state caches a derived quantity (m = sum x) that the user's proposal keeps in step
            self.keys, self.init = ["x"], {"x": jnp.array([1.2, 0.7], jnp.float32), "m": jnp.float32(1.9)}
        elif name == "coupled":      # regression coefficients (IWLS) given a log-scale moved by another kernel
            self.keys, self.init = ["beta"], {"beta": jnp.array([0.1, 0.2], jnp.float32), "ls": jnp.array(0.1, jnp.float32)}
            self.other = ["ls"]
        elif name == "concentrated":   # a sharply concentrated target, start far in the tail: log ratios of several hundred
            self.keys, self.init = ["x"], {"x": jnp.array([3.0], jnp.float32)}
        elif name == "gamma_rw":       # bounded support: proposals outside it have a NaN log-density
            self.keys, self.init = ["g"], {"g": jnp.array([0.3], jnp.float32)}
        elif name == "gauss_big":      # a block of 40 coefficients with a large information matrix
            self.keys, self.init = ["x"], {"x": jnp.asarray(np.linspace(-0.2, 0.2, 40), jnp.float32)}
        elif name == "gamma_coupled":    # positive block (MH) whose rate is moved by another kernel
            self.keys, self.init = ["x"], {"x": jnp.array([1.2, 0.7], jnp.float32), "r": jnp.array(0.2, jnp.float32)}
            self.other = ["r"]
        else:
            raise KeyError(name)

    # jax log density over the model state (dict)
    def logp(self, s):
        n = "product" if self.name == "product_rev" else self.name
        if n == "gauss1":
            return -0.5 * 1.7 * jnp.sum((s["x"] - 0.4) ** 2)
        if n in ("gauss2", "gauss2_userchol"):
            r = s["x"] - jnp.asarray(M2, jnp.float32)
            return -0.5 * r @ jnp.asarray(P2, jnp.float32) @ r
        if n == "gauss2_dc":
            r = s.x - jnp.asarray(M2, jnp.float32)
            return -0.5 * r @ jnp.asarray(P2, jnp.float32) @ r / s.tau
        if n == "student_t":
            r = jnp.asarray(YT, jnp.float32) - s["x"][0]
            return -jnp.sum(jnp.log1p(r ** 2)) - 0.005 * s["x"][0] ** 2
        if n == "gauss3":
            r = s["x"] - jnp.asarray(M3, jnp.float32)
            return -0.5 * r @ jnp.asarray(P3, jnp.float32) @ r
        if n in ("poisson", "poisson_userchol"):
            z = s["z"]
            return YP * z - jnp.exp(z) - z ** 2 / (2 * SIG2)
        if n == "poisson_b":       # same state layout, another count
            z = s["z"]
            return YP_B * z - jnp.exp(z) - z ** 2 / (2 * SIG2)
        if n == "product":
            r = s["x"] - jnp.asarray(M2, jnp.float32)
            z = s["z"]
            return -0.5 * r @ jnp.asarray(P2, jnp.float32) @ r + YP * z - jnp.exp(z) - z ** 2 / (2 * SIG2)
        if n == "gamma_mh":
            x = s["x"]
            return jnp.sum(2.0 * jnp.log(x) - 1.5 * x)
        if n == "gamma_cached":
            return jnp.sum(2.0 * jnp.log(s["x"])) - 1.5 * s["m"]
        if n == "concentrated":
            return -0.5 * jnp.sum((s["x"] / 0.05) ** 2)
        if n == "gamma_rw":
            return jnp.sum(2.0 * jnp.log(s["g"]) - s["g"])
        if n == "gauss_big":
            return -0.5 * jnp.sum(jnp.asarray(PBIG, jnp.float32) * s["x"] ** 2)
        if n == "gamma_coupled":
            return jnp.sum(2.0 * jnp.log(s["x"]) - jnp.exp(s["r"]) * s["x"]) - 0.5 * s["r"] ** 2
        if n == "coupled":
            r = jnp.asarray(YC, jnp.float32) - jnp.asarray(XC, jnp.float32) @ s["beta"]
            return (-len(YC) * s["ls"] - 0.5 * jnp.sum(r ** 2) / jnp.exp(2 * s["ls"]) - 0.05 * jnp.sum(s["beta"] ** 2)
                    - 0.5 * s["ls"] ** 2)
        raise KeyError(n)

    def chol_info_fn(self):
        n = self.name
        if n == "poisson_userchol":
            return lambda s: jnp.sqrt(jnp.exp(s["z"]) + 1.0 / SIG2).reshape(1, 1)
        if n == "gauss2_userchol":      # rational, state-dependent lower-triangular factor (not the Hessian)
            return lambda s: jnp.array([[1.0 + s["x"][0] ** 2, 0.0], [0.5 * s["x"][0], 2.0]])
        return None

    # float64 analytic leaves on the flat block
    def leaves(self, f, ctx=None):
        f = np.asarray(f, np.float64)
        n = "product" if self.name == "product_rev" else self.name
        if n == "coupled":
            ls = float(ctx[0])
            r = YC - XC @ f
            s2 = np.exp(2 * ls)
            lp = -len(YC) * ls - 0.5 * np.sum(r ** 2) / s2 - 0.05 * np.sum(f ** 2) - 0.5 * ls ** 2
            return lp, XC.T @ r / s2 - 0.1 * f, XC.T @ XC / s2 + 0.1 * np.eye(2)
        if n == "concentrated":
            return float(-0.5 * np.sum((f / 0.05) ** 2)), None, None
        if n == "gamma_rw":
            with np.errstate(invalid="ignore", divide="ignore"):
                return float(np.sum(2.0 * np.log(f) - f)), None, None
        if n == "gauss_big":
            return float(-0.5 * np.sum(PBIG * f ** 2)), -PBIG * f, np.diag(PBIG)
        if n == "gamma_coupled":
            r = float(ctx[0])
            return float(np.sum(2.0 * np.log(f) - np.exp(r) * f) - 0.5 * r ** 2), None, None
        if n == "gauss1":
            return -0.5 * 1.7 * (f[0] - 0.4) ** 2, np.array([-1.7 * (f[0] - 0.4)]), np.array([[1.7]])
        if n == "student_t":      # Student-t with one degree of freedom, location mu = f[0]; F = - d^2 log p / d mu^2
            r = YT - f[0]
            lp = -np.sum(np.log1p(r ** 2)) - 0.005 * f[0] ** 2
            g = np.sum(2.0 * r / (1.0 + r ** 2)) - 0.01 * f[0]
            F = np.sum(2.0 * (1.0 - r ** 2) / (1.0 + r ** 2) ** 2) + 0.01
            return float(lp), np.array([g]), np.array([[F]])
        if n == "gauss2":
            r = f - M2
            return -0.5 * r @ P2 @ r, -P2 @ r, P2
        if n == "gauss2_dc":
            r = f - M2
            return -0.5 * r @ P2 @ r / TAU_DC, -P2 @ r / TAU_DC, P2 / TAU_DC
        if n == "gauss2_userchol":
            r = f - M2
            L = np.array([[1.0 + f[0] ** 2, 0.0], [0.5 * f[0], 2.0]])
            return -0.5 * r @ P2 @ r, -P2 @ r, L @ L.T
        if n == "gauss3":
            r = f - M3
            return -0.5 * r @ P3 @ r, -P3 @ r, P3
        if n in ("poisson", "poisson_userchol", "poisson_b"):
            z = f[0]
            yp = YP_B if n == "poisson_b" else YP
            return yp * z - np.exp(z) - z ** 2 / (2 * SIG2), np.array([yp - np.exp(z) - z / SIG2]), np.array([[np.exp(z) + 1 / SIG2]])
        if n == "product":
            r, z = f[:2] - M2, f[2]
            lp = -0.5 * r @ P2 @ r + YP * z - np.exp(z) - z ** 2 / (2 * SIG2)
            g = np.concatenate([-P2 @ r, [YP - np.exp(z) - z / SIG2]])
            F = np.zeros((3, 3))
            F[:2, :2] = P2
            F[2, 2] = np.exp(z) + 1 / SIG2
            return lp, g, F
        if n in ("gamma_mh", "gamma_cached"):
            return float(np.sum(2.0 * np.log(f) - 1.5 * f)), None, None
        raise KeyError(n)


def _vs(a):
    return [fstr(float(x)) for x in np.ravel(a)]


def _ms(A):
    return [[fstr(float(x)) for x in row] for row in np.asarray(A)]


def run(kernel="iwls", family="gauss2", step=0.7, chains=2, seed=0, n_iter=40, init=None):
    fam = Family(family)
    if init is not None:      # another start value for the (only) block
        fam.init = {fam.keys[0]: jnp.asarray(init, jnp.float32)}
    interface = gs.DataclassInterface(fam.logp) if family.endswith("_dc") else gs.DictInterface(fam.logp)
    if kernel == "rw":
        inner = gs.RWKernel(fam.keys, initial_step_size=step)
    elif kernel == "iwls":
        inner = gs.IWLSKernel(fam.keys, chol_info_fn=fam.chol_info_fn(), initial_step_size=step)
    else:
        def prop(key, ms, s):
            x = ms["x"]
            new = x * jnp.exp(s * jax.random.normal(key, x.shape))
            if family == "gamma_cached":     # the proposal carries the cached quantity along (not a position key)
                return gs.MHProposal({"x": new, "m": jnp.sum(new)}, jnp.sum(jnp.log(new) - jnp.log(x)))
            return gs.MHProposal({"x": new}, jnp.sum(jnp.log(new) - jnp.log(x)))
        inner = gs.MHKernel(fam.keys, prop, initial_step_size=step)

    def obs_fn(model, before, after, info, epoch, key):
        fb = [v for k in sorted(fam.keys) for v in jnp.ravel(jnp.asarray(_get(before, k), jnp.float32))]
        fa = [v for k in sorted(fam.keys) for v in jnp.ravel(jnp.asarray(_get(after, k), jnp.float32))]
        cx = [v for k in other for v in jnp.ravel(jnp.asarray(_get(before, k), jnp.float32))]
        return fb + fa + cx

    other = getattr(fam, "other", [])
    d = sum(int(np.prod(np.shape(_get(fam.init, k)))) if np.shape(_get(fam.init, k)) else 1 for k in fam.keys)
    w = WrapKernel(inner, n_tun=4, obs_fn=obs_fn, n_obs=2 * d + len(other), cap=2 * n_iter + 16)
    b = gs.EngineBuilder(seed=seed, num_chains=chains)
    b.set_model(interface)
    b.set_initial_values(fam.init)
    b.add_kernel(w)
    for k in other:       # a second kernel moves the quantity the block's conditional depends on
        b.add_kernel(gs.RWKernel([k], initial_step_size=0.5))
    b.set_epochs([EpochConfig(EpochType.INITIAL_VALUES, 1, 1, None), EpochConfig(EpochType.BURNIN, n_iter, 1, None),
                  EpochConfig(EpochType.POSTERIOR, n_iter, 1, None)])
    b.show_progress = False
    eng = b.build()
    eng.sample_all_epochs()
    logs = read_wrap_logs(eng, [w])
    traces = []
    for c in range(chains):
        evs = [e for e in logs[(c, 0)] if e["kind"] == "transition"]
        # RW: try to replay the Gaussian step from the documented key derivation (menu of two)
        replay = None
        picked = None
        if kernel == "rw":
            for pick in (0, 1):
                ok = True
                zs = []
                for e in evs:
                    k0, k1 = (int(x) for x in e["key"].split(":"))
                    sub = jax.random.split(jnp.asarray([k0, k1], jnp.uint32))[pick]
                    z = np.asarray(jax.random.normal(sub, (d,)), np.float64)
                    zs.append(z)
                    if e["moved"] and not np.allclose(np.asarray(e["obs"][:d]) + e["pre"][0] * z, e["obs"][d:2 * d], rtol=1e-4, atol=1e-5):
                        ok = False
                        break
                if ok:
                    replay = zs
                    picked = pick
                    break
        ev = []
        for i, e in enumerate(evs):
            x, xa = np.asarray(e["obs"][:d], np.float64), np.asarray(e["obs"][d:2 * d], np.float64)
            ctx = e["obs"][2 * d:]
            s = float(e["pre"][0])
            ev.append({"ev": "moved", "moved": bool(e["moved"]), "before": _vs(x), "after": _vs(xa), "acc": fstr(e["acc"]),
                       "code": int(e["code"])})
            if kernel == "iwls" and family == "student_t":
                # where the information is not positive definite there is no Gaussian proposal to draw from
                Fb = (fam.leaves(x, ctx) if other else fam.leaves(x))[2]
                ev[-1]["fwd_defined"] = bool(np.all(np.linalg.eigvalsh(np.asarray(Fb, np.float64)) > 0))
            if e["moved"]:
                xp = xa
            elif replay is not None:
                xp = x + s * replay[i]
            else:
                continue
            lpx, gx, Fx = fam.leaves(x, ctx) if other else fam.leaves(x)
            lpp, gp, Fp = fam.leaves(xp, ctx) if other else fam.leaves(xp)
            rec = {"ev": kernel, "x": _vs(x), "xp": _vs(xp), "s": fstr(s), "acc": fstr(e["acc"]),
                   "lp_x": fstr(lpx), "lp_xp": fstr(lpp), "was_accepted": bool(e["moved"])}
            if kernel == "iwls" and family == "gauss_big":
                # Gaussian proposal log-densities in float64 (diagonal information)
                def logq(to, frm, g, F):
                    var = s ** 2 / np.diag(F)
                    mu = frm + 0.5 * var * g
                    return float(np.sum(-0.5 * np.log(2 * np.pi * var) - 0.5 * (to - mu) ** 2 / var))
                rec = {"ev": "iwls_big", "acc": fstr(e["acc"]), "lp_x": fstr(lpx), "lp_xp": fstr(lpp),
                       "fwd": fstr(logq(xp, x, gx, Fx)), "bwd": fstr(logq(x, xp, gp, Fp)), "was_accepted": bool(e["moved"])}
            elif kernel == "iwls":
                rec.update({"g_x": _vs(gx), "F_x": _ms(Fx), "g_xp": _vs(gp), "F_xp": _ms(Fp)})
            if kernel == "mh":
                rec["corr"] = fstr(float(np.sum(np.log(xp) - np.log(x))))
            ev.append(rec)
        if picked is not None:
            # which uniform explains the accept / reject decisions: the one of the sub-key the proposal did NOT use
            # (the documented derivation), or the one of the sub-key that already drew the proposal
            inner = other_ok = same_ok = 0
            for e in evs:
                a = float(e["acc"])
                if not (0.0 < a < 1.0):
                    continue
                k0, k1 = (int(x) for x in e["key"].split(":"))
                subs = jax.random.split(jnp.asarray([k0, k1], jnp.uint32))
                u_same, u_other = float(jax.random.uniform(subs[picked])), float(jax.random.uniform(subs[1 - picked]))
                inner += 1
                other_ok += int(bool(e["moved"]) == (u_other < a))
                same_ok += int(bool(e["moved"]) == (u_same < a))
            ev.append({"ev": "rw_keys", "inner": inner, "explained_by_other_subkey": other_ok, "explained_by_proposal_subkey": same_ok})
        traces.append({"hdr": {"kernel": kernel, "family": family, "step": step, "chain": c, "d": d,
                               "rtol": "3e-3", "atol": "2e-5", "rw_replay_matched": replay is not None,
                               # the density is finite everywhere and every proposal is a finite point
                               "regular": family not in ("gamma_rw", "student_t"),
                               "scenario": {"kernel": kernel, "family": family, "step": step, "chains": chains,
                                            "seed": seed, "n_iter": n_iter, "init": init}},
                       "ev": ev})
    return traces


def jobs(quick=True):
    js = []
    fams_iwls = ["gauss2", "poisson", "product", "product_rev", "poisson_userchol", "gauss2_userchol", "coupled"] + ([] if quick else ["gauss1", "gauss3"])
    steps = [0.7] if quick else [0.1, 0.7, 1.5]
    for f in fams_iwls:
        for s in steps:
            js.append(dict(kernel="iwls", family=f, step=s, seed=len(js)))
    if quick:       # a step size beyond sqrt(2) (the drift of IWLS is then more than a full Newton step)
        js.append(dict(kernel="iwls", family="poisson", step=1.8, seed=len(js)))
        js.append(dict(kernel="iwls", family="product_rev", step=1.6, seed=len(js)))
    for f in (["gauss2", "poisson"] if quick else ["gauss1", "gauss2", "gauss3", "poisson", "product", "product_rev"]):
        for s in steps:
            js.append(dict(kernel="rw", family=f, step=s, seed=len(js)))
    for s in steps:
        js.append(dict(kernel="mh", family="gamma_mh", step=0.5 * s, seed=len(js)))
    js.append(dict(kernel="mh", family="gamma_cached", step=0.4, seed=len(js)))
    # log ratios far beyond the overflow of exp, NaN log-densities outside the support, a block of 40 coefficients
    js.append(dict(kernel="rw", family="concentrated", step=0.7, seed=len(js)))
    js.append(dict(kernel="rw", family="gamma_rw", step=0.9, seed=len(js)))
    js.append(dict(kernel="iwls", family="gauss_big", step=0.7, seed=len(js)))
    # a dataclass model state with a member that is not a constructor argument
    js.append(dict(kernel="iwls", family="gauss2_dc", step=0.7, seed=len(js)))
    # a target that is not log-concave: proposals land where the information is indefinite (no backward density)
    js.append(dict(kernel="iwls", family="student_t", step=1.2, seed=len(js), chains=4, n_iter=80))
    # ... and chains that *start* where it is indefinite: no forward density, the chain must stay where it is
    js.append(dict(kernel="iwls", family="student_t", step=1.2, seed=len(js), chains=4, n_iter=30, init=[0.5]))
    js.append(dict(kernel="rw", family="gauss2_dc", step=0.7, seed=len(js)))
    # the block's density depends on a quantity another kernel of the sequence moves between the transitions
    for s in steps:
        js.append(dict(kernel="rw", family="coupled", step=0.5 * s, seed=len(js)))
        js.append(dict(kernel="mh", family="gamma_coupled", step=0.5 * s, seed=len(js)))
    return js


def rebind_traces(seed=0, kernels=("iwls", "rw")):
    """One kernel object used eagerly with a model, then given another model of the same state layout (set_model) and
    used again: the reported acceptance is that of the model the kernel is bound to *now*."""
    out = []
    epoch = EpochConfig(EpochType.POSTERIOR, 10, 1, None).to_state(1, 1)
    for kname in kernels:
        fams = [Family("poisson"), Family("poisson_b"), Family("poisson")]
        kern = gs.IWLSKernel(["z"], initial_step_size=0.8) if kname == "iwls" else gs.RWKernel(["z"], initial_step_size=0.8)
        key = jax.random.PRNGKey(seed)
        state = dict(fams[0].init)
        ev = []
        ks = None
        for fam in fams:
            kern.set_model(gs.DictInterface(fam.logp))
            if ks is None:
                ks = kern.init_state(key, state)
            for _ in range(6):
                key, sub = jax.random.split(key)
                before = np.asarray(state["z"], np.float64).reshape(1)
                o = kern._standard_transition(sub, ks, state, epoch)
                state = o.model_state
                after = np.asarray(state["z"], np.float64).reshape(1)
                moved = bool(o.info.position_moved)
                ev.append({"ev": "moved", "moved": moved, "before": _vs(before), "after": _vs(after), "acc": fstr(np.float32(o.info.acceptance_prob)),
                           "code": int(o.info.error_code)})
                if not moved:
                    continue
                lpx, gx, Fx = fam.leaves(before)
                lpp, gp, Fp = fam.leaves(after)
                rec = {"ev": kname, "x": _vs(before), "xp": _vs(after), "s": fstr(np.float32(ks.step_size)),
                       "acc": fstr(np.float32(o.info.acceptance_prob)), "lp_x": fstr(lpx), "lp_xp": fstr(lpp), "was_accepted": True}
                if kname == "iwls":
                    rec.update({"g_x": _vs(gx), "F_x": _ms(Fx), "g_xp": _vs(gp), "F_xp": _ms(Fp)})
                ev.append(rec)
        out.append({"hdr": {"kernel": kname, "family": "rebind", "step": 0.8, "chain": 0, "d": 1, "rtol": "3e-3", "atol": "2e-5",
                            "rw_replay_matched": False, "regular": True, "rebind": {"seed": seed}}, "ev": ev})
    return out
