"""Run driver jobs in fresh worker processes (JAX does not like fork)."""
from __future__ import annotations

import importlib
import multiprocessing as mp
import os
import sys
from concurrent.futures import ProcessPoolExecutor


def _init(paths):
    for p in reversed(paths):
        if p not in sys.path:
            sys.path.insert(0, p)
    os.environ.setdefault("JAX_PLATFORMS", "cpu")
    os.environ.setdefault("XLA_FLAGS", "--xla_cpu_multi_thread_eigen=false intra_op_parallelism_threads=1")
    import harness  # noqa: F401  (silences liesel logging)


def _call(args):
    modname, fname, kwargs = args
    mod = importlib.import_module(modname)
    return getattr(mod, fname)(**kwargs)


def run_jobs(modname: str, fname: str, jobs: list[dict], procs: int | None = None):
    """Returns the list of results in job order."""
    if not jobs:
        return []
    procs = min(procs or max(1, (os.cpu_count() or 4) - 2), len(jobs))
    if procs <= 1:
        mod = importlib.import_module(modname)
        return [getattr(mod, fname)(**kw) for kw in jobs]
    paths = [p for p in sys.path if p]
    with ProcessPoolExecutor(max_workers=procs, mp_context=mp.get_context("spawn"),
                             initializer=_init, initargs=(paths,)) as ex:
        return list(ex.map(_call, [(modname, fname, kw) for kw in jobs]))
