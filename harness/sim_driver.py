"""Driver for Trace_Simulate.tla (C17): real liesel Models with hierarchies of
distributed variables in an *integer-coded numeric regime*: fake distribution objects
with TFP's shape attributes whose sample() returns an exact integer code of the
parameter values they were constructed with and of the seed split they received, so
that which parent value a child saw is read off exactly.  All values are small
integers stored in float32 arrays (exact)."""
from __future__ import annotations

import jax
import jax.numpy as jnp
import numpy as np

from vlib.core import fstr

import liesel.model as lsl

SHAPES = [(), (3,), (2, 2)]


def apply_int(n, args):
    return n + 2 * sum(args)


def draw_int(d, r, pv):
    return r + 8 * (d + sum(pv))


def gen_plan(rng, nvars=None):
    """Hierarchy of distributed variables.  Plan nodes (topological):
    v value (hyper-parameter without distribution, or the value of a distributed Var),
    p proxy, c Calc (cached intermediate), t TransientCalc, d Dist (of a Var).
    Intermediate calcs form arbitrary small DAGs (diamonds, shared inputs) with inputs in
    random order."""
    nvars = nvars or rng.randint(2, 4)
    plan, avail = [], []      # avail: node ids other nodes may take as inputs
    for _ in range(rng.randint(0, 2)):
        plan.append({"kind": "v", "inp": [], "shape": rng.choice(SHAPES)})
        avail.append(len(plan))
    for k in range(nvars):
        for _ in range(rng.randint(0, 3)):
            if not avail:
                break
            ins = rng.sample(avail, min(len(avail), rng.choice([1, 1, 2, 2, 3])))
            rng.shuffle(ins)
            kind = rng.choice(["c", "c", "c", "t"])
            plan.append({"kind": kind, "inp": ins, "weak_var": kind == "c" and rng.random() < 0.3})
            avail.append(len(plan))
        params = rng.sample(avail, min(len(avail), rng.choice([0, 1, 1, 2, 3]))) if avail else []
        rng.shuffle(params)
        plan.append({"kind": "v", "inp": [], "wrapped": True, "shape": rng.choice(SHAPES), "int_init": rng.random() < 0.3})
        vi = len(plan)
        plan.append({"kind": "p", "inp": [vi]})
        pi = len(plan)
        plan.append({"kind": "d", "inp": params + [pi], "var": k})
        avail.append(pi)
        if rng.random() < 0.35:
            # a calculator that reads the variable's *value node* directly (as GraphBuilder.transform's back-transform does)
            plan.append({"kind": "c", "inp": [vi] + ([pi] if rng.random() < 0.3 else [])})
            avail.append(len(plan))
    # free-standing distribution nodes (extra factors of the joint density, no variable of their own) evaluated at
    # a variable: never simulated
    proxies = [i + 1 for i, p in enumerate(plan) if p["kind"] == "p"]
    for _ in range(rng.choice([0, 0, 1, 1, 2])):
        at = rng.choice(proxies)
        # parameters must not descend from the variable the factor is evaluated at: liesel's simulation graph would
        # be cyclic and Model.__init__ refuses such a model (nodes created before the variable cannot descend from it)
        early = [a for a in avail if a < at - 1]
        params = rng.sample(early, min(len(early), rng.choice([0, 1, 2])))
        plan.append({"kind": "f", "inp": params + [at]})
    return plan


SPEC_KIND = {"v": "v", "c": "c", "t": "t", "p": "p", "d": "c", "f": "c"}


class SimRun:
    def __init__(self, plan, copy=False):
        self.plan, self.n = plan, len(plan)
        self.nodes, self.vars, self.dist_of_var, self.weak_vars = {}, {}, {}, {}
        self.draw_log = []
        pending = {}
        for i, p in enumerate(plan, start=1):
            name = f"n{i}"
            if p["kind"] == "v" and not p.get("wrapped"):
                self.nodes[i] = lsl.Value(jnp.zeros(p["shape"], jnp.float32) + float(i), _name=name)
            elif p["kind"] == "v":
                # (some start values are integer-typed placeholders)
                pending[i] = jnp.zeros(p["shape"], jnp.int32 if p.get("int_init") else jnp.float32) + i
            elif p["kind"] == "p":
                pass  # created together with the dist node below
            elif p["kind"] in ("c", "t"):
                cls = lsl.Calc if p["kind"] == "c" else lsl.TransientCalc
                ins = [self.nodes[j] for j in p["inp"]]
                self.nodes[i] = cls(self._fn(i), *ins, _name=name)
                if p.get("weak_var"):
                    # a weak variable without a distribution around the calculator (its consumers keep reading the node)
                    self.weak_vars[i] = lsl.Var(self.nodes[i], name=f"weak{i}")
                    self.weak_vars[i].var_value_node.name = f"weak{i}_proxy"
            elif p["kind"] == "f":
                fac = lsl.Dist(self._dist(i), *[self.nodes[j] for j in p["inp"][:-1]], _name=name)
                fac.at = self.nodes[p["inp"][-1]]
                self.nodes[i] = fac
            elif p["kind"] == "d":
                pi = p["inp"][-1]
                vi = plan[pi - 1]["inp"][0]
                params = [self.nodes[j] for j in p["inp"][:-1]]
                dist = lsl.Dist(self._dist(i), *params, _name=name)
                var = lsl.Var(pending[vi], dist, name=f"var{vi}")
                var.value_node.name = f"n{vi}"
                var.var_value_node.name = f"n{pi}"
                if p.get("reassign"):
                    # the distribution node is fetched and assigned back (as after editing it): still the variable's
                    var.dist_node = var.dist_node
                self.nodes[vi], self.nodes[pi], self.nodes[i] = var.value_node, var.var_value_node, dist
                self.vars[vi] = var
                self.dist_of_var[vi] = i
        gb = lsl.GraphBuilder(to_float32=False)
        gb.add(*self.vars.values(), *self.weak_vars.values(), *self.nodes.values())
        self.model = gb.build_model(copy=copy)
        if copy:
            # the model holds copies: the driver's handles are re-bound to them by name
            self.nodes = {i: self.model.nodes[nd.name] for i, nd in self.nodes.items()}
            self.vars = {i: self.model.vars[v.name] for i, v in self.vars.items()}
            self.weak_vars = {i: self.model.vars[v.name] for i, v in self.weak_vars.items()}
        self.slots = []

    def _fn(self, i):
        def fn(*xs):
            # inputs may have different shapes: reduce each to its (uniform) scalar code
            # (drawn values carry the fraction .25: every consumer floors its inputs, the integer regime stays exact)
            return jnp.asarray(i + 2 * sum(jnp.floor(jnp.ravel(jnp.asarray(x))[0]) for x in xs), jnp.float32)
        return fn

    def _dist(self, i):
        run = self

        class FakeDist:
            event_shape = ()
            batch_shape = ()

            def __init__(self, *params):
                self.params = [float(jnp.floor(jnp.ravel(jnp.asarray(p))[0])) for p in params]

            def log_prob(self, x):
                return jnp.asarray(0.0, jnp.float32)

            def sample(self, sample_shape, seed):
                tok = f"{int(seed[0])}:{int(seed[1])}"
                r = int(seed[1]) % 5 + 1
                code = float(draw_int(i, r, [int(v) for v in self.params]))
                run.draw_log.append({"d": i, "tok": tok, "r": r, "params_seen": [int(v) for v in self.params],
                                     "sample_shape": list(sample_shape)})
                # a draw of a continuous variable: not an integer
                return jnp.zeros(tuple(sample_shape), jnp.float32) + code + 0.25
        return FakeDist

    def snapshot(self):
        val, outd, shapes, uniform, fracs = [], [], [], True, []
        for i in range(1, self.n + 1):
            nd = self.model.nodes[f"n{i}"]
            a = np.asarray(nd.value, np.float32)
            flat = a.reshape(-1)
            if flat.size and not np.all(flat == flat[0]):
                uniform = False
            val.append(int(np.floor(flat[0])) if flat.size else 0)
            fracs.append(repr(float(flat[0] - np.floor(flat[0]))) if flat.size else "0.0")
            outd.append(bool(nd.outdated))
            shapes.append(list(a.shape))
        return {"val": val, "outd": outd, "shapes": shapes, "uniform": uniform, "fracs": fracs}

    def header(self):
        snap = self.snapshot()
        kinds = [SPEC_KIND[p["kind"]] for p in self.plan]
        init = [v if k not in ("t", "p") else 0 for v, k in zip(snap["val"], kinds)]
        # distribution nodes hold a log-prob (0), keep that as their cached value
        sims = []
        for i, p in enumerate(self.plan, start=1):
            if p["kind"] == "d":
                pi = p["inp"][-1]
                sims.append({"d": i, "target": self.plan[pi - 1]["inp"][0], "params": p["inp"][:-1]})
        return {"n": self.n, "kind": kinds, "inp": [p["inp"] for p in self.plan], "init": init,
                "sims": sims, "factors": [i for i, p in enumerate(self.plan, start=1) if p["kind"] == "f"], "plan": self.plan, "value_shapes": snap["shapes"]}

    def op(self, o):
        m = self.model
        ev = dict(o)
        if o["ev"] == "assign":
            p = self.plan[o["n"] - 1]
            m.nodes[f"n{o['n']}"].value = jnp.zeros(p["shape"], jnp.float32) + float(o["x"])
        elif o["ev"] == "set_auto":
            m.auto_update = o["b"]
        elif o["ev"] == "update_all":
            m.update()
        elif o["ev"] == "save":
            self.slots.append(m.state)
        elif o["ev"] == "restore":
            m.state = self.slots[o["slot"] - 1]
        elif o["ev"] == "simulate":
            self.draw_log.clear()
            skip = []
            for s in o["skip"]:      # skip by var name / dist node name / at (proxy) node name
                how = o["skip_how"]
                d = self.dist_of_var[s]
                pi = self.plan[d - 1]["inp"][-1]
                skip.append({"var": f"var{s}", "dist": f"n{d}", "at": f"n{pi}"}[how])
            # naming a weak variable without a distribution in `skip` has no effect on the variables it is computed from
            skip += [f"weak{i}" for i in o.get("skip_weak", [])]
            # (the parameter is typed Iterable[str]: a list, a tuple, a set or a one-pass iterator are all legal)
            form = o.get("skip_form", "list")
            skip_arg = {"list": skip, "tuple": tuple(skip), "set": set(skip), "iter": iter(list(skip)),
                        # a single name given as a plain string
                        "str": skip[0] if len(skip) == 1 else skip}[form]
            m.simulate(jax.random.PRNGKey(o["seed"]), skip=skip_arg)
            ev["draws"] = list(self.draw_log)
            ev["order"] = [d["d"] for d in self.draw_log]
            ev["rs"] = [d["r"] for d in self.draw_log]
            ev["toks"] = [d["tok"] for d in self.draw_log]
        ev.update(self.snapshot())
        return ev


def gen_ops(rng, plan, nops):
    vals = [i + 1 for i, p in enumerate(plan) if p["kind"] == "v"]
    dvals = [i + 1 for i, p in enumerate(plan) if p["kind"] == "v" and p.get("wrapped")]
    ops = []

    weak = [i + 1 for i, p in enumerate(plan) if p.get("weak_var")]

    def sim():
        k = rng.randint(0, max(0, len(dvals) - 1))
        return {"ev": "simulate", "seed": rng.randint(0, 10**6),
                "skip_weak": sorted(rng.sample(weak, rng.randint(0, len(weak)))) if weak and rng.random() < 0.5 else [],
                "skip": sorted(rng.sample(dvals, k)) if rng.random() < 0.5 else [],
                "skip_how": rng.choice(["var", "dist", "at"]), "skip_form": rng.choice(["list", "list", "tuple", "set", "iter", "str", "str"])}

    nslots = 0
    while len(ops) < nops:
        r = rng.random()
        if r < 0.12 and vals:
            # a state is saved, the parameters move on, the state is loaded again (Model.state setter: no flagging), and
            # children are simulated with their parents skipped (the usual posterior-predictive loop)
            s_ = sim()
            s_["skip"] = sorted(rng.sample(dvals, max(0, len(dvals) - 1))) if dvals else []
            s_["skip_how"] = "var"
            ops += [{"ev": "update_all"}, {"ev": "save"},
                    {"ev": "assign", "n": rng.choice(vals), "x": rng.randint(1, 9)}, {"ev": "update_all"},
                    {"ev": "restore", "slot": nslots + 1}, s_]
            nslots += 1
        elif r < 0.3:
            ops.append(sim())
        elif r < 0.45:
            # assignment with auto-update off, switched back on without an update, then simulate
            ops += [{"ev": "set_auto", "b": False}, {"ev": "assign", "n": rng.choice(vals), "x": rng.randint(1, 9)},
                    {"ev": "set_auto", "b": True}, sim()]
        elif r < 0.6:
            ops.append({"ev": "assign", "n": rng.choice(vals), "x": rng.randint(1, 9)})
        elif r < 0.8:
            ops.append({"ev": "set_auto", "b": rng.random() < 0.4})
        else:
            ops.append({"ev": "update_all"})
    ops.append({"ev": "update_all"})
    return ops


def random_trace(rng):
    plan = gen_plan(rng)
    if rng.random() < 0.3:
        for p in plan:
            if p["kind"] == "d" and rng.random() < 0.6:
                p["reassign"] = True
    copy = rng.random() < 0.25        # the model is built with copy=True (it holds copies of the nodes)
    run = SimRun(plan, copy=copy)
    hdr = run.header()
    hdr["copy"] = copy
    ops = gen_ops(rng, plan, rng.randint(3, 10))
    # determinism in the seed: repeat one simulate with the same seed on the same pre-state
    hdr["ops"] = ops
    return {"hdr": hdr, "ev": [run.op(o) for o in ops]}


def replay_trace(hdr):
    plan = hdr["plan"]
    for p in plan:
        if "shape" in p:
            p["shape"] = tuple(p["shape"])
    run = SimRun(plan, copy=bool(hdr.get("copy")))
    h = run.header()
    h["ops"] = hdr["ops"]
    h["copy"] = bool(hdr.get("copy"))
    return {"hdr": h, "ev": [run.op(o) for o in hdr["ops"]]}


def diamond_plans():
    """Parent x -> q = g(x), p = h(q), t = f(p, q) (both input orders) -> child's parameter."""
    out = []
    for order in ([5, 4], [4, 5]):
        for kinds in (("c", "c", "c"), ("c", "t", "c"), ("t", "c", "c")):
            plan = [
                {"kind": "v", "inp": [], "wrapped": True, "shape": ()},
                {"kind": "p", "inp": [1]},
                {"kind": "d", "inp": [2], "var": 0},
                {"kind": kinds[0], "inp": [2]},            # q
                {"kind": kinds[1], "inp": [4]},            # p
                {"kind": kinds[2], "inp": list(order)},    # t
                {"kind": "v", "inp": [], "wrapped": True, "shape": (3,)},
                {"kind": "p", "inp": [7]},
                {"kind": "d", "inp": [6, 8], "var": 1},
            ]
            out.append(plan)
    return out


def fixed_traces():
    out = []
    for plan in diamond_plans():
        for auto in (False, True):
            run = SimRun(plan)
            hdr = run.header()
            ops = [{"ev": "set_auto", "b": auto},
                   {"ev": "simulate", "seed": 11, "skip": [], "skip_how": "var"},
                   {"ev": "update_all"},
                   {"ev": "simulate", "seed": 12, "skip": [7], "skip_how": "dist"},
                   {"ev": "assign", "n": 1, "x": 4},
                   {"ev": "simulate", "seed": 13, "skip": [1], "skip_how": "at"},
                   {"ev": "update_all"}]
            hdr["ops"] = ops
            out.append({"hdr": hdr, "ev": [run.op(o) for o in ops]})
    return out


def tfp_shape_trace():
    """Real TFP distributions: simulate, give a variable a value of another shape, simulate again - the draw has the
    shape of the *current* value and equals what a fresh model of that shape draws for the same seed."""
    import tensorflow_probability.substrates.jax.distributions as tfd

    def make(n):
        mu = lsl.Var(jnp.float32(0.0), lsl.Dist(tfd.Normal, loc=0.0, scale=1.0), name="mu")
        x = lsl.Var(jnp.zeros(n, jnp.float32), lsl.Dist(tfd.Normal, loc=mu, scale=1.0), name="x")
        w = lsl.Var(jnp.zeros((2, n), jnp.float32), lsl.Dist(tfd.Normal, loc=x, scale=0.5), name="w")
        return lsl.GraphBuilder().add(w).build_model()

    ev = []
    for auto in (True, False):
        try:
            ev.append(_tfp_block(make, auto))
        except Exception as ex:  # noqa: BLE001  (real distributions: an exception here is the library's)
            ev.append({"ev": "tfp_simulate", "auto": auto, "first_shapes": [], "second_shapes": [], "same_as_fresh": False,
                       "crash": f"{type(ex).__name__}: {ex}"[:200]})
    ev += support_events()
    ev += broadcast_events()
    hdr = {"n": 1, "kind": ["v"], "inp": [[]], "init": [0], "sims": [], "factors": [], "plan": [{"kind": "v", "inp": []}],
           "value_shapes": [[]], "ops": []}
    return {"hdr": hdr, "ev": ev}


def broadcast_events():
    """Parameters that broadcast against the value (batch dimensions of size one: one location for five observations):
    the draw keeps the shape of the current value and its entries are separate realisations."""
    import tensorflow_probability.substrates.jax.distributions as tfd
    ev = []
    for auto in (True, False):
        rec = {"ev": "broadcast_simulate", "auto": auto, "crash": "", "shapes": [], "distinct": []}
        try:
            x = lsl.Var(jnp.zeros(5, jnp.float32), lsl.Dist(tfd.Normal, loc=jnp.zeros(1, jnp.float32), scale=1.0), name="x")
            col = lsl.Var(jnp.zeros((5, 1), jnp.float32), name="col")
            w = lsl.Var(jnp.zeros((5, 3), jnp.float32), lsl.Dist(tfd.Normal, loc=col, scale=1.0), name="w")
            z = lsl.Var(jnp.zeros((2, 5, 3), jnp.float32), lsl.Dist(tfd.Normal, loc=col, scale=jnp.ones((1, 3), jnp.float32)), name="z")
            m = lsl.GraphBuilder().add(x, w, z).build_model()
            m.auto_update = auto
            m.simulate(jax.random.PRNGKey(4))
            m.update()
            for v in ("x", "w", "z"):
                a = np.asarray(m.vars[v].value)
                rec["shapes"].append(list(a.shape))
                rec["distinct"].append(int(len(np.unique(a))))
        except Exception as ex:  # noqa: BLE001
            rec["crash"] = f"{type(ex).__name__}: {ex}"[:200]
        ev.append(rec)
    return ev


def support_events():
    """simulate() on a distributional-regression model with a P-spline prior (degenerate multivariate normal with a
    rank-deficient, non-diagonal penalty; inverse-gamma smoothing variance): every draw lies in the support of its
    distribution - the coefficient draw has no component in the null space of the penalty, the variance is positive."""
    import tensorflow_probability.substrates.jax.bijectors as tfb
    import tensorflow_probability.substrates.jax.distributions as tfd
    ev = []
    d = 6
    D = np.diff(np.eye(d), 2, axis=0)
    K = (D.T @ D).astype(np.float32)
    w, V = np.linalg.eigh(K.astype(np.float64))
    null = V[:, w < 1e-8]                       # (d, 2): constants and linear trends
    xs = np.linspace(-1, 1, 9)
    for auto in (True, False):
        rec = {"ev": "support_simulate", "auto": auto, "crash": "", "null_rel": "NaN", "tau2": "NaN", "response_finite": False,
               "null_dim": int(null.shape[1])}
        try:
            bld = lsl.DistRegBuilder()
            bld.add_response(jnp.zeros(9, jnp.float32), tfd.Normal)
            bld.add_predictor("loc", tfb.Identity)
            bld.add_predictor("scale", tfb.Exp)
            bld.add_np_smooth(jnp.asarray(np.vander(xs, d), jnp.float32), jnp.asarray(K), a=2.0, b=0.5, predictor="loc")
            bld.add_p_smooth(jnp.ones((9, 1), jnp.float32), m=0.0, s=0.3, predictor="scale")
            m = bld.build_model()
            # the smoothing variance is kept fixed at a value for which the eigenvalues of the precision matrix are well
            # separated from the distribution's absolute tolerance (G9, DESIGN 14.7: for small variances float32 noise in
            # the null eigenvalues exceeds that tolerance and the shipped sampler itself leaves the support)
            m.vars["loc_np0_tau2"].value = jnp.float32(25.0)
            m.auto_update = auto
            worst = 0.0
            for seed in (3, 4, 5):
                m.simulate(jax.random.PRNGKey(seed), skip=["loc_np0_tau2"])
                m.update()
                beta = np.asarray(m.vars["loc_np0_beta"].value, np.float64)
                worst = max(worst, float(np.linalg.norm(null.T @ beta) / max(np.linalg.norm(beta), 1e-30)))
                rec["tau2"] = fstr(float(m.vars["loc_np0_tau2"].value))
                rec["response_finite"] = bool(np.all(np.isfinite(np.asarray(m.vars["response"].value))))
            rec["null_rel"] = fstr(worst)
        except Exception as ex:  # noqa: BLE001
            rec["crash"] = f"{type(ex).__name__}: {ex}"[:200]
        ev.append(rec)
    return ev


def _tfp_block(make, auto):
    if True:
        m = make(3)
        m.auto_update = auto
        m.simulate(jax.random.PRNGKey(1))
        first = [list(np.shape(m.vars[v].value)) for v in ("mu", "x", "w")]
        m.auto_update = False
        m.vars["x"].value = jnp.zeros(4, jnp.float32)
        m.vars["w"].value = jnp.zeros((2, 4), jnp.float32)
        m.update()
        m.auto_update = auto
        m.simulate(jax.random.PRNGKey(2))
        m.update()
        fresh = make(4)
        fresh.auto_update = auto
        fresh.simulate(jax.random.PRNGKey(2))
        fresh.update()
        second = [list(np.shape(m.vars[v].value)) for v in ("mu", "x", "w")]
        return {"ev": "tfp_simulate", "auto": auto, "first_shapes": first, "second_shapes": second, "crash": "",
                "same_as_fresh": all(np.array_equal(np.asarray(m.vars[v].value), np.asarray(fresh.vars[v].value))
                                     for v in ("mu", "x", "w"))}
