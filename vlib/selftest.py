"""Binding self-tests (DESIGN.md 4.4): for each trace spec, a known-good trace recorded
from the real code must be accepted, and the same trace with ONE corrupted field / one
dropped event must be rejected at exactly that event with the expected conjunct.
`./check selftest` runs all of them; `./check setup` runs the cheap subset."""
from __future__ import annotations

import copy
import random
import sys

from . import core


def _set(obj, path, value):
    for k in path[:-1]:
        obj = obj[k]
    obj[path[-1]] = value


def _run(name, spec, good, corruptions, cfg_extra="", next_="TNext"):
    """corruptions: list of (description, mutate(trace) -> None, expected line, expected conjunct or None)"""
    traces = [good]
    for _, mut, _, _ in corruptions:
        t = copy.deepcopy(good)
        mut(t)
        traces.append(t)
    rej, _ = core.validate_traces(spec, traces, tag=f"selftest-{name}", cfg_extra=cfg_extra, next_=next_, timeout=300)
    got = {r.tid: (r.line, r.conjunct) for r in rej}
    problems = []
    if 0 in got:
        problems.append(f"{name}: the good trace was rejected at {got[0]}")
    for i, (desc, _, line, conj) in enumerate(corruptions, start=1):
        if i not in got:
            problems.append(f"{name}: corruption '{desc}' was ACCEPTED")
        elif got[i][0] != line or (conj is not None and got[i][1] != conj):
            problems.append(f"{name}: corruption '{desc}' rejected at {got[i]}, expected ({line}, {conj})")
    return problems


def st_liesel_graph():
    from harness import graph_driver as G

    rng = random.Random(11)
    while True:
        t = G.random_trace(rng, nmax=6, maxops=12)
        ia = next((i for i, e in enumerate(t["ev"]) if e["ev"] == "assign"), None)
        iu = next((i for i, e in enumerate(t["ev"]) if e["ev"] in ("update_all", "update_targets") and e["evald"]), None)
        if ia is not None and iu is not None:
            break
    cfg = 'CONSTANTS None = "-"\n Apply <- ApplyStr\n Draw <- DrawStr\n FromScratch = TRUE\n ErrVal = "ERR"\n'
    n_val = t["ev"][ia]["n"] - 1

    def c1(tr):
        tr["ev"][ia]["val"][n_val] = "corrupted"

    def c2(tr):
        tr["ev"][iu]["evald"] = tr["ev"][iu]["evald"][1:]

    def c3(tr):
        k = tr["ev"][ia]
        k["outd"] = [not x for x in k["outd"]]
    return _run("LieselGraph", "Trace_LieselGraph.tla", t, [
        ("assigned value not stored", c1, ia + 1, "values_equal_spec"),
        ("one evaluation not reported", c2, iu + 1, "evaluated_exactly_the_outdated_ones_once"),
        ("outdated flags inverted", c3, ia + 1, "outdated_flags_equal_spec"),
    ], cfg_extra=cfg)


def st_liesel_build():
    from harness import build_driver as B

    rng = random.Random(5)
    while True:
        t = B.random_trace(rng, nops=12)
        ib = next((i for i, e in enumerate(t["ev"]) if e["ev"] == "build" and e.get("ok")), None)
        im = next((i for i, e in enumerate(t["ev"]) if e["ev"] == "mutate" and e["raised"]), None)
        if ib is not None and im is not None:
            break
    cfg = ('CONSTANTS NU = 4\n UIn <- UIn1\n Seeded = {4}\n InitName <- Names1\n DetachSeed = TRUE\n UserSeeded = {}\n'
           ' MaxModels = 4\n Atoms = {"1.0"}\n')

    def c1(tr):
        tr["ev"][ib]["proj"]["names"] = tr["ev"][ib]["proj"]["names"][1:]

    def c2(tr):
        tr["ev"][im]["raised"] = False
    return _run("LieselBuild", "Trace_LieselBuild.tla", t, [
        ("a model node is missing", c1, ib + 1, "model_contains_every_recursive_input_once_under_unique_names"),
        ("mutation of a frozen node accepted", c2, im + 1, "mutation_rejected_iff_object_belongs_to_a_model"),
    ], cfg_extra=cfg)


def st_mh():
    from harness import mh_driver as D

    t = D.traces_for_keys([12345], D.combos()[::4], "vmap_jit")[0]
    i = next(i for i, e in enumerate(t["ev"]) if e["acc"] not in ("0.0", "1.0"))

    def c1(tr):
        tr["ev"][i]["acc"] = core.fstr(float(tr["ev"][i]["acc"]) * 0.5)

    def c2(tr):
        e = tr["ev"][i]
        e["moved"] = not e["moved"]
    return _run("MHStep", "Trace_MHStep.tla", t, [
        ("acceptance probability halved", c1, i + 1, "acc_prob_is_min_1_exp"),
        ("moved flag flipped", c2, i + 1, "moved_flag_truthful"),
    ])


def st_da():
    from harness import da_driver as D

    t = D.direct_trace(random.Random(2))
    i = next(i for i, e in enumerate(t["ev"]) if e["ev"] == "transition")

    def c1(tr):
        tr["ev"][i]["post"][1] = core.fstr(float(tr["ev"][i]["post"][1]) + 0.01)

    def c2(tr):
        del tr["ev"][i]
    return _run("DualAveraging", "Trace_DA.tla", t, [
        ("error sum corrupted", c1, i + 1, "adaptive_transition_is_da_step"),
        ("one transition dropped", c2, i + 1, "pre_state_is_previous_post_state"),
    ])


def st_engine():
    from checks import engine_common as EC
    from harness import engine_driver as E

    t = E.run(**EC.handwritten(True)[2])[0]
    it = next(i for i, e in enumerate(t["ev"]) if e["ev"] == "transition")
    iw = next(i for i, e in enumerate(t["ev"]) if e["ev"] == "end_warmup")

    def c1(tr):
        tr["ev"][it]["tie"] += 1

    def c2(tr):
        del tr["ev"][iw]

    def c3(tr):
        r = tr["ev"][-1]
        e = next(k for k, x in enumerate(r["epochs"]) if x["tags"].get("p1"))
        key = "p1"
        r["epochs"][e]["tags"][key][0][1] += 1
    return _run("GooseEngine", "Trace_Engine.tla", t, [
        ("time_in_epoch shifted", c1, it + 1, "epoch_arguments"),
        ("end_warmup call dropped", c2, iw + 1, None),
        ("one stored sample shifted", c3, len(t["ev"]), "stored_chain_is_thinned_per_iteration_states"),
    ], cfg_extra="CONSTANTS FlagSet = TRUE\n")


def st_results():
    from harness import results_driver as R

    t = R.one_run(**R.jobs(random.Random(1))[0])

    def c1(tr):
        tr["ev"][0]["summary"][0]["total"][0] += 1

    def c2(tr):
        tr["ev"][0]["sample_info"]["sample_size_per_chain"] += 1
    return _run("Results", "Trace_Results.tla", t, [
        ("one error count off by one", c1, 1, "summary_counts_per_kernel_code_chain_phase_with_message"),
        ("sample size off by one", c2, 1, "sample_size_is_number_of_stored_posterior_samples"),
    ])


def st_var_wiring():
    from harness import growth_driver as D

    rng = random.Random(6)
    while True:
        t = D.wiring_trace(rng, 14, nv=3, kinds=["val", "val", "dist", "dist"])
        ir = next((i for i, e in enumerate(t["ev"]) if e["rej"] == "one_var"), None)
        io = next((i for i, e in enumerate(t["ev"]) if e["op"] == "set_dist_node" and e["d"] != 0 and e["rej"] == "none"), None)
        if ir is not None and io is not None:
            break
    cfg = 'CONSTANTS NV = 3 NN = 4 Kind <- Kind4 Names = {""} Atomic = FALSE\n'

    def c1(tr):
        tr["ev"][ir]["rej"] = "none"

    def c2(tr):
        tr["ev"][io]["obs"]["at"][tr["ev"][io]["d"] - 1] = 0
    return _run("VarWiring", "Trace_VarWiring.tla", t, [
        ("rejected setter reported as accepted", c1, ir + 1, "rejected_iff_spec_rejects"),
        ("dist node not evaluated at its var", c2, io + 1, "dist_at_points_to_var_value"),
    ], cfg_extra=cfg)


def st_chain():
    from harness import growth_driver as D

    rng = random.Random(7)
    while True:
        t = D.chain_trace(rng, True, 25)
        ig = next((i for i, e in enumerate(t["ev"]) if e["ev"] == "get" and len(e["items"]) > 1), None)
        ic = next((i for i, e in enumerate(t["ev"]) if e["ev"] == "combine" and len(e["items"]) > 1), None)
        if ig is not None and ic is not None:
            break
    cfg = "CONSTANTS ApplyThinning = TRUE MaxEpochs = 99 MaxItems = 100000 Thins = {} Sizes = {}\n"

    def c1(tr):
        tr["ev"][ig]["items"][-1] += 1

    def c2(tr):
        tr["ev"][ic]["items"].reverse()
    return _run("Chain", "Trace_Chain.tla", t, [
        ("an item that thinning should have dropped", c1, ig + 1, "thinning_keeps_every_th_item_whatever_the_chunking"),
        ("combined epochs in the wrong order", c2, ic + 1, "combine_concatenates_in_the_given_order"),
    ], cfg_extra=cfg)


def st_groups():
    from harness import growth_driver as D

    rng = random.Random(8)
    while True:
        t = D.groups_trace(rng)
        ia = next((i for i, e in enumerate(t["ev"]) if e["rej"] == "none"), None)
        ir = next((i for i, e in enumerate(t["ev"]) if e["rej"] == "already_member"), None)
        if ia is not None and ir is not None:
            break
    cfg = 'CONSTANTS NM = 4 GNames = {"a", "b"} Atomic = FALSE MaxGroups = 99\n'

    def c1(tr):
        tr["ev"][ir]["rej"] = "none"

    def c2(tr):
        m = tr["ev"][ia]["members"][0]
        tr["ev"][ia]["reg"][m - 1][tr["ev"][ia]["name"]] = 0
    return _run("Groups", "Trace_Groups.tla", t, [
        ("rejected constructor reported as accepted", c1, ir + 1, "group_rejected_iff_a_member_already_has_a_group_of_that_name"),
        ("a member is not registered", c2, ia + 1, "member_registrations"),
    ], cfg_extra=cfg)


def st_distreg():
    from harness import growth_driver as D

    rng = random.Random(9)
    while True:
        t = D.distreg_trace(rng, 12)
        ia = next((i for i, e in enumerate(t["ev"]) if e["op"] in ("p_smooth", "np_smooth") and e["rej"] == "none"), None)
        if ia is not None:
            break
    cfg = 'CONSTANTS Preds = {"loc", "scale"} Explicit = {"", "s"}\n'

    def c1(tr):
        p = tr["ev"][ia]["p"]
        tr["ev"][ia]["pred_in"][p][-1] = "wrong_name"
    return _run("DistReg", "Trace_DistReg.tla", t, [
        ("automatic smooth name changed", c1, ia + 1, "predictor_inputs_are_the_smooths_in_order_of_addition"),
    ], cfg_extra=cfg)


def st_logging():
    from harness import growth_driver as D

    rng = random.Random(12)
    while True:
        t = D.logging_trace(rng, 16)
        ie = next((i for i, e in enumerate(t["ev"]) if e["ev"] == "emit" and len(e["delivered"]) >= 1), None)
        ir = next((i for i, e in enumerate(t["ev"]) if e["ev"] == "reset" and e["before"] >= 2), None)
        if ie is not None and ir is not None:
            break

    def c1(tr):
        tr["ev"][ie]["delivered"] = tr["ev"][ie]["delivered"][:-1]

    def c2(tr):
        tr["ev"][ir]["obs"]["handlers"]["liesel"] = []      # what the documentation says
    return _run("Logging", "Trace_Logging.tla", t, [
        ("a handler that did receive the record is left out", c1, ie + 1, "record_delivered_to_exactly_the_handlers_on_the_propagation_chain"),
        ("a reset that really removes every handler", c2, ir + 1, "reset_as_coded_keeps_every_second_handler"),
    ], cfg_extra="CONSTANTS ResetAsCoded = TRUE MaxHandlers = 99\n")


def st_builder_life():
    from harness import growth_driver as D

    rng = random.Random(13)
    t = D.builder_life_trace(rng, ops=[("set_model", 1), ("add_kernel", 0, False), ("set_initial_values",), ("set_epochs",), ("build",),
                                       ("set_model", 2), ("build",)])

    def c1(tr):
        tr["ev"][-1]["engine_kmodels"] = [2]        # what the documentation promises

    def c2(tr):
        tr["ev"][4]["kernels"][0]["ident"] = "kernel_01"
    return _run("EngineBuilderLife", "Trace_EngineBuilderLife.tla", t, [
        ("second engine's kernel bound to the new interface", c1, 7, "engine_kernels_are_the_builders_kernels"),
        ("another automatic identifier", c2, 5, "kernels_bound_and_named_as_coded"),
    ], cfg_extra="CONSTANTS NM = 2 MaxK = 99 MaxE = 99 Rebind = FALSE\n")


def st_mh_iface():
    from harness import mhiface_driver as D

    t = D.trace(5, "dataclass")
    ia = next(i for i, e in enumerate(t["ev"]) if e["ev"] == "mh" and e["moved"])
    ir = next(i for i, e in enumerate(t["ev"]) if e["ev"] == "mh" and not e["moved"])

    def c1(tr):
        tr["ev"][ia]["out"]["t"] = "7.25"          # a member that is not what the input held or the proposal said

    def c2(tr):
        tr["ev"][ir]["out"]["a"] = tr["ev"][ir]["pos"].get("a", "9.0")
    return _run("MHIface", "Trace_MHIface.tla", t, [
        ("accepted state with a re-initialised member", c1, ia + 1, "accept_returns_input_state_with_only_the_proposed_fields_replaced"),
        ("rejected step returns something else than its input", c2, ir + 1, "reject_returns_input_exactly"),
    ])


CHEAP = [st_liesel_graph, st_liesel_build, st_var_wiring, st_chain, st_groups, st_distreg, st_logging, st_builder_life]
ALL = CHEAP + [st_mh, st_da, st_engine, st_results, st_mh_iface]


def run(which):
    problems = []
    for f in which:
        problems += f()
    return problems


def main():
    sys.path.insert(0, str(core.REPO))
    import harness  # noqa: F401

    problems = run(ALL)
    for p in problems:
        print("SELFTEST-FAILURE:", p, file=sys.stderr)
    print(f"selftest: {len(ALL)} trace specs, {len(problems)} problem(s)")
    return 2 if problems else 0
