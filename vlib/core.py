"""Core machinery shared by all checks: TLC runner, batched trace validation,
evidence writer, known-findings matcher, replay files, exit protocol.

Exit protocol (see DESIGN.md section 9):
  0  property held on everything explored (open known findings are printed)
  1  at least one violation not listed as an open known finding
  2  machinery failure (TLC crash, timeout, sanity gate) - never a verdict
"""
from __future__ import annotations

import hashlib
import json
import os
import re
import shutil
import subprocess
import sys
import time
import traceback
from dataclasses import dataclass, field
from pathlib import Path

VERIF = Path(__file__).resolve().parent.parent
SPEC = VERIF / "spec"
BUILD = Path(os.environ.get("VERIF_BUILD_DIR", VERIF / "build"))
REPLAY = Path(os.environ.get("VERIF_REPLAY_DIR", VERIF / "replay"))
EVIDENCE = Path(os.environ.get("VERIF_EVIDENCE_DIR", VERIF / "evidence"))
REPO = Path(os.environ.get("VERIF_REPO", "/repo"))
TLA_JAR = "/opt/veriftools/tla/tla2tools.jar"
TLA_DEPS = "/opt/veriftools/tla/CommunityModules-deps.jar"
NCPU = os.cpu_count() or 4


class MachineryError(Exception):
    """The checking machinery itself failed (exit 2)."""


def digest(obj) -> str:
    return hashlib.sha256(
        json.dumps(obj, sort_keys=True, default=str).encode()
    ).hexdigest()[:16]


def fstr(x) -> str:
    """Python/numpy float -> VFloat spelling."""
    x = float(x)
    if x != x:
        return "NaN"
    if x == float("inf"):
        return "Infinity"
    if x == float("-inf"):
        return "-Infinity"
    return repr(x)


def ensure_vfloat():
    cls = SPEC / "VFloat.class"
    src = SPEC / "VFloat.java"
    if not cls.exists() or cls.stat().st_mtime < src.stat().st_mtime:
        subprocess.run(
            ["javac", "-cp", TLA_JAR, str(src)], check=True, cwd=str(SPEC)
        )


@dataclass
class TLCResult:
    ok: bool  # finished without error
    generated: int
    distinct: int
    depth: int
    error: str | None  # 'invariant:<name>' | 'property:<name>' | 'assert' | 'deadlock' | other
    output: str
    coverage: dict = field(default_factory=dict)  # action -> (distinct, taken)
    prints: list = field(default_factory=list)  # PrintT tuples (raw text)
    wall_s: float = 0.0
    cex: str = ""


_RE_STATES = re.compile(
    r"(\d+) states generated, (\d+) distinct states found, (\d+) states left on queue"
)
_RE_DEPTH = re.compile(r"The depth of the complete state graph search is (\d+)")
_RE_COV = re.compile(r"^<(\w+) line (\d+), col \d+ to line \d+, col \d+ of module (\w+)(?: \([\d ]+\))?>: (\d+):(\d+)", re.M)


def run_tlc(
    module: str | Path,
    cfg_text: str,
    *,
    tag: str,
    workers: int | None = None,
    timeout: int = 900,
    env: dict | None = None,
    simulate: str | None = None,
    depth: int | None = None,
    seed: int | None = None,
    coverage: bool = False,
    deadlock: bool = False,
    dfs: bool = False,
    extra: list[str] | None = None,
    heap: str = "8g",
) -> TLCResult:
    """Run TLC on `module` (path relative to spec/ or absolute) with the given cfg."""
    ensure_vfloat()
    module = Path(module)
    if not module.is_absolute():
        module = SPEC / module
    work = BUILD / f"tlc-{tag}-{os.getpid()}"
    if work.exists():
        shutil.rmtree(work)
    work.mkdir(parents=True)
    cfg = work / (module.stem + ".cfg")
    cfg.write_text(cfg_text)
    jopts = [
        "-XX:+UseParallelGC",
        f"-Xmx{heap}",
        "-Xss256m",
        f"-DTLA-Library={SPEC}",
    ]
    if dfs:
        jopts.append("-Dtlc2.tool.queue.IStateQueue=StateDeque")
    cmd = ["java", *jopts, "-cp", f"{TLA_JAR}:{TLA_DEPS}:{SPEC}", "tlc2.TLC"]
    cmd += ["-metadir", str(work / "meta"), "-noGenerateSpecTE", "-config", str(cfg)]
    cmd += ["-workers", str(workers or NCPU)]
    if not deadlock:
        cmd += ["-deadlock"]  # disables deadlock checking
    if coverage:
        cmd += ["-coverage", "1"]
    if simulate is not None:
        cmd += ["-simulate", simulate]
    if depth is not None:
        cmd += ["-depth", str(depth)]
    if seed is not None:
        cmd += ["-seed", str(seed)]
    if extra:
        cmd += extra
    cmd += [str(module)]
    e = dict(os.environ)
    e.pop("JAVA_TOOL_OPTIONS", None)
    if env:
        e.update({k: str(v) for k, v in env.items()})
    t0 = time.time()
    try:
        p = subprocess.run(
            cmd, cwd=str(module.parent), env=e, capture_output=True, text=True, timeout=timeout
        )
    except subprocess.TimeoutExpired as ex:
        if simulate is not None:
            out = (ex.stdout or b"").decode() if isinstance(ex.stdout, bytes) else (ex.stdout or "")
            return TLCResult(True, 0, 0, 0, None, out, wall_s=time.time() - t0)
        raise MachineryError(f"TLC timeout after {timeout}s: {tag}")
    out = p.stdout + p.stderr
    wall = time.time() - t0
    gen = dist = dep = 0
    m = None
    for m in _RE_STATES.finditer(out):
        pass
    if m:
        gen, dist = int(m.group(1)), int(m.group(2))
    m = _RE_DEPTH.search(out)
    if m:
        dep = int(m.group(1))
    err = None
    m = re.search(r"Error: Invariant (\S+) is violated", out)
    if m:
        err = "invariant:" + m.group(1)
    elif re.search(r"Error: Action property (\S+) is violated", out):
        err = "property:" + re.search(r"Error: Action property (\S+) is violated", out).group(1)
    elif "Temporal properties were violated" in out:
        err = "property:temporal"
    elif "The first argument of Assert evaluated to FALSE" in out:
        err = "assert"
    elif "Deadlock reached" in out:
        err = "deadlock"
    elif re.search(r"Error: The postcondition .* is violated|Error: Evaluating assumption|Assumption .* is false", out):
        err = "postcondition_or_assumption"
    elif "Error:" in out or p.returncode not in (0,):
        # exit codes: 0 ok, 10-13 violations, others errors
        if "Model checking completed. No error has been found" not in out and simulate is None:
            err = "tlc_error"
        elif p.returncode != 0 and simulate is None:
            err = "tlc_error"
    cov = {}
    if coverage:
        for m in _RE_COV.finditer(out):
            cov[m.group(1)] = cov.get(m.group(1), 0) + int(m.group(5))
    prints = [ln for ln in out.splitlines() if ln.startswith("<<")]
    cex = ""
    if err and "State 1:" in out:
        cex = out[out.index("State 1:") - 200 if out.index("State 1:") > 200 else 0 :]
        cex = cex[:20000]
    res = TLCResult(err is None, gen, dist, dep, err, out, cov, prints, wall, cex)
    shutil.rmtree(work, ignore_errors=True)
    return res


_RE_REJECT = re.compile(r'<<\s*"REJECT",\s*(\d+),\s*(\d+),\s*<<\s*(\d+),\s*"([^"]*)"\s*>>\s*>>')
_RE_SUMMARY = re.compile(r'<<\s*"SUMMARY",\s*(\d+),\s*(\d+)\s*>>')


@dataclass
class Reject:
    tid: int  # 0-based index into the submitted traces
    line: int  # 1-based event index where validation got stuck
    conjunct: str  # failing named conjunct ('no_action_matches' if none)
    trace: dict


def validate_traces(
    trace_module: str,
    traces: list[dict],
    *,
    tag: str,
    timeout: int = 1200,
    batch: int = 4000,
    env: dict | None = None,
    init: str = "TInit",
    next_: str = "TNext",
    dfs: bool = False,
    cfg_extra: str = "",
) -> tuple[list[Reject], dict]:
    """Validate recorded traces against a trace spec (EXTENDS TraceBatch).

    Returns (rejects, stats).  Raises MachineryError if TLC itself fails.
    """
    rejects: list[Reject] = []
    stats = {"traces": 0, "events": 0, "states": 0, "transitions": 0, "wall_s": 0.0}
    for b0 in range(0, len(traces), batch):
        chunk = traces[b0 : b0 + batch]
        work = BUILD / f"traces-{tag}-{os.getpid()}-{b0}.json"
        work.parent.mkdir(parents=True, exist_ok=True)
        work.write_text(json.dumps(_no_null(chunk)))
        cfg = (
            f"INIT {init}\nNEXT {next_}\nPOSTCONDITION Post\nCHECK_DEADLOCK FALSE\n" + cfg_extra
        )
        e = {"TRACE_FILE": str(work)}
        if env:
            e.update(env)
        res = run_tlc(
            trace_module, cfg, tag=f"tv-{tag}-{b0}", workers=1, timeout=timeout, env=e, dfs=dfs
        )
        m = _RE_SUMMARY.search(res.output)
        if not m or (res.error not in (None,)):
            raise MachineryError(
                f"trace validation run failed ({trace_module}, {res.error}):\n"
                + _errtail(res.output)
            )
        nt, nrej = int(m.group(1)), int(m.group(2))
        if nt != len(chunk):
            raise MachineryError("trace count mismatch")
        found = 0
        for m2 in _RE_REJECT.finditer(res.output):
            t, ln, el, name = int(m2.group(1)), int(m2.group(2)), int(m2.group(3)), m2.group(4)
            conj = name if el == ln else "no_action_matches"
            rejects.append(Reject(b0 + t - 1, ln, conj, chunk[t - 1]))
            found += 1
        if found != nrej:
            raise MachineryError("could not parse all REJECT lines:\n" + res.output[-3000:])
        stats["traces"] += len(chunk)
        stats["events"] += sum(len(t["ev"]) for t in chunk)
        stats["states"] += res.distinct
        stats["transitions"] += res.generated
        stats["wall_s"] += res.wall_s
        work.unlink(missing_ok=True)
    return rejects, stats


# --------------------------------------------------------------------------------------


def _no_null(x):
    """TLC's Json module cannot read null: spell it as the string "__none__"."""
    if x is None:
        return "__none__"
    if isinstance(x, dict):
        return {k: _no_null(v) for k, v in x.items()}
    if isinstance(x, (list, tuple)):
        return [_no_null(v) for v in x]
    return x


def _errtail(out: str) -> str:
    i = out.find("Semantic errors")
    if i < 0:
        i = out.find("Error:")
    return out[i:i + 3000] if i >= 0 else out[-2000:]


def load_known_findings() -> list[dict]:
    p = VERIF / "known_findings.json"
    if not p.exists():
        return []
    return json.loads(p.read_text())["findings"]


class Check:
    """Accumulates what one check run covered and found; writes evidence; exits."""

    def __init__(self, prop: str, tier: str, seed: int, level: str = "model_checking"):
        self.prop, self.tier, self.seed, self.level = prop, tier, seed, level
        self.t0 = time.time()
        self.states = 0
        self.transitions = 0
        self.traces = 0
        self.events = 0
        self.evaluations = 0
        self.nontrivial: set[str] = set()
        self.samples: list = []
        self.rule = ""
        self.mc_runs: list[dict] = []
        self.tv_runs: list[dict] = []
        self.notes: list[str] = []
        self.assumptions: list[str] = []
        self.trusted: list[str] = []
        self.violations: list[dict] = []
        self.exhaustive = True
        self.extra: dict = {}
        BUILD.mkdir(exist_ok=True)

    @property
    def quick(self):
        return self.tier == "quick"

    # ---- exhaustive model checking --------------------------------------------------
    def mc(
        self,
        module: str,
        cfg_text: str,
        *,
        tag: str,
        expect_actions: list[str] | None = None,
        what: str = "",
        key: str | None = None,
        **kw,
    ) -> TLCResult:
        """Run an exhaustive TLC config; an invariant violation of the *design* is
        reported as a violation of the property (key = key or 'design:<inv>')."""
        cov = kw.pop("coverage", True)
        res = run_tlc(module, cfg_text, tag=f"{self.prop}-{tag}", coverage=cov, **kw)
        self.states += res.distinct
        self.transitions += res.generated
        rec = {
            "module": module,
            "tag": tag,
            "what": what,
            "generated": res.generated,
            "distinct": res.distinct,
            "depth": res.depth,
            "wall_s": round(res.wall_s, 1),
            "result": res.error or "no error",
            "exhaustive_within_stated_bounds": res.error is None and not kw.get("simulate"),
            "action_coverage": res.coverage,
        }
        self.mc_runs.append(rec)
        if res.error in ("tlc_error",) or (res.error is None and res.distinct == 0 and not kw.get("simulate")):
            raise MachineryError(f"TLC failed on {module}/{tag}:\n{res.output[-5000:]}")
        if res.error is not None:
            self.violation(
                key or f"design:{res.error}",
                f"TLC found a counterexample in {module} ({tag}): {res.error}",
                {"kind": "tlc_counterexample", "module": module, "cfg": cfg_text, "trace": res.cex},
            )
        elif expect_actions:
            missing = [a for a in expect_actions if res.coverage.get(a, 0) == 0]
            if missing:
                raise MachineryError(
                    f"vacuity gate: actions never taken in {module}/{tag}: {missing}"
                )
        return res

    # ---- trace validation --------------------------------------------------------
    def tv(
        self,
        trace_module: str,
        traces: list[dict],
        *,
        tag: str,
        keyfn=None,
        describe=None,
        nontrivial=None,
        **kw,
    ) -> list[Reject]:
        if not traces:
            raise MachineryError(f"no traces to validate for {tag}")
        rejects, st = validate_traces(trace_module, traces, tag=f"{self.prop}-{tag}", **kw)
        self.states += st["states"]
        self.transitions += st["transitions"]
        self.traces += st["traces"]
        self.events += st["events"]
        self.evaluations += st["traces"]
        for t in traces:
            if nontrivial is None or nontrivial(t):
                self.nontrivial.add(digest(t))
        self.tv_runs.append(
            {
                "trace_spec": trace_module,
                "tag": tag,
                "traces": st["traces"],
                "events": st["events"],
                "rejected": len(rejects),
                "wall_s": round(st["wall_s"], 1),
            }
        )
        if len(self.samples) < 6 and traces:
            s = traces[(self.seed + len(self.samples)) % len(traces)]
            self.samples.append({"source": tag, "trace": _shorten(s)})
        for r in rejects:
            k = keyfn(r) if keyfn else f"{tag}:{r.conjunct}"
            d = describe(r) if describe else ""
            self.violation(
                k,
                f"trace rejected by {trace_module} at event {r.line} "
                f"({_evname(r)}), failing conjunct '{r.conjunct}'. {d}",
                {
                    "kind": "rejected_trace",
                    "trace_spec": trace_module,
                    "line": r.line,
                    "conjunct": r.conjunct,
                    "trace": r.trace,
                },
            )
        return rejects

    # ---- verdict bookkeeping ---------------------------------------------------------
    def violation(self, key: str, description: str, replay: dict):
        self.violations.append({"key": key, "description": description, "replay": replay})

    def note(self, s: str):
        self.notes.append(s)

    def finish(self, write_evidence: bool = True) -> int:
        known = [k for k in load_known_findings() if k["property"] == self.prop]
        open_known = [k for k in known if k.get("status") == "open"]
        unlisted, listed = [], {}
        for v in self.violations:
            hit = next((k for k in open_known if re.fullmatch(k["key"], v["key"])), None)
            if hit:
                listed.setdefault(hit["key"], (hit, []))[1].append(v)
            else:
                unlisted.append(v)
        for key, (hit, vs) in listed.items():
            print(f"KNOWN-FINDING: property={self.prop} {hit['description']} ({len(vs)} occurrence(s), key {key})")
        REPLAY.mkdir(exist_ok=True)
        seen = {}
        for v in unlisted:
            if v["key"] in seen:
                seen[v["key"]]["count"] += 1
                continue
            path = REPLAY / f"{self.prop}-{digest([v['key'], v['replay']])}.json"
            path.write_text(
                json.dumps(
                    {
                        "property": self.prop,
                        "key": v["key"],
                        "description": v["description"],
                        "tier": self.tier,
                        "seed": self.seed,
                        "replay": v["replay"],
                    },
                    indent=1,
                    default=str,
                )
            )
            seen[v["key"]] = {"path": path, "count": 1, "v": v}
        for key, s in seen.items():
            print(f"VIOLATION property={self.prop} replay={s['path']}")
            print(f"  key={key} occurrences={s['count']}: {s['v']['description'][:600]}")
        if write_evidence:
            self.write_evidence(len(unlisted), len(self.violations) - len(unlisted))
        return 1 if unlisted else 0

    def write_evidence(self, n_viol: int, n_known: int):
        EVIDENCE.mkdir(exist_ok=True)
        cov = {
            "states": self.states,
            "transitions": self.transitions,
            "traces_validated_against_impl": self.traces,
            "trace_events_validated": self.events,
            "evaluations": self.evaluations,
            "distinct_nontrivial": len(self.nontrivial),
            "rule": self.rule,
            "samples": self.samples[:6] or [{"note": "no samples recorded"}],
            "exhaustive": False,
            "exhaustive_model_checking_runs": self.mc_runs,
            "trace_validation_runs": self.tv_runs,
            "trusted_base": self.trusted,
            "notes": self.notes,
            "known_findings_reproduced": n_known,
        }
        cov.update(self.extra)
        ev = {
            "property_id": self.prop,
            "tier": self.tier,
            "seed": self.seed,
            "level": self.level,
            "coverage": cov,
            "assumptions": self.assumptions,
            "wall_s": round(time.time() - self.t0, 1),
            "violations": n_viol,
        }
        (EVIDENCE / f"{self.prop}.json").write_text(json.dumps(ev, indent=1, default=str))


def _evname(r: Reject) -> str:
    try:
        return str(r.trace["ev"][r.line - 1].get("ev"))
    except Exception:
        return "?"


def _shorten(t, maxev=8):
    try:
        d = dict(t)
        if isinstance(d.get("ev"), list) and len(d["ev"]) > maxev:
            d["ev"] = d["ev"][:maxev] + [f"... {len(t['ev']) - maxev} more events"]
        s = json.dumps(d, default=str)
        if len(s) > 4000:
            return {"truncated_json": s[:4000]}
        return d
    except Exception:
        return str(t)[:2000]


def replay_file(chk: "Check", path: str, replay_fn=None) -> int:
    """Re-run a recorded violation against the *current* tree.  If the check module
    provides replay(chk, data) it regenerates the execution from its recipe; otherwise
    the recorded trace is re-validated against the current trace spec."""
    data = json.loads(Path(path).read_text())
    rp = data["replay"]
    if replay_fn is not None:
        replay_fn(chk, data)
    elif rp.get("kind") == "rejected_trace":
        chk.tv(rp["trace_spec"], [rp["trace"]], tag="replay", cfg_extra=rp.get("cfg_extra", ""))
    elif rp.get("kind") == "tlc_counterexample":
        chk.mc(rp["module"], rp["cfg"], tag="replay")
    else:
        raise MachineryError("this replay file carries no re-runnable recipe")
    return chk.finish(write_evidence=False)


def main_wrapper(fn, prop: str, replay_fn=None):
    """Run fn(check) with the exit protocol."""
    import argparse

    ap = argparse.ArgumentParser()
    ap.add_argument("--tier", default=os.environ.get("VERIF_TIER", "quick"))
    ap.add_argument("--replay", default=None)
    args, _ = ap.parse_known_args(sys.argv[2:])
    seed = int(os.environ.get("VERIF_SEED", "0") or 0)
    tier = os.environ.get("VERIF_TIER") or args.tier
    if tier not in ("quick", "thorough"):
        tier = "quick"
    chk = Check(prop, tier, seed)
    try:
        if args.replay:
            rc = replay_file(chk, args.replay, replay_fn)
            print(f"[{prop}] replay exit={rc}")
            return rc
        fn(chk)
        rc = chk.finish()
    except MachineryError as ex:
        print(f"MACHINERY-FAILURE property={prop}: {ex}", file=sys.stderr)
        rc = 2
    except Exception:
        traceback.print_exc()
        print(f"MACHINERY-FAILURE property={prop}: unexpected exception", file=sys.stderr)
        rc = 2
    print(f"[{prop}] tier={tier} seed={seed} exit={rc} wall={time.time() - chk.t0:.1f}s "
          f"states={chk.states} traces={chk.traces} events={chk.events}")
    return rc


# --------------------------------------------------------------------------------------
# spec -> code: behaviours generated by TLC's simulator


def simulate_behaviours(module: str, cfg_text: str, *, tag: str, num: int, depth: int, seed: int,
                        timeout: int = 300):
    """Runs `tlc -simulate file=...` and returns a list of behaviours, each a list of
    (action_text, state_text) pairs (state 1 has action 'Init')."""
    work = BUILD / f"sim-{tag}-{os.getpid()}"
    if work.exists():
        shutil.rmtree(work)
    work.mkdir(parents=True)
    res = run_tlc(module, cfg_text, tag=f"sim-{tag}", workers=1, timeout=timeout,
                  simulate=f"file={work}/tr,num={num}", depth=depth, seed=seed)
    out = []
    for f in sorted(work.glob("tr_*")):
        txt = f.read_text()
        steps = []
        for m in re.finditer(r"^\\\* <(.*?) line \d+, col \d+ to line \d+, col \d+ of module \w+>\nSTATE_\d+ ==\s*\n(.*?)(?=^\\\* <|\Z|^=====)", txt, re.M | re.S):
            steps.append((m.group(1).strip(), m.group(2)))
        if steps:
            out.append(steps)
    shutil.rmtree(work, ignore_errors=True)
    if not out:
        raise MachineryError(f"TLC simulation produced no behaviours ({module}):\n" + _errtail(res.output))
    return out


def tla_record_to_dict(txt: str) -> dict:
    """'[type |-> 1, dur |-> 2, thin |-> 1]' -> {'type': 1, 'dur': 2, 'thin': 1} (ints only)"""
    return {m.group(1): int(m.group(2)) for m in re.finditer(r"(\w+) \|-> (-?\d+)", txt)}
