"""setup_cmd: build the framework offline and self-test the machinery.

1. compile the VFloat override, 2. SANY-parse every module in spec/,
3. VFloat self-test against Python's math, 4. binding self-tests: a known-good trace
of the real code is accepted, the same trace with one corrupted field is rejected at
exactly that event with the expected conjunct.
"""
import copy
import math
import random
import subprocess
import sys

from . import core


def sany_all():
    bad = []
    for f in sorted(core.SPEC.glob("*.tla")):
        p = subprocess.run(
            ["java", f"-DTLA-Library={core.SPEC}", "-cp", f"{core.TLA_JAR}:{core.TLA_DEPS}",
             "tla2sany.SANY", f.name], cwd=str(core.SPEC), capture_output=True, text=True)
        out = p.stdout + p.stderr
        if "*** Errors" in out or "Could not" in out or "Fatal" in out or "***Parse Error***" in out:
            bad.append((f.name, out[-1500:]))
    return bad


def vfloat_selftest():
    rng = random.Random(7)
    cases = []
    for _ in range(200):
        a, b = rng.uniform(-5, 5), rng.uniform(-5, 5)
        cases.append((a, b))
    cases += [(float("inf"), 1.0), (float("-inf"), float("-inf")), (float("nan"), 0.0), (0.0, 0.0)]
    recs = []
    for a, b in cases:
        def safe(f):
            try:
                return f()
            except (OverflowError, ValueError, ZeroDivisionError):
                return None
        exp = {
            "add": a + b, "sub": a - b, "mul": a * b,
            "exp": safe(lambda: math.exp(a)) if not math.isnan(a) else float("nan"),
            "min": (float("nan") if (a != a or b != b) else min(a, b)),
            "lt": a < b, "le": a <= b, "nan": a != a,
        }
        if exp["exp"] is None:
            exp["exp"] = float("inf")
        recs.append({"ev": "f", "a": core.fstr(a), "b": core.fstr(b),
                     "add": core.fstr(exp["add"]), "sub": core.fstr(exp["sub"]), "mul": core.fstr(exp["mul"]),
                     "exp": core.fstr(exp["exp"]), "min": core.fstr(exp["min"]),
                     "lt": exp["lt"], "le": exp["le"], "nan": exp["nan"]})
    good = {"hdr": {"k": 0}, "ev": recs}
    bad = copy.deepcopy(good)
    bad["ev"][10]["add"] = core.fstr(float(bad["ev"][10]["add"]) + 1e-3)
    rej, _ = core.validate_traces("Trace_VFloatSelf.tla", [good, bad], tag="selftest-vfloat")
    got = [(r.tid, r.line, r.conjunct) for r in rej]
    if got != [(1, 11, "add")]:
        raise core.MachineryError(f"VFloat self-test: expected [(1, 11, 'add')], got {got}")


def binding_selftest_epochs():
    sys.path.insert(0, str(core.REPO))
    from harness import epochs_driver as D

    r = D.Recorder()
    for c in [(0, 1, 1), (1, 4, 2), (4, 6, 3)]:
        r.append(D.cfg_rec(*c))
        r.next()
    r.append(D.cfg_rec(2, 2, 1))  # rejected: warm-up after posterior
    good = r.trace(kind="selftest")
    bad1 = copy.deepcopy(good)
    bad1["ev"][3]["start"] += 1  # corrupt a start time
    bad2 = copy.deepcopy(good)
    bad2["ev"][6]["accepted"] = True  # claim the invalid append was accepted
    bad2["ev"][6]["n"] = 4
    bad3 = copy.deepcopy(good)
    del bad3["ev"][1]  # drop one next() event
    rej, _ = core.validate_traces("Trace_Epochs.tla", [good, bad1, bad2, bad3], tag="selftest-epochs")
    got = sorted((r.tid, r.line, r.conjunct) for r in rej)
    exp = [(1, 4, "start_time_is_sum_of_durations"), (2, 7, "accepted_iff_valid"), (3, 3, "index_consecutive")]
    if got != exp:
        raise core.MachineryError(f"binding self-test (epochs): expected {exp}, got {got}")


def main():
    try:
        core.BUILD.mkdir(exist_ok=True)
        core.ensure_vfloat()
        bad = sany_all()
        if bad:
            for n, o in bad:
                print(f"SANY failed on {n}:\n{o}", file=sys.stderr)
            return 2
        vfloat_selftest()
        binding_selftest_epochs()
        from . import selftest
        import harness  # noqa: F401

        problems = selftest.run(selftest.CHEAP)
        if problems:
            raise core.MachineryError("; ".join(problems))
    except core.MachineryError as ex:
        print(f"setup failed: {ex}", file=sys.stderr)
        return 2
    print("setup ok: VFloat compiled, all modules parse, self-tests passed")
    return 0
