#!/bin/bash
# usage: tools/ingest_mutant.sh <ID> <worktree> <k> <n>
# takes deliverable k of a mutant sub-agent from <worktree>/_deliver, stores it as seeded/<ID>-<n> (and the raw files under
# seeded/_incoming/<ID>/), confirms it in the worktree (demo passes clean / fails patched, full test suite passes patched)
set -u
id=$1; wt=$2; k=$3; n=$4
src=/verif/seeded/_incoming/$id; out=/verif/seeded/$id-$n; mkdir -p $src $out
for f in patch$k.diff demo$k.py notes$k.md; do t=${f/$k./$n.}; cp $wt/_deliver/$f $src/$t 2>/dev/null; done
cp $wt/_deliver/patch$k.diff $out/patch.diff; cp $wt/_deliver/demo$k.py $out/demo.py; cp $wt/_deliver/notes$k.md $out/notes.md 2>/dev/null
cd $wt || exit 2
git checkout -q -- . ; git clean -fdq liesel
/venv/bin/python _deliver/demo$k.py > $out/demo_clean.log 2>&1; rc_clean=$?
git apply $out/patch.diff || { echo "{\"applies\": false}" > $out/confirm.json; exit 1; }
/venv/bin/python _deliver/demo$k.py > $out/demo_patched.log 2>&1; rc_patched=$?
/venv/bin/python -m pytest -q -p no:cacheprovider --timeout=900 -x > $out/pytest.log 2>&1; rc_test=$?
summary=$(tail -1 $out/pytest.log | tr -d '"')
git checkout -q -- . ; git clean -fdq liesel
echo "{\"applies\": true, \"demo_rc_clean\": $rc_clean, \"demo_rc_patched\": $rc_patched, \"pytest_rc\": $rc_test, \"pytest_summary\": \"$summary\"}" > $out/confirm.json
echo "$id-$n $(cat $out/confirm.json)"
