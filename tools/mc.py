#!/venv/bin/python
"""tools/mc.py <module> <cfgfile or -> [workers]  - run TLC once, print a compact summary"""
import sys
sys.path.insert(0, '/verif')
from vlib.core import run_tlc
mod = sys.argv[1]
cfg = sys.stdin.read() if sys.argv[2] == '-' else open(sys.argv[2]).read()
w = int(sys.argv[3]) if len(sys.argv) > 3 else None
r = run_tlc(mod, cfg, tag="tool", workers=w, coverage=('-cov' in sys.argv), timeout=3600)
print("wall", round(r.wall_s, 1), "error", r.error, "generated", r.generated, "distinct", r.distinct, "depth", r.depth)
if r.coverage:
    print(r.coverage)
if r.error == "tlc_error":
    out = r.output
    i = out.find("Semantic errors")
    j = out.find("Error:")
    print(out[i:i + 1500] if i >= 0 else out[max(0, j - 200):j + 2500])
elif r.error:
    import re
    acts = re.findall(r"^State (\d+): <(\w+(?:\([^>]*?\))?) line", r.cex, re.M)
    print(" -> ".join(a for _, a in acts))
    last = r.cex.rfind("State ")
    print(r.cex[last:last + 3000])
