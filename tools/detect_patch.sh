#!/bin/bash
# usage: tools/detect_patch.sh <patch.diff> <ID> [tier] - runs check ID against a scratch worktree of /repo HEAD with the patch,
# from a snapshot of /verif
set -u
patch=$(readlink -f "$1"); id=$2; tier=${3:-quick}
WT=/tmp/mut/dp_$$; SNAP=/tmp/mut/vsnap_$$
git -C /repo worktree add --detach $WT HEAD -q || exit 2
( cd $WT && git apply "$patch" ) || { echo "patch does not apply"; git -C /repo worktree remove --force $WT; exit 2; }
mkdir -p $SNAP && rsync -a --exclude .git --exclude build --exclude evidence --exclude replay --exclude seeded /verif/ $SNAP/
cd $SNAP && VERIF_REPO=$WT VERIF_EVIDENCE_DIR=/tmp/mut/ev_$$ VERIF_REPLAY_DIR=/tmp/mut/rp_$$ VERIF_BUILD_DIR=/tmp/mut/bd_$$ timeout 2400 ./check $id --tier $tier 2>&1 | grep -E "VIOLATION|key=|MACHINERY|^\[$id\]" | cut -c1-330
cd /verif; git -C /repo worktree remove --force $WT; rm -rf /tmp/mut/ev_$$ /tmp/mut/rp_$$ /tmp/mut/bd_$$ $SNAP
