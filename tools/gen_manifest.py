#!/venv/bin/python
"""Regenerates MANIFEST.json from the table below (single source of truth)."""
import json
import os
import sys

HERE = os.path.dirname(os.path.dirname(os.path.abspath(__file__)))

HOOK_COMMITS = []  # filled in when hooks are committed to /repo

TRUST = "TLC/SANY, the VFloat override (self-tested in setup), JAX/XLA arithmetic, the drivers' projection functions (exercised by corruption self-tests)"

CHECKS = {
    "C05": dict(
        text="The decision rule is a TLA+ operator over IEEE doubles (VFloat); TLC enumerates every "
             "(current, proposed, correction, u) over a grid containing +-inf, NaN and the boundary draw u = 0 and "
             "checks every clause of the property; the real mh_step is bound by trace validation: one trace per "
             "PRNG key over the whole input grid (vmap+jit, jit, eager), the unobservable uniform draw is a hidden "
             "variable whose feasible interval must stay non-empty, keys whose draw is exactly 0.0 are searched for "
             "at check time and included.",
        note="Assumes the uniform draw is in [0,1) and a function of the key only. " + TRUST,
        technique="TLA+ spec (MHStep) with IEEE operator override + TLC enumeration + trace validation with a hidden variable",
        ref="DESIGN.md section 5, C05",
    ),
    "C11": dict(
        text="The dual-averaging recurrence (init / step / finalize) is a TLA+ operator over IEEE doubles; TLC checks "
             "monotonicity on a grid and, as a product construction over whole epochs, that the copy that saw the "
             "pointwise higher acceptance sequence never has the smaller step size. The code is bound by trace "
             "validation with one-step consistency: direct da_* calls on random and exhaustively enumerated "
             "acceptance sequences, and every protocol call real kernels (RW, MH tuning on/off, IWLS; HMC, NUTS in "
             "thorough) receive in real engine runs, recorded by a wrapping probe with the tuning state before and "
             "after; adaptive transitions must equal DAStep, all other transitions must leave it bit-identical.",
        note="float32 code vs double spec compared per step (rtol 3e-4, atol 3e-6); blackjax acceptance rates taken as logged. " + TRUST,
        technique="TLA+ spec (DualAveraging) with IEEE operator override + TLC + trace validation of direct calls and wrapped real kernels",
        ref="DESIGN.md section 5, C11",
    ),
    "C12": dict(
        text="Alignment is a TLA+ theorem about index arithmetic (flat coordinate order = sorted keys, row-major): TLC "
             "checks it for every listing of <=3 keys and sizes, and shows the listing-order tuner violates it. The "
             "code is bound by trace validation: tune() of real HMC/NUTS kernels for all key orders (incl. "
             "non-alphabetical), shapes, diag/dense, foreign keys in the history, and real engine runs with two "
             "mass-matrix kernels; TLC recomputes the regularised (co)variance of each flat coordinate's history with "
             "IEEE arithmetic and compares entry by entry; the flat order is observed from the real kernel.",
        note="float32 variance vs double spec (rtol 2e-3). " + TRUST,
        technique="TLA+ spec (MassMatrix) + TLC over all key listings + trace validation of real tune() calls and engine runs",
        ref="DESIGN.md section 5, C12",
    ),
    "C16": dict(
        text="Design theorem by exhaustive TLC (every reachable EpochManager state x every candidate config: "
             "code-shaped acceptance rule <=> validity predicate written from the property; every stan_epochs "
             "argument tuple in a box: valid, sums, pattern), bound to the code by trace validation of the real "
             "EpochManager / stan_epochs / EngineBuilder.build on enumerated and random histories with every "
             "invariant evaluated at every step.",
        note="Exhaustive within the stated small alphabets; wide ranges by random traces. " + TRUST,
        technique="TLA+ spec (Epochs/EpochRules) + TLC exhaustive + batched trace validation of real calls",
        ref="DESIGN.md section 5, C16",
    ),
}

NOT_APPLICABLE = {
    "C18": "stateless numeric identities of three pure function families (no state, transition or case structure "
           "for a model checker; TLA+ has no linear algebra) - deciding it would be numeric differential testing, "
           "a switch of technique (DESIGN.md section 6)",
}

ALL = [f"C{i:02d}" for i in range(1, 21)]


def main():
    checks = []
    for pid in ALL:
        if pid not in CHECKS:
            continue
        c = CHECKS[pid]
        checks.append({
            "property_id": pid,
            "quick_cmd": f"./check {pid} --tier quick",
            "thorough_cmd": f"./check {pid} --tier thorough",
            "evidence_file": f"/verif/evidence/{pid}.json",
            "replay_cmd_template": f"./check {pid} --replay {{path}}",
            "engine": "tla-mbv",
            "level_claimed": {"category": c.get("category", "model_checking"), "text": c["text"],
                              "design_ref": c["ref"]},
            "level_note": c["note"],
            "technique": c["technique"],
        })
    na = []
    for pid in ALL:
        if pid in CHECKS:
            continue
        na.append({"property_id": pid,
                   "reason": NOT_APPLICABLE.get(pid, "check not built yet (work in progress; planned in DESIGN.md section 5)")})
    m = {
        "version": 1,
        "setup_cmd": "./check setup",
        "hooks": {
            "guard": "LIESEL_VERIF",
            "enable": "environment variable LIESEL_VERIF=1 (set by ./check); liesel is pure Python and is imported from /repo's working tree, nothing to rebuild",
            "baseline_off_cmd": "cd /repo && env -u LIESEL_VERIF /venv/bin/python -m pytest -ra -q -p no:cacheprovider --timeout=900 --continue-on-collection-errors",
            "source_commits": HOOK_COMMITS,
            "add_only": True,
        },
        "engines": [{
            "name": "tla-mbv",
            "path": "/verif/check",
            "serves_properties": sorted(CHECKS),
            "kind_free_text": "explicit TLA+ specification (spec/*.tla) checked exhaustively with TLC, bound to the implementation by batched trace validation (code -> spec) and replay of TLC-generated behaviours (spec -> code); IEEE arithmetic in specs through the VFloat operator override",
        }],
        "checks": checks,
        "not_applicable": na,
        "notes": "See DESIGN.md. Exit 0 = held, 1 = VIOLATION line(s), 2 = machinery failure. known_findings.json lists findings (open / fixed).",
    }
    with open(os.path.join(HERE, "MANIFEST.json"), "w") as f:
        json.dump(m, f, indent=1)
    import jsonschema
    jsonschema.validate(m, json.load(open("/root/.vp/MANIFEST.schema.json")))
    print("MANIFEST.json written:", len(checks), "checks,", len(na), "not applicable")


if __name__ == "__main__":
    main()
