#!/venv/bin/python
"""Regenerates MANIFEST.json from the table below (single source of truth)."""
import json
import os
import sys

HERE = os.path.dirname(os.path.dirname(os.path.abspath(__file__)))

HOOK_COMMITS = ["38c6755"]  # filled in when hooks are committed to /repo

TRUST = "TLC/SANY, the VFloat override (self-tested in setup), JAX/XLA arithmetic, the drivers' projection functions (exercised by corruption self-tests)"

CHECKS = {
    "C01": dict(
        text="LieselGraph.tla models the cached DAG (value / caching / transient / proxy nodes, raw dirty flags, "
             "on-the-fly outdated-ness of transient nodes, topological sweep, targeted update over recursive inputs, "
             "state save/restore, ghost 'ancestor assigned since last computed'). The all-shapes config lets the initial "
             "predicate choose every DAG on 3 nodes and TLC explores every finite history of the public operations on each "
             "(Coherent, FlagIffDirty, FullUpdateClean, TargetsClean, EvalOnlyIfDirty). Random real liesel Models (all "
             "node kinds, Vars with proxies, Dist/TransientDist with `at`) in a symbolic value regime (node functions "
             "build term strings: exact comparison) are driven through random histories and every post-state "
             "(values, outdated flags, evaluated nodes) is validated - the histories also contain set_seed, rebuilds, values a "
             "node function refuses (aborted sweeps), save_model/load_model round trips, the low-level node API "
             "(flag_outdated, clear_state, single-node update under its precondition); TLC-simulated behaviours of the spec are replayed "
             "on real models. Exception paths are part of the spec (a node function that raises aborts the sweep where it "
             "stands; poison value in the symbolic regime; the model's real sweep order is logged) as is pop / assign "
             "outside any model / rebuild.",
        note="The graph given to the spec is the driver's construction plan, not the model's introspection. " + TRUST,
        technique="TLA+ spec (LieselGraph) + TLC over all DAG shapes and histories + trace validation of real models (symbolic terms) + replay of simulated behaviours",
        ref="DESIGN.md section 5, C01",
    ),
    "C02": dict(
        text="ModelLogProb.tla defines the three totals structurally (bags of leaves over all distribution nodes / those of "
             "observed variables / those of parameter variables); TLC checks the decomposition theorem on every program with "
             "<=3 distribution nodes over all flag combinations. Real liesel Models are bound in two regimes: symbolic "
             "(term-valued fake distributions make Model.log_prob/log_lik/log_prior multisets of leaves that name which "
             "distribution was evaluated at which value with which parameter values; compared as bags with the from-scratch "
             "values of the LieselGraph spec; user-supplied total nodes forwarded) and numeric (real TFP model families incl. "
             "weak intermediate var, both/no flags, user log-lik node, manual and build-time transformed parameter, degenerate "
             "MVN prior, free distribution node, hierarchical vector prior, DistRegBuilder model): leaves computed outside "
             "liesel from the driver's recipe, summed by the spec with IEEE arithmetic, per_obs toggled both ways.",
        note="TFP log_prob / bijectors are trusted leaves; float32 totals compared with rtol 2e-5 / atol 2e-4. " + TRUST,
        technique="TLA+ spec (ModelLogProb + LieselGraph) + TLC over all small programs + trace validation (symbolic multisets, numeric leaves)",
        ref="DESIGN.md section 5, C02",
    ),
    "C03": dict(
        text="GooseInterface.tla (on top of LieselGraph) defines update_state as coded (load the whole state into the private "
             "copy, clear flags, assign entry by entry, full update) and the reference 'direct assignment + full update on a "
             "scratch copy'; TLC checks Pure and GetPut for every DAG on 3 nodes, every up-to-date input state, every "
             "position, every residue of the private copy and both auto-update settings. Real LieselInterface objects over "
             "random symbolic models are driven through call histories (positions by node or variable name, states from "
             "earlier returns, the same state object passed twice, user's model mutated in between); every result is "
             "validated against the spec's reference, a fresh interface and direct assignment; TFP models eager/jit/vmap; "
             "dict / dataclass (init=False field) / named-tuple interfaces: put/get and non-mutation laws.",
        note="Input states are up to date (as the interface documents); eager vs jit vs vmap compared with rtol/atol 2e-5. " + TRUST,
        technique="TLA+ spec (GooseInterface) + TLC over all small graphs/states/residues + trace validation of real interface call histories",
        ref="DESIGN.md section 5, C03",
    ),
    "C04": dict(
        text="Decided by reduction. Design theorem by exhaustive TLC on finite chains with exact integer arithmetic: a kernel "
             "built from MHStep's strict acceptance rule with acceptance min(1, pi(x')q(x|x')/(pi(x)q(x'|x))) is in detailed "
             "balance, leaks nothing into zero-density states and is stationary; an exact-conditional Gibbs update leaves the "
             "target invariant per block (hence blockwise sequences do). The premises are bound to the code by the checks "
             "C05 (acceptance rule), C06 (corrections), C13 (exact conditionals), C09 (sequencing and coherent state), C11 "
             "(frozen tuning), and here P6: the glue of the HMC/NUTS kernels with blackjax is validated on eager transitions "
             "with the blackjax factory wrapped (density handed over = model density over the block incl. a transformed "
             "parameter, start state, write-back, full refresh, untouched other parameters and tuning state). A reduced "
             "conformance run of the premises P1-P4 and P7 (independent keys per kernel of a sequence) is part of this check "
             "too, so that a broken premise is reported under C04 as well.",
        note="NOT decided: that blackjax's HMC/NUTS integrators and trajectory samplers are pi-invariant, and PRNG quality - trusted third-party base; no statistical sampling test is run. " + TRUST,
        technique="TLA+ design theorem (Invariance, Gibbs invariance) by TLC + trace validation of the blackjax glue; premises by C05/C06/C09/C11/C13",
        ref="DESIGN.md section 5, C04 and section 6",
    ),
    "C05": dict(
        text="The decision rule is a TLA+ operator over IEEE doubles (VFloat); TLC enumerates every "
             "(current, proposed, correction, u) over a grid containing +-inf, NaN and the boundary draw u = 0 and "
             "checks every clause of the property; the real mh_step is bound by trace validation: one trace per "
             "PRNG key over the whole input grid (vmap+jit, jit, eager), the unobservable uniform draw is a hidden "
             "variable whose feasible interval must stay non-empty, keys whose draw is exactly 0.0 are searched for "
             "at check time and included; log-densities of magnitude up to 3e7 with exactly representable differences are "
             "part of the grid; the same rule is validated on the transition infos of RW / MH / IWLS kernels running in "
             "two-kernel sequences, and on mh_step through the Dict / Dataclass / Liesel interfaces (several steps on the "
             "same state object with different blocks, densities from a closed form, states compared field by field).",
        note="Assumes the uniform draw is in [0,1) and a function of the key only. " + TRUST,
        technique="TLA+ spec (MHStep) with IEEE operator override + TLC enumeration + trace validation with a hidden variable",
        ref="DESIGN.md section 5, C05",
    ),
    "C06": dict(
        text="Invariance.tla proves by exhaustive TLC on finite chains (integer target and proposal weights, discretised "
             "uniform draw, cross-multiplied exact arithmetic) that a kernel whose acceptance probability is "
             "min(1, pi(x')q(x|x')/(pi(x)q(x'|x))) under the strict rule is in detailed balance, leaks nothing into "
             "zero-density states and is stationary (the non-strict rule is refuted). Proposals.tla states the RW / IWLS / "
             "MH proposal densities and the reported acceptance over IEEE doubles (Gaussian log-pdf with explicit "
             "determinants, IWLS mean by Cramer's rule, d <= 3). Real kernels behind the wrapping probe run on families "
             "with analytic gradient and information (Gaussian d=1..3, Poisson-type, two-key product, user-supplied "
             "chol_info_fn incl. a non-Hessian one, IWLS next to a second kernel that moves what its conditional depends "
             "on, log-normal MH proposal with declared correction); every transition with a known proposal is validated.",
        note="Leaves (log pi, gradient, information at x and x') are float64 numpy analytic formulas; float32 kernel vs double spec rtol 3e-3. Rejected RW transitions only when the Gaussian step could be replayed. " + TRUST,
        technique="TLA+ specs (Invariance, Proposals) + TLC on finite chains + trace validation of wrapped real kernels against IEEE formulas",
        ref="DESIGN.md section 5, C06",
    ),
    "C07": dict(
        text="GooseEngine.tla models the engine with one action per critical section (start epoch, end_warmup, "
             "kernel start, chunk begin, per-kernel transition, iteration end, chunk append with thinning, kernel "
             "end, tune, return) for one chain; TLC explores every interleaving of append_epoch / sample_next_epoch / "
             "sample_all_epochs over every schedule of <=3 (thorough 4) epochs, K in {1,2}, chunk J in {1,2} and "
             "checks that the kernel call log equals the documented canonical log of the consumed schedule "
             "(LifecycleOK), end_warmup at most once, adaptive iff adaptation, tuning history = this epoch's stored "
             "chain. Interleavings generated by TLC's simulator plus hand-written ones are executed on the real "
             "Engine with probe kernels whose call log lives in the kernel state (survives jit/vmap/scan); every "
             "recorded call is validated against the spec (Trace_Engine).",
        note="Per-chain model; cross-kernel order of non-transition calls within a round is not claimed. " + TRUST,
        technique="TLA+ spec (GooseEngine) + TLC exhaustive interleavings + spec->code replay of simulated behaviours + trace validation of probe-kernel logs",
        ref="DESIGN.md section 5, C07",
    ),
    "C08": dict(
        text="Same GooseEngine spec: StoredOK (initial values at index 0, per epoch the states after iterations k, 2k, "
             "..., each after all kernels ran, one info per transition) holds for every interleaving, schedule and "
             "chunk length - the expected chain does not mention the chunk length. Real Engine runs with probe "
             "kernels that write (epoch, iteration, kernel) tags into keys of different shapes; everything "
             "SamplingResults stored (per-epoch chains, posterior accessor, infos, kernel states, tracked key set "
             "under included/excluded) is compared entry by entry with the spec state; same schedule under every "
             "admissible chunk length.",
        note="Probe kernels ignore their random key (as the property's chunk-independence clause requires). " + TRUST,
        technique="TLA+ spec (GooseEngine: ChunkAppend/StoredOK) + TLC + trace validation of stored results against spec state",
        ref="DESIGN.md section 5, C08",
    ),
    "C09": dict(
        text="Composition.tla models a model state of parameters and derived quantities, kernels owning disjoint blocks, "
             "update_state as assign + refresh and accept/reject; TLC explores every sequence of <=4 transitions with every "
             "proposal and both outcomes for two instances (DerivedCoherent, OwnBlockOnly, OrderRespected; a partial "
             "refresh is refuted), and GooseEngine's OrderRespected for every schedule. Real kernels (IWLS, RW, MH, "
             "Gibbs; NUTS/HMC in thorough) run in sequences over a Liesel model (derived Calc nodes incl. one feeding no "
             "distribution, transformed parameter, stored log-prob/lik/prior) and a dict model behind the wrapping probe, "
             "with kernel identifiers whose sort order differs from the configured order; each transition's parameters "
             "before/after and carried derived quantities are validated, derived quantities against a from-scratch "
             "recomputation on the user's own model and against a float64 closed form (two more Liesel models: a weak "
             "variable with a distribution, a default-transformed variable whose bijector depends on a sampled parameter, "
             "the built-in finite-discrete Gibbs kernel with start values assigned after kernel creation); HMC start state "
             "and Gibbs / MH-type kernels' use of the predecessor's state are validated with the glue / Gibbs / proposal traces.",
        note="Recomputation uses liesel's Model.update() directly (cache coherence of that is C01); float32 jit vs eager compared with rtol/atol 2e-5. " + TRUST,
        technique="TLA+ spec (Composition, GooseEngine) + TLC + trace validation of wrapped real kernels with independent recomputation",
        ref="DESIGN.md section 5, C09",
    ),
    "C10": dict(
        text="Key discipline: GooseEngine.tla models PRNG keys as paths in the split tree; TLC checks for every "
             "interleaving/schedule that no key handed to a kernel call equals or is an ancestor of another or of the "
             "carry (KeysFresh). Real engine runs with probe kernels log the concrete key of every call in every "
             "chain; the trace spec requires pairwise distinctness (opaque tokens). Reproducibility, int-seed = key, "
             "chain isolation and 'first sample = supplied initial value after jitter' are properties of a table of "
             "runs (Runs.tla): TLC checks them on an abstract sampler (and refutes a leaky one), and tables of real "
             "EngineBuilder runs (seed forms, jitter on/off with keys observed via debug callback, single and "
             "per-chain initial states, one chain's initial value perturbed) are validated run by run.",
        note="Digests are sha256 over all stored samples and acceptance probabilities per chain. " + TRUST,
        technique="TLA+ specs (GooseEngine key tree, Runs) + TLC + trace validation of probe-kernel keys and of run tables",
        ref="DESIGN.md section 5, C10",
    ),
    "C11": dict(
        text="The dual-averaging recurrence (init / step / finalize) is a TLA+ operator over IEEE doubles; TLC checks "
             "monotonicity on a grid and, as a product construction over whole epochs, that the copy that saw the "
             "pointwise higher acceptance sequence never has the smaller step size. The code is bound by trace "
             "validation with one-step consistency: direct da_* calls on random and exhaustively enumerated "
             "acceptance sequences, and every protocol call real kernels (RW, MH tuning on/off, IWLS; HMC, NUTS in "
             "thorough) receive in real engine runs, recorded by a wrapping probe with the tuning state before and "
             "after; adaptive transitions must equal DAStep, all other transitions must leave it bit-identical.",
        note="float32 code vs double spec compared per step (rtol 3e-4, atol 3e-6); blackjax acceptance rates taken as logged. " + TRUST,
        technique="TLA+ spec (DualAveraging) with IEEE operator override + TLC + trace validation of direct calls and wrapped real kernels",
        ref="DESIGN.md section 5, C11",
    ),
    "C12": dict(
        text="Alignment is a TLA+ theorem about index arithmetic (flat coordinate order = sorted keys, row-major): TLC "
             "checks it for every listing of <=3 keys and sizes, and shows the listing-order tuner violates it. The "
             "code is bound by trace validation: tune() of real HMC/NUTS kernels for all key orders (incl. "
             "non-alphabetical), shapes, diag/dense, foreign keys in the history, and real engine runs with two "
             "mass-matrix kernels; TLC recomputes the regularised (co)variance of each flat coordinate's history with "
             "IEEE arithmetic and compares entry by entry; the flat order is observed from the real kernel.",
        note="float32 variance vs double spec (rtol 2e-3). " + TRUST,
        technique="TLA+ spec (MassMatrix) + TLC over all key listings + trace validation of real tune() calls and engine runs",
        ref="DESIGN.md section 5, C12",
    ),
    "C13": dict(
        text="Gibbs.tla states the inverse-gamma full conditional (shape a + rank/2, scale b + beta'K beta/2, log-kernel) and "
             "the finite-discrete conditional over IEEE doubles; MC_GibbsInvariance shows on every finite product space that "
             "redrawing a block from the exact conditional leaves the target invariant (a wrong conditional weight is "
             "refuted). The real kernels are bound by trace validation: the spec's parameters must reproduce the model's "
             "joint density ratios over a tau2 grid (three points fix shape and scale), the draw must equal scale/Gamma(shape) "
             "replayed on the same key, the scale law must hold, also after hyper-parameters / penalty were changed after "
             "building the kernel; the discrete kernel's 64 draws must equal the categorical replay on the model's "
             "log-probability at each outcome (direct likelihood, likelihood behind a named deterministic variable, two "
             "children, prior only; explicit and inferred outcomes).",
        note="jax.random.gamma / categorical are trusted to sample the named laws; a replay mismatch alone never alarms: a distribution-free guard (KS / chi-square, p < 1e-9, fresh keys) must also reject. " + TRUST,
        technique="TLA+ specs (Gibbs, finite-product invariance) + TLC + trace validation with sampler replay and density-ratio oracle",
        ref="DESIGN.md section 5, C13",
    ),
    "C14": dict(
        text="Transform.tla is a symbolic state machine (values are terms with the rewrite fwd(b, inv(b, x)) = x): "
             "Transform(v, b) with the code's rejections (weak, no distribution, name taken), assignment with "
             "propagation along chains of transformations; TLC checks every sequence of transform attempts and "
             "assignments (OriginalIsImage, FlagsMoved, NewDensityIsChangeOfVariables, ValueUnchanged, ParamMoves, "
             "RejectedUnchanged). Real TFP distribution/bijector pairs go through all five entry points; the trace spec "
             "follows the same actions for structure and flags and checks the numeric identities (value unchanged, new "
             "value = b^-1(x), original = b(t), new log-density = log p(b(t)) + log|det db/dt|, original log-prob 0) "
             "against leaves computed from the original distribution and bijector - also after parameter variables "
             "the distribution or bijector depends on were changed.",
        note="TFP distributions/bijectors are trusted leaves (rtol/atol 3e-5). " + TRUST,
        technique="TLA+ spec (Transform) + TLC + trace validation of real transformations against TFP leaves",
        ref="DESIGN.md section 5, C14",
    ),
    "C15": dict(
        text="LieselBuild.tla models the life-cycle at object level: user objects with a fixed input relation, names "
             "(incl. unnamed -> n0, n1, ...), ownership by a model (freeze), the model's seed inputs, builder contents, "
             "models as projections (names, wiring, values), build(copy) with the code's order of checks (reserved name, "
             "duplicate names, already in a model, cycle), guarded mutators, pop, copies, assignment. TLC explores all "
             "operation sequences on a three-object universe with <= 2 models and a cyclic universe: ClosureOK, "
             "UniqueNonEmptyNames, RoundTrip, RebuildAccepted, FrozenOK, Frozen, Independent, CycleRejected; the variant "
             "that keeps the seed input attached after pop is refuted. Real liesel objects (named, unnamed, seeded, shared "
             "inputs) are driven through random sequences of add / build(copy) / every guarded mutator / pop / deepcopy / "
             "copy_nodes_and_vars + rebuild / save + load / assignment; outcomes, reasons of rejection, names, wiring, "
             "outputs-inverse, topological order, round trips and independence are validated.",
        note="One fixed real universe (plus a cyclic one); Vars/groups are covered by C14/C02 drivers, not here. " + TRUST,
        technique="TLA+ spec (LieselBuild) + TLC over all operation sequences + trace validation of real object life-cycles",
        ref="DESIGN.md section 5, C15",
    ),
    "C16": dict(
        text="Design theorem by exhaustive TLC (every reachable EpochManager state x every candidate config: "
             "code-shaped acceptance rule <=> validity predicate written from the property; every stan_epochs "
             "argument tuple in a box: valid, sums, pattern), bound to the code by trace validation of the real "
             "EpochManager / stan_epochs / EngineBuilder.build on enumerated and random histories with every "
             "invariant evaluated at every step.",
        note="Exhaustive within the stated small alphabets; wide ranges by random traces. " + TRUST,
        technique="TLA+ spec (Epochs/EpochRules) + TLC exhaustive + batched trace validation of real calls",
        ref="DESIGN.md section 5, C16",
    ),
    "C17": dict(
        text="Simulate is an action of LieselGraph.tla (iterate the distributed variables in sampling order, draw from the "
             "distribution at the from-scratch parameter values given the values drawn so far, assign through the normal "
             "assignment path). TLC explores two hierarchical graphs (child depends on parent directly and through a cached "
             "calc) with every skip set, both auto-update settings and interleaved other operations: AncestralOK, "
             "SkipUntouched, Coherent; the variant that reads parameters from the cache is refuted. Random hierarchies of "
             "real liesel Vars are driven with fake distributions whose draw is an exact integer code of the parameter "
             "values they saw and of their seed split: values, flags, shapes, ancestral order, distinct seed splits and "
             "skipped variables are validated after every operation; real TFP / liesel distributions are used for the shapes "
             "of the draws and for the support (P-spline coefficients have no component in the null space of the penalty).",
        note="Distribution objects are fakes with TFP's shape attributes (the property is about wiring, not about TFP's samplers). " + TRUST,
        technique="TLA+ spec (LieselGraph.Simulate) + TLC + trace validation of real models with integer-coded draws",
        ref="DESIGN.md section 5, C17",
    ),
    "C19": dict(
        text="Results.tla derives the error log / summary the way the code does (mask of failing transitions, counts "
             "over masked columns, warm-up = total - posterior) and, independently, the direct per-kernel/code/chain/"
             "phase counts from the property text; TLC checks they agree for every error table over {0,1,2} for small "
             "(K,C,T) and every phase split. Real engine runs with scripted-error probe kernels are validated: "
             "get_error_log (both modes), Summary.error_summary with the kernel's messages, error_df (per chain and "
             "merged), sample_info vs stored samples, pickle and ArviZ round trips (digests); runs of built-in kernels "
             "that report errors of their own: every stored code is documented in the kernel's book, the summary equals "
             "the direct counts.",
        note="The 'relative' column of error_df is not checked (not part of the property). " + TRUST,
        technique="TLA+ spec (Results) + TLC over all small error tables + trace validation of real scripted-error runs",
        ref="DESIGN.md section 5, C19",
    ),
    "C20": dict(
        text="Optim.tla states the documented stopping rule and the code-shaped one (dynamic_slice clamping, i > p) over "
             "IEEE floats, the best-in-window index and the while-loop's 'first iteration at which the rule says stop'; TLC "
             "enumerates every loss history of length <=5 over a small alphabet x patience x tolerances x iteration "
             "index. The real Stopper (jit+vmap and eager) is evaluated on the same enumerated space and every record is "
             "validated; complete optim_flat runs (validation model or not, restore, prune, batch sizes dividing and not "
             "dividing n) are validated: stopping iteration against the recorded validation history, restored position, "
             "history lengths / NaN padding, model state vs position, and - through hook H1 - per-iteration batches "
             "(partition of floor(n/bs)*bs observations) and pairwise distinct sub-keys.",
        note="Iterations p-1 and p are a don't-care for the 'full window' clause; requires patience <= max_iter. One open known finding (identical batch key in every iteration), see known_findings.json. " + TRUST,
        technique="TLA+ spec (Optim) + TLC enumeration + trace validation of the real Stopper and of hooked optim_flat runs",
        ref="DESIGN.md section 5, C20",
    ),
}

NOT_APPLICABLE = {
    "C18": "stateless numeric identities of three pure function families (no state, transition or case structure "
           "for a model checker; TLA+ has no linear algebra) - deciding it would be numeric differential testing, "
           "a switch of technique (DESIGN.md section 6)",
}

ALL = [f"C{i:02d}" for i in range(1, 21)]


def main():
    checks = []
    for pid in ALL:
        if pid not in CHECKS:
            continue
        c = CHECKS[pid]
        checks.append({
            "property_id": pid,
            "quick_cmd": f"./check {pid} --tier quick",
            "thorough_cmd": f"./check {pid} --tier thorough",
            "evidence_file": f"/verif/evidence/{pid}.json",
            "replay_cmd_template": f"./check {pid} --replay {{path}}",
            "engine": "tla-mbv",
            "level_claimed": {"category": c.get("category", "model_checking"), "text": c["text"],
                              "design_ref": c["ref"]},
            "level_note": c["note"],
            "technique": c["technique"],
        })
    na = []
    for pid in ALL:
        if pid in CHECKS:
            continue
        na.append({"property_id": pid,
                   "reason": NOT_APPLICABLE.get(pid, "check not built yet (work in progress; planned in DESIGN.md section 5)")})
    m = {
        "version": 1,
        "setup_cmd": "./check setup",
        "hooks": {
            "guard": "LIESEL_VERIF",
            "enable": "environment variable LIESEL_VERIF=1 (set by ./check); liesel is pure Python and is imported from /repo's working tree, nothing to rebuild",
            "baseline_off_cmd": "cd /repo && env -u LIESEL_VERIF /venv/bin/python -m pytest -ra -q -p no:cacheprovider --timeout=900 --continue-on-collection-errors",
            "source_commits": HOOK_COMMITS,
            "add_only": True,
        },
        "engines": [{
            "name": "tla-mbv",
            "path": "/verif/check",
            "serves_properties": sorted(CHECKS),
            "kind_free_text": "explicit TLA+ specification (spec/*.tla) checked exhaustively with TLC, bound to the implementation by batched trace validation (code -> spec) and replay of TLC-generated behaviours (spec -> code); IEEE arithmetic in specs through the VFloat operator override",
        }],
        "checks": checks,
        "not_applicable": na,
        "notes": "See DESIGN.md. Exit 0 = held, 1 = VIOLATION line(s), 2 = machinery failure. known_findings.json lists findings (open / fixed).",
    }
    with open(os.path.join(HERE, "MANIFEST.json"), "w") as f:
        json.dump(m, f, indent=1)
    import jsonschema
    jsonschema.validate(m, json.load(open("/root/.vp/MANIFEST.schema.json")))
    print("MANIFEST.json written:", len(checks), "checks,", len(na), "not applicable")


if __name__ == "__main__":
    main()
