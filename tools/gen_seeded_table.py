#!/venv/bin/python
"""Writes seeded/<id>/meta.json for every confirmed seeded change and regenerates the table in DESIGN.md."""
import json
import os
import re

HERE = os.path.dirname(os.path.dirname(os.path.abspath(__file__)))
SEEDED = os.path.join(HERE, "seeded")
props = {json.loads(l)["id"]: json.loads(l) for l in open(os.path.join(HERE, "properties.jsonl"))}
NOT_A_VIOLATION = {  # seeded changes judged not to violate the property as stated (see DESIGN 14.5)
    "C20-12": "neutralised by repair 4a82cab: the change (a shared default Stopper) only violated the property together with the "
              "unprotected patience swap of optim_flat, which that repair removed; on its base commit 0a8541a the demo fails, on "
              "the repaired tree the demo passes with the change applied",
    "C20-6": "not flagged by design: the guard moves from `i > patience` to `i >= patience`, i.e. towards the documented "
             "rule; the check leaves the two boundary iterations open",
}
EXTRA = {  # seeded changes that are (also) caught by a different property's check
    "C02-12": ("C01", "graph:values_equal_spec:assign / outdated_flags_equal_spec:assign (the identical change as C01-13 - an identity shortcut in the value setter; C01's traces re-assign a container that was modified in place)"),
    "C02-10": ("C01", "graph:values_equal_spec:assign (the change is in the value setter's exception path, which C01's histories with a refused value exercise; C02's programs have variable-attached distributions, for which aborted sweeps are not modelled)"),
    "C08-11": ("C03", "update_state::returned_state_is_fully_up_to_date, and C09 real:liesel:derived_quantities_equal_recomputation_from_stored_parameters (the change is in LieselInterface.update_state; C08's engine scenarios use lookup interfaces)"),
    "C01-10": ("C17", "simulate:values_equal_spec / outdated_flags_equal_spec (the change is in Model.simulate, which is not one of C01's operations; C17's plans have direct value-node consumers)"),
    "C04-1": ("C06", "iwls:iwls_reported_acceptance_is_mh_ratio_with_gaussian_proposal_densities (the premise P2 of C04; since then C04 runs a reduced P2 conformance itself)"),
    "C09-4": ("C13", "tau2:draw_is_from_the_inverse_gamma_full_conditional (same mechanism as C13-1; since then C09 runs the Gibbs start-state traces itself)"),
    "C15-2": ("C01", "graph:values_equal_spec:update_targets (targeted update in non-topological order is an update-semantics defect; C15's check reads the sort order only)"),
}
# newest /repo commit each patch applies to (later `fix:` commits touch the same lines as some earlier seeded changes)
BASES = json.load(open(os.path.join(SEEDED, "bases.json"))) if os.path.exists(os.path.join(SEEDED, "bases.json")) else {}
rows = []
for d in sorted(os.listdir(SEEDED)):
    p = os.path.join(SEEDED, d)
    if d.startswith("_") or not os.path.isdir(p):
        continue
    pid = d.split("-")[0]
    conf = json.load(open(os.path.join(p, "confirm.json"))) if os.path.exists(os.path.join(p, "confirm.json")) else {}
    det = json.load(open(os.path.join(p, "detect.json"))) if os.path.exists(os.path.join(p, "detect.json")) else {}
    notes = open(os.path.join(p, "notes.md")).read() if os.path.exists(os.path.join(p, "notes.md")) else ""
    first = next((l.strip("# ").strip() for l in notes.splitlines() if l.strip()), "")
    needs = ""
    m = re.search(r"(?is)(needed to manifest|what it takes to manifest|what it needs|needs to manifest|to manifest)[^\n]*\n(.*?)(\n#|\n\*\*|\Z)", notes)
    if m:
        needs = " ".join(m.group(2).split())[:400]
    files = sorted(set(re.findall(r"^\+\+\+ b/(\S+)", open(os.path.join(p, "patch.diff")).read(), re.M)))
    caught = det.get("exit") == 1
    keys = det.get("violation_keys", [])
    meta = {
        "id": d, "breaks_property": pid, "property_title": props[pid]["title"],
        "files_touched": files, "summary": first[:300], "needs_to_manifest": needs,
        "confirmed": {"demo_exit_clean_tree": conf.get("demo_rc_clean"), "demo_exit_patched_tree": conf.get("demo_rc_patched"),
                      "pytest_with_patch": conf.get("pytest_summary"), "how": "tools/confirm_mutant.sh / tools/ingest_mutant.sh in a scratch worktree of /repo"},
        "detection": {"check": det.get("check", pid), "tier": "quick", "exit": det.get("exit"), "violation_keys": keys,
                      "how": "tools/detect_mutants.sh (patch applied in a scratch worktree, check run with VERIF_REPO)"},
    }
    if BASES.get(d):
        meta["patch_applies_to_repo_commit"] = BASES[d]
    if os.path.exists(os.path.join(p, "patch_as_delivered.diff")):
        meta["patch_rebased"] = "patch.diff is the delivered change re-based onto a later /repo commit (git apply -3, no conflicts); patch_as_delivered.diff is the original"
    if d in NOT_A_VIOLATION:
        meta["assessment"] = NOT_A_VIOLATION[d]
    if d in EXTRA:
        meta["also_checked_with"] = {"check": EXTRA[d][0], "result": EXTRA[d][1]}
    json.dump(meta, open(os.path.join(p, "meta.json"), "w"), indent=1)
    rows.append((d, ", ".join(os.path.basename(f) for f in files), first[:110].replace("|", "/"),
                 ("**caught** (" + "; ".join(k.replace("key=", "")[:70] for k in keys[:2]) + ")") if caught
                 else (("caught by " + EXTRA[d][0]) if d in EXTRA else
                       ("tolerated: " + NOT_A_VIOLATION[d]) if d in NOT_A_VIOLATION else f"exit {det.get('exit')}")))
tbl = "| seeded change | files | what it is | owning check (quick tier) |\n|---|---|---|---|\n" + "\n".join(
    f"| {a} | {b} | {c} | {e} |" for a, b, c, e in rows)
p = os.path.join(HERE, "DESIGN.md")
s = open(p).read()
s = re.sub(r"(<!-- SEEDED-TABLE-BEGIN -->\n).*?(\n<!-- SEEDED-TABLE-END -->)", lambda m: m.group(1) + tbl + m.group(2), s, flags=re.S)
open(p, "w").write(s)
print(len(rows), "seeded changes;", sum(1 for r in rows if "caught" in r[3]), "caught")
for r in rows:
    if "caught" not in r[3] and "tolerated" not in r[3]:
        print("NOT CAUGHT:", r[0], r[3])
