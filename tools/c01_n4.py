#!/venv/bin/python
"""Measures the all-shapes config of MC_LieselGraph for 4-node graphs (kinds v/c/t)."""
import sys
sys.path.insert(0, '/verif')
from vlib.core import run_tlc
from checks.c01 import CFG
r = run_tlc("MC_LieselGraph.tla", CFG.format(n=4, kinds='{"v", "c", "t"}'), tag="c01-n4", workers=6, timeout=3 * 3600)
print("wall", round(r.wall_s), "error", r.error, "generated", r.generated, "distinct", r.distinct, "depth", r.depth)
