#!/usr/bin/env python3
"""Records in seeded/bases.json, for every seeded change, the newest commit of /repo its patch applies to (patches made
before a later repair of the same lines keep applying to the commit they were made against).  Uses a scratch worktree."""
import glob
import json
import os
import subprocess
import sys

SEEDED = os.path.join(os.path.dirname(os.path.abspath(__file__)), "..", "seeded")
WT = "/tmp/mut/bases_wt"


def sh(*a, **k):
    return subprocess.run(a, capture_output=True, text=True, **k)


def main():
    commits = sh("git", "-C", "/repo", "log", "--format=%h", "-n", "60").stdout.split()
    sh("git", "-C", "/repo", "worktree", "remove", "--force", WT)
    assert sh("git", "-C", "/repo", "worktree", "add", "--detach", WT, "HEAD", "-q").returncode == 0
    out = {}
    try:
        pending = sorted(os.path.basename(os.path.dirname(p)) for p in glob.glob(os.path.join(SEEDED, "C*-*", "patch.diff")))
        for c in commits:
            if not pending:
                break
            sh("git", "-C", WT, "checkout", "-q", "--detach", c)
            rest = []
            for m in pending:
                ok = sh("git", "-C", WT, "apply", "--check", os.path.join(SEEDED, m, "patch.diff")).returncode == 0
                if ok:
                    out[m] = c
                else:
                    rest.append(m)
            pending = rest
        for m in pending:
            out[m] = "none"
    finally:
        sh("git", "-C", "/repo", "worktree", "remove", "--force", WT)
    json.dump(dict(sorted(out.items())), open(os.path.join(SEEDED, "bases.json"), "w"), indent=0)
    import collections
    print(collections.Counter(out.values()).most_common(12))
    return 0


if __name__ == "__main__":
    sys.exit(main())
