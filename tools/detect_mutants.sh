#!/bin/bash
# usage: tools/detect_mutants.sh <ID-k> [<ID-k> ...]   - runs the owning check (quick) against a scratch worktree with the
# mutant applied (never /repo), from a snapshot of /verif (so that edits made meanwhile do not disturb it);
# writes seeded/<ID-k>/detect.json
set -u
WT=/tmp/mut/detect_$$; SNAP=/tmp/mut/vsnap_$$
git -C /repo worktree add --detach $WT HEAD -q || exit 2
mkdir -p $SNAP && rsync -a --exclude .git --exclude build --exclude evidence --exclude replay --exclude seeded /verif/ $SNAP/
for mk in "$@"; do
  id=${mk%-*}; d=/verif/seeded/$mk
  ( cd $WT && git checkout -q -- . && git clean -fdq liesel && git apply $d/patch.diff ) || { echo "{\"applies_to_head\": false}" > $d/detect.json; continue; }
  out=$(cd $SNAP && VERIF_REPO=$WT VERIF_EVIDENCE_DIR=/tmp/mut/ev_$$ VERIF_REPLAY_DIR=/tmp/mut/rp_$$ VERIF_BUILD_DIR=/tmp/mut/bd_$$ timeout 1500 ./check $id --tier quick 2>&1)
  rc=$(echo "$out" | grep -oE "exit=[0-9]+" | tail -1 | cut -d= -f2)
  keys=$(echo "$out" | grep -oE "key=[^ ]+" | sort -u | tr '\n' ' ')
  /venv/bin/python - "$d" "$id" "${rc:-9}" "$keys" <<'PY'
import json, sys
d, pid, rc, keys = sys.argv[1:5]
json.dump({"applies_to_head": True, "check": pid, "tier": "quick", "exit": int(rc), "violation_keys": keys.split()}, open(d + "/detect.json", "w"), indent=1)
print(d, rc, keys[:200])
PY
done
cd $WT && git checkout -q -- . ; git -C /repo worktree remove --force $WT; rm -rf /tmp/mut/ev_$$ /tmp/mut/rp_$$ /tmp/mut/bd_$$ $SNAP
