#!/bin/bash
# usage: tools/try_mutant.sh <patch.diff> <ID> [tier]   - applies the patch to /repo, runs the check, reverts
set -u
patch=$(readlink -f "$1"); id=$2; tier=${3:-quick}
cd /repo || exit 2
if ! git diff --quiet; then echo "/repo has uncommitted changes"; exit 2; fi
git apply "$patch" || { echo "patch does not apply"; exit 2; }
cd /verif
./check "$id" --tier "$tier" 2>&1 | grep -E "VIOLATION|key=|KNOWN|MACHINERY|^\[$id\]" | cut -c1-400
rc=${PIPESTATUS[0]}
cd /repo && git apply -R "$patch" && git diff --quiet && echo "(reverted) rc=$rc"
