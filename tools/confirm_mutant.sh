#!/bin/bash
# usage: tools/confirm_mutant.sh <ID> <k>  - confirms mutant k of property ID in its scratch worktree /tmp/mut/<ID>
# writes /verif/seeded/<ID>-<k>/{patch.diff,demo.py,notes.md,confirm.json}
set -u
id=$1; k=$2; wt=/tmp/mut/$id; src=/verif/seeded/_incoming/$id
out=/verif/seeded/$id-$k; mkdir -p $out
cp $src/patch$k.diff $out/patch.diff; cp $src/demo$k.py $out/demo.py; cp $src/notes$k.md $out/notes.md 2>/dev/null
cd $wt || exit 2
git checkout -q -- . ; git clean -fdq liesel
/venv/bin/python _deliver/demo$k.py > $out/demo_clean.log 2>&1; rc_clean=$?
git apply $out/patch.diff || { echo "{\"applies\": false}" > $out/confirm.json; exit 1; }
/venv/bin/python _deliver/demo$k.py > $out/demo_patched.log 2>&1; rc_patched=$?
/venv/bin/python -m pytest -q -p no:cacheprovider --timeout=900 -x > $out/pytest.log 2>&1; rc_test=$?
summary=$(tail -1 $out/pytest.log | tr -d '"')
git checkout -q -- . ; git clean -fdq liesel
echo "{\"applies\": true, \"demo_rc_clean\": $rc_clean, \"demo_rc_patched\": $rc_patched, \"pytest_rc\": $rc_test, \"pytest_summary\": \"$summary\"}" > $out/confirm.json
cat $out/confirm.json
