------------------------------ MODULE Trace_Chain ----------------------------
(* Binds Chain.tla to the real EpochChainManager: events advance / append /    *)
(* get / combine with what the real object returned (item numbers are carried  *)
(* in the stored pytree leaves).                                               *)
EXTENDS Chain, TraceBatch

TInit == BatchInit /\ CInit

TAdvance ==
  /\ IsEvent("advance") /\ AdvanceEpoch(Ev.thin)
  /\ Chk("current_epoch_is_the_new_one", Ev.current = NE + 1 /\ Ev.nepochs = NE + 1)
  /\ Step

TAppend ==
  /\ IsEvent("append") /\ AppendChunk(Ev.size) /\ Step

Pairs(s) == [i \in 1..Len(s) |-> <<s[i][1], s[i][2]>>]

TGet ==
  /\ IsEvent("get") /\ Get(Ev.e)
  /\ Chk("get_is_none_iff_no_chunk_held", Ev.none = GetIsNone(Ev.e))
  /\ Chk("thinning_keeps_every_th_item_whatever_the_chunking",
         Ev.none \/ Ev.items = stored[Ev.e])
  /\ Chk("all_leaves_thinned_alike", Ev.none \/ Ev.leaves_agree)
  /\ Step

TCombine ==
  /\ IsEvent("combine") /\ UNCHANGED <<thin, seen, counter, stored>>
  \* combining calls `get` on every selected epoch chain
  /\ nchunks' = [e \in 1..NE |-> IF e \in SeqToSet(Ev.epochs) /\ nchunks[e] > 0 THEN 1 ELSE nchunks[e]]
  /\ LET held == SelectSeq(Ev.epochs, LAMBDA e : nchunks[e] > 0) IN
     /\ Chk("combine_is_none_iff_no_selected_epoch_holds_anything", Ev.none = (held = <<>>))
     /\ Chk("combine_concatenates_in_the_given_order", Ev.none \/ Pairs(Ev.items) = Combine(held))
  /\ Step

TNext == TAdvance \/ TAppend \/ TGet \/ TCombine
=============================================================================
