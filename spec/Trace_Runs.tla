------------------------------ MODULE Trace_Runs ----------------------------
(* Trace spec for the run-table part of C10: one trace = one table of real   *)
(* engine runs; every event is one completed run.                            *)
EXTENDS Runs, TraceBatch
VARIABLE table
TInit == BatchInit /\ table = <<>>
TRun ==
  /\ IsEvent("run")
  /\ Chk("run_completed", Ev.crash = "")
  /\ Chk("first_sample_is_initial_value_after_jitter", FirstSampleOK(Ev))
  /\ Chk("jitter_keys_distinct_per_chain", Ev.jitter_keys_distinct)
  /\ Chk("same_seed_same_results_and_int_seed_equals_key",
         \A i \in 1..Len(table) : Determinism(table[i], Ev))
  /\ Chk("chains_independent_of_other_chains_initial_values",
         \A i \in 1..Len(table) : ChainIsolation(table[i], Ev))
  /\ table' = Append(table, Ev)
  /\ Step
TNext == TRun
=============================================================================
