--------------------------- MODULE MC_ModelLogProb --------------------------
(* Every program with <= 3 distribution nodes over all flag combinations and *)
(* leaves from a two-letter alphabet (so that equal leaves occur).           *)
EXTENDS ModelLogProb, TLC
VARIABLES D, hasVar, observed, parameter, leaf
vars == <<D, hasVar, observed, parameter, leaf>>
Init == /\ D \in (SUBSET (1..3))
        /\ hasVar \in [D -> BOOLEAN] /\ observed \in [D -> BOOLEAN] /\ parameter \in [D -> BOOLEAN]
        /\ leaf \in [D -> {"x", "y"}]
Next == UNCHANGED vars
DecompositionInv == Decomposition(D, hasVar, observed, parameter, leaf)
\* restricted sums are sub-bags of the full sum
SubBags == /\ BagOfLeaves(LikInputs(D, hasVar, observed), leaf) \sqsubseteq BagOfLeaves(D, leaf)
           /\ BagOfLeaves(PriorInputs(D, hasVar, parameter), leaf) \sqsubseteq BagOfLeaves(D, leaf)
\* vacuity guard (must be violated): some program with exclusive flags has both kinds
ReachBoth == ~(ExclusiveFlags(D, hasVar, observed, parameter) /\ Cardinality(D) = 3
               /\ (\E d \in D : observed[d]) /\ (\E d \in D : parameter[d]))
=============================================================================
