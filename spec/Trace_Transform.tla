---------------------------- MODULE Trace_Transform -------------------------
(* Trace spec for C14: one trace = one real variable x with a TFP            *)
(* distribution (parameters constant or other variables), transformed by one *)
(* of the entry points (instance / class with arguments / default /          *)
(* auto-transform at build / deprecated builder method), then assignments to *)
(* the new unconstrained variable and to parameter variables.                *)
(* Structure and flags follow Transform.tla; numeric identities are checked  *)
(* against leaves the driver computes with TFP from the *original*           *)
(* distribution and bijector (never from the transformed model).             *)
EXTENDS Transform, VFloat, TraceBatch

Close(a, b) == FClose(a, b, "3e-5", "3e-5")
CloseSeq(s, t) == Len(s) = Len(t) /\ \A i \in 1..Len(s) : Close(s[i], t[i])

V0(dist, param, obs) ==
  [val |-> Atom("x0"), dist |-> dist, tdist |-> FALSE, bij |-> "", param |-> param, obs |-> obs,
   weak |-> Hdr.weak, via |-> ""]
TInit ==
  /\ BatchInit
  /\ vars = ("x" :> V0(IF Hdr.has_dist THEN "px" ELSE "none", Hdr.parameter, Hdr.observed))
  /\ rej = "none"

\* observed flags of every existing variable equal the spec's
FlagsOK ==
  /\ Chk("variables_present", DOMAIN vars' = SeqToSet(Ev.names))
  /\ \A n \in DOMAIN vars' :
       /\ Chk("weak_strong_as_specified", Ev.flags[n].weak = vars'[n].weak)
       /\ Chk("original_keeps_no_distribution_new_variable_has_one",
              Ev.flags[n].has_dist = (vars'[n].dist # "none"))
       /\ Chk("parameter_flag_moves_to_new_variable", Ev.flags[n].parameter = vars'[n].param)
       /\ Chk("observed_flag_unchanged", Ev.flags[n].observed = vars'[n].obs)

\* the variable the event transforms ("x" unless the event says otherwise: chained transformations); an event of a
\* chain that is followed by a further transformation before a model exists carries the structural facts only
TVar == IF "var" \in DOMAIN Ev THEN Ev.var ELSE "x"
Structural == "structural_only" \in DOMAIN Ev /\ Ev.structural_only
\* a variable that belongs to a model cannot be transformed, and the attempt leaves the model as it was
Frozen == "frozen" \in DOMAIN Hdr /\ Hdr.frozen
TTransform ==
  /\ IsEvent("transform")
  /\ (IF Frozen THEN rej' = "frozen" /\ UNCHANGED vars ELSE Transform(TVar, Ev.bij))
  /\ Chk("transform_accepted_or_rejected_as_specified", Ev.reason = rej')
  /\ Chk("rejected_transformation_leaves_the_model_unchanged", "model_unchanged" \notin DOMAIN Ev \/ Ev.model_unchanged)
  /\ FlagsOK
  /\ (IF ~Ev.ok THEN TRUE
      ELSE IF Structural THEN Chk("new_variable_named_after_original", Ev.new_name = TName(TVar))
      ELSE
       /\ Chk("new_variable_named_after_original", Ev.new_name = TName(TVar))
       /\ Chk("original_value_unchanged_by_transformation", CloseSeq(Ev.orig_value, Ev.leaves.x))
       /\ Chk("new_value_is_inverse_image", CloseSeq(Ev.new_value, Ev.leaves.t))
       \* the model's totals see the transformed variable (it is the only distributed one; log-prior iff parameter)
       /\ Chk("model_log_prob_is_the_new_variables_log_density", Close(Ev.model_log_prob, Ev.new_log_prob))
       /\ Chk("model_log_prior_counts_the_new_variable_iff_parameter",
              Close(Ev.model_log_prior, IF Hdr.parameter THEN Ev.new_log_prob ELSE "0.0"))
       /\ Chk("model_with_the_transformed_variable_can_be_deep_copied", Ev.copy_ok)
       /\ Chk("per_obs_setting_moves_with_the_distribution",
              Ev.new_per_obs = Hdr.per_obs /\ (~Hdr.per_obs => Ev.new_lp_scalar))
       /\ Chk("new_log_density_is_original_at_b_t_plus_log_det_jacobian",
              Close(Ev.new_log_prob, FAdd(Ev.leaves.logp_b_t, Ev.leaves.fldj_t))))
  /\ Step

\* assignment of a new t to the unconstrained variable, or of a new value to a variable
\* the distribution's parameters (or the bijector's arguments) depend on
TAssign ==
  /\ IsEvent("assign")
  /\ (IF Ev.target \in {"x_transformed", "x_transformed_transformed"} THEN Assign(Ev.target, Atom(ToString(l)))
      ELSE UNCHANGED vars /\ rej' = "none")
  /\ FlagsOK
  /\ Chk("original_is_bijector_image_of_new_variable", CloseSeq(Ev.orig_value, Ev.leaves.b_t))
  /\ Chk("new_log_density_is_original_at_b_t_plus_log_det_jacobian",
         Close(Ev.new_log_prob, FAdd(Ev.leaves.logp_b_t, Ev.leaves.fldj_t)))
  /\ Chk("original_has_zero_log_prob_of_its_own", Ev.orig_log_prob = "0.0")
  /\ Step

TNext == TTransform \/ TAssign
=============================================================================
