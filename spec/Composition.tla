----------------------------- MODULE Composition ----------------------------
(* Blockwise composition of kernels and coherence of the carried model state *)
(* (kernel_sequence.py:120-140, kernel.py ModelMixin, interface.py           *)
(* update_state, mh.py).                                                     *)
(*                                                                           *)
(* The model state carries parameters p[1..N] and derived quantities         *)
(* d[1..M]; derived quantity j is a function of the parameters in Dep[j]     *)
(* (abstractly: the tuple of their values).  Kernel k owns block Own[k].     *)
(* A transition proposes new values for its own block, the proposal is       *)
(* turned into a full model state by update_state (assign + refresh), and    *)
(* either that state or the input state is returned.                         *)
(* Refresh = "full": every derived quantity is recomputed (the code);        *)
(* Refresh = "logprob_only": only the derived quantities in LogProbDeps are  *)
(* recomputed (a partial refresh that keeps the log-probability right but    *)
(* leaves other derived quantities stale) - violates DerivedCoherent.        *)
EXTENDS Naturals, Sequences, FiniteSets

CONSTANTS N, M, Vals, Own, Dep, Order, Refresh, LogProbDeps
\* Own \in [1..K -> SUBSET 1..N] (disjoint), Dep \in [1..M -> SUBSET 1..N],
\* Order = sequence of kernel indices (the configured order)

VARIABLES p, d, turn, calls
cvars == <<p, d, turn, calls>>
K == Len(Order)

DerivedOf(q, j) == [i \in Dep[j] |-> q[i]]
Recompute(q, old) ==
  [j \in 1..M |-> IF Refresh = "full" \/ j \in LogProbDeps THEN DerivedOf(q, j) ELSE old[j]]

CInit == /\ p \in [1..N -> Vals] /\ d = [j \in 1..M |-> DerivedOf(p, j)]
         /\ turn = 1 /\ calls = <<>>

\* kernel Order[turn] runs; prop = new values for its block; acc = accepted?
Transition(prop, acc) ==
  LET k == Order[turn]
      q == [i \in 1..N |-> IF i \in Own[k] THEN prop[i] ELSE p[i]]
  IN /\ p' = (IF acc THEN q ELSE p)
     /\ d' = (IF acc THEN Recompute(q, d) ELSE d)
     /\ calls' = Append(calls, [k |-> k, before |-> p, after |-> p'])
     /\ turn' = (IF turn = K THEN 1 ELSE turn + 1)

CNext == \E prop \in [1..N -> Vals], acc \in BOOLEAN : Transition(prop, acc)

-----------------------------------------------------------------------------
DerivedCoherent == \A j \in 1..M : d[j] = DerivedOf(p, j)
OwnBlockOnly ==
  \A c \in 1..Len(calls) : \A i \in 1..N :
     i \notin Own[calls[c].k] => calls[c].after[i] = calls[c].before[i]
OrderRespected ==
  /\ \A c \in 1..Len(calls) : calls[c].k = Order[((c - 1) % K) + 1]
  /\ \A c \in 2..Len(calls) : calls[c].before = calls[c - 1].after
=============================================================================
