------------------------------- MODULE Epochs -------------------------------
(* liesel.goose.epoch.EpochManager as a state machine (epoch.py:142-209).    *)
(* The pure rules (Accepts / Valid / Stan / Chunk) live in EpochRules.tla.   *)
EXTENDS EpochRules

-----------------------------------------------------------------------------
(* The manager as a state machine.                                           *)
VARIABLES cfgs, ptr, nextStart
mvars == <<cfgs, ptr, nextStart>>

MInit == cfgs = <<>> /\ ptr = 0 /\ nextStart = 0

MAppend(c) == /\ Accepts(cfgs, c)
              /\ cfgs' = Append(cfgs, c)
              /\ UNCHANGED <<ptr, nextStart>>

MAppendRejected(c) == ~Accepts(cfgs, c) /\ UNCHANGED mvars

HasMore == ptr < Len(cfgs)

\* the EpochState handed out by next(): nth_epoch, time_before_epoch, config
Handed == [idx |-> ptr, start |-> nextStart, cfg |-> cfgs[ptr + 1]]

MNext == /\ HasMore
         /\ ptr' = ptr + 1
         /\ nextStart' = nextStart + cfgs[ptr + 1].dur
         /\ UNCHANGED cfgs

MNextRejected == ~HasMore /\ UNCHANGED mvars     \* RuntimeError("No epochs in manager")

-----------------------------------------------------------------------------
(* Properties of the manager.                                                *)
AlwaysValid       == Valid(cfgs)
AcceptedIffValidFor(C) == \A c \in C : Accepts(cfgs, c) <=> Valid(Append(cfgs, c))
ConsecutiveIndices == ptr \in 0..Len(cfgs)
StartTimesAddUp   == nextStart = SumDur(cfgs, 1, ptr)
\* the epoch handed out next carries index = number handed out so far and
\* start time = sum of the durations handed out so far
HandedOK == HasMore => Handed.idx = ptr /\ Handed.start = SumDur(cfgs, 1, ptr)
=============================================================================
