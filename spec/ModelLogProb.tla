----------------------------- MODULE ModelLogProb ---------------------------
(* Structural definition of Model.log_prob / log_lik / log_prior             *)
(* (model.py:57-60, 170-211; nodes.py:920-933).                              *)
(*                                                                           *)
(* A program is a set D of distribution nodes with attributes                *)
(*   hasVar[d]    the distribution is attached to a Var                      *)
(*   observed[d], parameter[d]  flags of that Var                            *)
(* `leaf[d]` is the log-density of the attached value under the distribution *)
(* parameterised by the current values of its inputs (a term in the symbolic *)
(* regime, a float in the numeric one).  Totals are *bags* of leaves (a sum  *)
(* is order-insensitive).                                                    *)
EXTENDS Naturals, FiniteSets, Bags

ProbInputs(D) == D
LikInputs(D, hasVar, observed)    == {d \in D : hasVar[d] /\ observed[d]}
PriorInputs(D, hasVar, parameter) == {d \in D : hasVar[d] /\ parameter[d]}

\* bag of the leaves of the distribution nodes in S
BagOfLeaves(S, leaf) ==
  LET vals == {leaf[d] : d \in S} IN
  [v \in vals |-> Cardinality({d \in S : leaf[d] = v})]

ExclusiveFlags(D, hasVar, observed, parameter) ==
  \A d \in D : hasVar[d] /\ (observed[d] # parameter[d])

\* log-prob = log-lik + log-prior when every distribution belongs to a variable
\* flagged as exactly one of observed / parameter
Decomposition(D, hasVar, observed, parameter, leaf) ==
  ExclusiveFlags(D, hasVar, observed, parameter) =>
     BagOfLeaves(ProbInputs(D), leaf) =
        BagOfLeaves(LikInputs(D, hasVar, observed), leaf) (+) BagOfLeaves(PriorInputs(D, hasVar, parameter), leaf)
=============================================================================
