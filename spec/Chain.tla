-------------------------------- MODULE Chain -------------------------------
(* Storage of MCMC draws: ListChain / ListEpochChain / EpochChainManager      *)
(* (goose/chain.py:72-209).  The time axis is abstracted to a sequence of     *)
(* item ids; item k of epoch e is the k-th state (1-based) handed to          *)
(* `append` during epoch e, in chunks of arbitrary sizes.                     *)
(*                                                                           *)
(* With thinning th > 1 (and apply_thinning) an epoch chain keeps exactly the *)
(* items th, 2 th, 3 th, ... of its stream, however the stream was chunked;   *)
(* a chunk none of whose items is kept is not stored at all; `get` returns    *)
(* none iff nothing is stored; combining epochs concatenates in epoch order.  *)
EXTENDS Naturals, Sequences, FiniteSets

CONSTANTS ApplyThinning, MaxEpochs, MaxItems, Thins, Sizes

VARIABLES thin,     \* thinning of each epoch chain (sequence)
          seen,     \* number of items handed to each epoch chain so far
          counter,  \* the chain's _states_counter (only advanced when thinning applies)
          stored,   \* per epoch: sequence of kept item numbers (positions in the epoch's stream)
          nchunks   \* per epoch: chunks physically held: 0, 1 or 2 (= several); a `get` merges them into one
cvars == <<thin, seen, counter, stored, nchunks>>

NE == Len(thin)
CInit == thin = <<>> /\ seen = <<>> /\ counter = <<>> /\ stored = <<>> /\ nchunks = <<>>

AdvanceEpoch(th) ==
  /\ NE < MaxEpochs
  /\ thin' = Append(thin, th) /\ seen' = Append(seen, 0) /\ counter' = Append(counter, 1)
  /\ stored' = Append(stored, <<>>) /\ nchunks' = Append(nchunks, 0)

\* indices (0-based within the chunk) kept by ListEpochChain.append, as coded
KeptIdx(c, th, size) == {i \in 0..(size - 1) : (c + i) % th = 0}
RECURSIVE Asc(_)
Asc(S) == IF S = {} THEN <<>> ELSE LET m == CHOOSE x \in S : \A y \in S : x <= y IN <<m>> \o Asc(S \ {m})

AppendChunk(size) ==
  /\ NE > 0 /\ seen[NE] + size <= MaxItems
  /\ LET e == NE
         th == thin[e]
         active == ApplyThinning /\ th > 1
         kept == IF active THEN KeptIdx(counter[e], th, size) ELSE 0..(size - 1)
         items == [i \in 1..Cardinality(kept) |-> seen[e] + Asc(kept)[i] + 1]
     IN /\ seen' = [seen EXCEPT ![e] = @ + size]
        /\ counter' = [counter EXCEPT ![e] = IF active THEN @ + size ELSE @]
        /\ stored' = [stored EXCEPT ![e] = @ \o items]
        \* a chunk is physically appended unless thinning leaves nothing of it
        /\ nchunks' = [nchunks EXCEPT ![e] = IF active /\ kept = {} THEN @ ELSE (IF @ = 0 THEN 1 ELSE 2)]
  /\ UNCHANGED thin

\* ListChain.get: merges the chunks into one (when there is anything to merge)
Get(e) ==
  /\ e \in 1..NE
  /\ nchunks' = [nchunks EXCEPT ![e] = IF @ = 0 THEN 0 ELSE 1]
  /\ UNCHANGED <<thin, seen, counter, stored>>

-----------------------------------------------------------------------------
\* what `get` of epoch e returns: none iff no chunk is held
GetIsNone(e) == nchunks[e] = 0
\* combine(epochs): concatenation in the given order of the epochs that hold something
RECURSIVE Combine(_)
Combine(es) == IF es = <<>> THEN <<>>
               ELSE [i \in 1..Len(stored[Head(es)]) |-> <<Head(es), stored[Head(es)][i]>>] \o Combine(Tail(es))

\* the intended meaning of thinning, independent of chunking
Expected(e) == IF ApplyThinning /\ thin[e] > 1
               THEN [k \in 1..(seen[e] \div thin[e]) |-> k * thin[e]]
               ELSE [k \in 1..seen[e] |-> k]
ThinningIndependentOfChunking == \A e \in 1..NE : stored[e] = Expected(e)
\* with chunks of size 0 and no thinning an empty chunk is held: `get` is then "some" of an
\* empty array (as coded); otherwise none iff nothing is stored
NoneIffNothingHeld == \A e \in 1..NE : (stored[e] # <<>>) => ~GetIsNone(e)
=============================================================================
