---------------------------- MODULE Trace_MHIface ----------------------------
(* mh_step (C05) through the model interfaces a user hands to it             *)
(* (DictInterface, DataclassInterface, LieselInterface): one trace = a chain  *)
(* of steps made with ONE PRNG key on one interface object, several of them   *)
(* on the same state object with different blocks of position keys.           *)
(* The current / proposed log-densities in the trace come from a closed-form  *)
(* float64 oracle over the logged state and proposal, never from liesel; the  *)
(* states are logged field by field.                                          *)
EXTENDS MHStep, TraceBatch

VARIABLES uLo, uHi

TInit == BatchInit /\ uLo = "0.0" /\ uHi = "1.0"

Inner(a) == FLt("0.0", a) /\ FLt(a, "1.0")
Fields == DOMAIN Ev.in
Updated == [f \in Fields |-> IF f \in DOMAIN Ev.pos THEN Ev.pos[f] ELSE Ev.in[f]]

TStep ==
  /\ IsEvent("mh")
  /\ LET a == AccProb(Ev.cur, Ev.prop, Ev.corr) IN
     /\ Chk("regular_densities_give_no_error_code", Ev.code = 0)
     /\ Chk("acc_prob_is_min_1_exp_of_the_densities_of_input_state_and_input_state_with_proposal",
            FClose(Ev.acc, a, "2e-4", "1e-6"))
     /\ Chk("acc_in_unit_interval", FLe("0.0", Ev.acc) /\ FLe(Ev.acc, "1.0"))
     /\ Chk("reject_returns_input_exactly", ~Ev.moved => Ev.out = Ev.in)
     /\ Chk("accept_returns_input_state_with_only_the_proposed_fields_replaced", Ev.moved => Ev.out = Updated)
     /\ Chk("input_state_object_not_modified", Ev.in_after = Ev.in)
     \* the returned state is a coherent state: quantities derived from the fields are those of its own fields
     /\ Chk("returned_state_is_fully_up_to_date", ("derived_fresh" \in DOMAIN Ev) => Ev.derived_fresh)
     /\ Chk("one_always_accepted", FEq(Ev.acc, "1.0") => Ev.moved)
     /\ Chk("zero_never_accepted", FEq(Ev.acc, "0.0") => ~Ev.moved)
     /\ uHi' = (IF Ev.moved /\ Inner(Ev.acc) THEN FMin(uHi, Ev.acc) ELSE uHi)
     /\ uLo' = (IF ~Ev.moved /\ Inner(Ev.acc) THEN FMax(uLo, Ev.acc) ELSE uLo)
     /\ Chk("one_uniform_draw_explains_all_decisions", FLe(uLo', uHi'))
  /\ Step

TRaised ==
  /\ IsEvent("mh_raised") /\ UNCHANGED <<uLo, uHi>>
  /\ Chk("step_on_a_block_of_fields_the_state_has_does_not_raise", FALSE)
  /\ Step

TNext == TStep \/ TRaised
=============================================================================
