------------------------------ MODULE MC_DistReg -----------------------------
EXTENDS DistReg
DoResponse == AddResponse
DoPredictor == \E p \in Preds : AddPredictor(p)
DoP == \E p \in Preds, n \in Explicit : AddPSmooth(p, n)
DoNP == \E p \in Preds, n \in Explicit : AddNPSmooth(p, n)
Next == DoResponse \/ DoPredictor \/ DoP \/ DoNP
Spec == DInit /\ [][Next]_dvars
Bound == \A p \in Preds : Len(smooths[p]) <= 3
=============================================================================
