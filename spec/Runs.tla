-------------------------------- MODULE Runs --------------------------------
(* Reproducibility, seed equivalence, chain isolation and initial values     *)
(* (C10) as properties of a *table of runs*.  A run is a record              *)
(*   cid     configuration id: everything except the form of the seed and    *)
(*           the per-chain initial values (model, kernels, schedule, chunk,  *)
(*           number of chains, seed value, jitter on/off)                    *)
(*   seedform "int" | "key"                                                  *)
(*   multi   per-chain initial states were supplied                          *)
(*   inits   per chain: token of the supplied initial value                  *)
(*   digests per chain: digest of everything recorded for that chain         *)
(*   first   per chain: first recorded sample                                *)
(*   expect  per chain: supplied initial value after the configured jitter   *)
(* The state is the sequence of runs seen so far; adding a run must keep the *)
(* table consistent.                                                         *)
EXTENDS Naturals, Sequences, FiniteSets

Chains(r) == 1..Len(r.digests)

SameSetup(a, b) == a.cid = b.cid /\ Len(a.digests) = Len(b.digests)
DiffChains(a, b) == {c \in Chains(a) : a.inits[c] # b.inits[c]}

\* identical seed (in either form), model, kernels, schedule, initial values
Determinism(a, b) ==
  (SameSetup(a, b) /\ a.inits = b.inits /\ a.multi = b.multi) => a.digests = b.digests
\* a chain's trajectory is unaffected by the initial values of the other chains
ChainIsolation(a, b) ==
  (SameSetup(a, b) /\ a.multi = b.multi) =>
     \A c \in Chains(a) \ DiffChains(a, b) : a.digests[c] = b.digests[c]
FirstSampleOK(r) == \A c \in Chains(r) : r.first[c] = r.expect[c]

Consistent(table, r) ==
  /\ FirstSampleOK(r)
  /\ \A i \in 1..Len(table) : Determinism(table[i], r) /\ ChainIsolation(table[i], r)
=============================================================================
