------------------------- MODULE MC_DualAveraging ---------------------------
(* Exhaustive configs for DualAveraging.tla.                                 *)
(*  "grid":  Monotone for every (state, acc, acc', t, constants) of a grid.  *)
(*  "pair":  two copies of the recurrence driven through whole epochs        *)
(*           (start, steps, end, next epoch ...) by pointwise ordered        *)
(*           acceptance sequences: the copy that saw the higher acceptance   *)
(*           probabilities never has the smaller step size.                  *)
EXTENDS DualAveraging, TLC, Sequences

Accs   == {"0.0", "0.1", "0.234", "0.5", "0.8", "0.99", "1.0"}
Eps0   == {"0.001", "0.1", "1.0", "7.5"}
Consts == {[target |-> "0.8", gamma |-> "0.05", kappa |-> "0.75", t0 |-> 10],
           [target |-> "0.234", gamma |-> "0.05", kappa |-> "0.75", t0 |-> 10],
           [target |-> "0.65", gamma |-> "0.5", kappa |-> "0.6", t0 |-> 3]}
Hs     == {"-3.0", "-0.2", "0.0", "0.7", "4.0"}
Ts     == {0, 1, 2, 5, 20, 200}

VARIABLES k1, k2, tin, g, a1, a2, phase
vars == <<k1, k2, tin, g, a1, a2, phase>>

GridInit == /\ g \in Consts /\ tin \in Ts /\ a1 \in Accs /\ a2 \in Accs
            /\ \E e \in Eps0, h \in Hs, la \in {"-1.0", "0.3"} :
                 k1 = [eps |-> e, H |-> h, lavg |-> la, mu |-> FLog(FMul("10.0", e))]
            /\ k2 = k1 /\ phase = "grid"
GridNext == UNCHANGED vars
GridInv  == Monotone(k1, a1, a2, tin, g)

CONSTANTS MaxT, PairAccs
PairInit == /\ g \in Consts /\ tin = 0 /\ a1 = "0.0" /\ a2 = "0.0"
            /\ \E e \in Eps0 : k1 = DAInit([eps |-> e]) /\ k2 = k1
            /\ phase = "in_epoch"
PStep == /\ phase = "in_epoch" /\ tin < MaxT
         /\ \E x \in PairAccs, y \in PairAccs :
              /\ FLe(x, y) /\ a1' = x /\ a2' = y
              /\ k1' = DAStep(k1, x, tin, g) /\ k2' = DAStep(k2, y, tin, g)
         /\ tin' = tin + 1 /\ UNCHANGED <<g, phase>>
PEnd == /\ phase = "in_epoch" /\ tin > 0
        /\ k1' = DAFinalize(k1) /\ k2' = DAFinalize(k2)
        /\ phase' = "ended" /\ UNCHANGED <<g, tin, a1, a2>>
PairNext == PStep \/ PEnd
PairInv == /\ FLe(k1.eps, k2.eps) /\ FLe(k1.lavg, k2.lavg) /\ FLe(k2.H, k1.H)
           /\ FLt("0.0", k1.eps) /\ FLt("0.0", k2.eps)
=============================================================================
