------------------------------ MODULE MC_MHStep -----------------------------
(* Every (current, proposed, correction, u) combination over a grid that     *)
(* contains -inf, +inf, NaN and the boundary draws u = 0 and u = 1 - 2^-24.  *)
EXTENDS MHStep, TLC
CONSTANTS Strict
Vals == {"-Infinity", "-100.0", "-2.0", "-0.5", "0.0", "0.25", "1.0", "Infinity", "NaN"}
Us   == {"0.0", "5.9604645E-8", "0.3", "0.99999994"}
VARIABLE o
Init == \E c \in Vals, p \in Vals, k \in Vals, u \in Us : o = Outcome(c, p, k, u, Strict)
Step == UNCHANGED o
Inv  == OutcomeOK(o)
\* vacuity guards: the grid reaches every interesting class
ReachNaN  == o.code # 90
ReachZero == ~(FEq(o.acc, "0.0") /\ o.code = 0)
ReachOne  == ~FEq(o.acc, "1.0")
ReachMid  == ~(FLt("0.0", o.acc) /\ FLt(o.acc, "1.0") /\ o.moved)
=============================================================================
