---------------------------- MODULE BuildStructure ---------------------------
(* Structural facts of one built model, stated over the construction plan     *)
(* (model.py:1082-1160): nodes 1..N with ordered inputs inp[n] - for a          *)
(* distribution node the evaluation point `at` is the last input - , the model's*)
(* update order, the recorded outputs and the names.  Used for models with     *)
(* variables (value node, proxy, distribution node) and free-standing nodes.   *)
EXTENDS Naturals, Sequences, FiniteSets

SeqSetB(s) == {s[i] : i \in 1..Len(s)}
PosIn(order, n) == CHOOSE i \in 1..Len(order) : order[i] = n

\* every input (including `at`) is updated before the node
Topological(order, inp) ==
  /\ SeqSetB(order) = DOMAIN inp /\ Len(order) = Len(inp)
  /\ \A n \in DOMAIN inp : \A m \in SeqSetB(inp[n]) : PosIn(order, m) < PosIn(order, n)

\* outputs are exactly the inverse of inputs
OutputsInverse(outs, inp) ==
  \A n \in DOMAIN inp : SeqSetB(outs[n]) = {m \in DOMAIN inp : n \in SeqSetB(inp[m])}

\* unique non-empty names
NamesOK(names) == /\ \A i \in 1..Len(names) : names[i] # ""
                  /\ Cardinality(SeqSetB(names)) = Len(names)

\* a plan is cyclic iff some node reaches itself through inputs
RECURSIVE ReachB(_, _, _)
ReachB(inp, todo, seen) ==
  IF todo = {} THEN seen
  ELSE LET n == CHOOSE x \in todo : TRUE IN
       ReachB(inp, (todo \ {n}) \cup (SeqSetB(inp[n]) \ (seen \cup {n})), seen \cup {n})
CyclicPlan(inp) == \E n \in DOMAIN inp : n \in ReachB(inp, SeqSetB(inp[n]), {})
=============================================================================
