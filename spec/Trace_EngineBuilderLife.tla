----------------------- MODULE Trace_EngineBuilderLife -----------------------
(* Binds EngineBuilderLife.tla (as coded, Rebind = FALSE) to the real          *)
(* EngineBuilder: every event carries the outcome of the call and, per kernel, *)
(* which of the driver's interfaces it is bound to and its identifier.         *)
EXTENDS EngineBuilderLife, TraceBatch

TInit == BatchInit /\ LInit
Obs ==
  /\ Chk("call_accepted_or_rejected_as_coded", Ev.reason = rej')
  /\ Chk("kernels_bound_and_named_as_coded",
         /\ Len(Ev.kernels) = Len(kern')
         /\ \A i \in 1..Len(kern') : Ev.kernels[i].bound = kern'[i].bound /\ Ev.kernels[i].ident = kern'[i].ident)
TSetModel == IsEvent("set_model") /\ SetModel(Ev.m) /\ Obs /\ Step
TAddKernel == IsEvent("add_kernel") /\ AddKernel(Ev.u, Ev.named) /\ Obs /\ Step
TSetInit == IsEvent("set_initial_values") /\ SetInit /\ Obs /\ Step
TSetEpochs == IsEvent("set_epochs") /\ SetEpochs /\ Obs /\ Step
TBuild ==
  /\ IsEvent("build") /\ Build /\ Obs
  /\ Chk("engine_extracts_positions_with_the_builders_current_interface",
         rej' # "none" \/ Ev.engine_model = engines'[Len(engines')].model)
  /\ Chk("engine_kernels_are_the_builders_kernels",
         rej' # "none" \/ Ev.engine_kmodels = engines'[Len(engines')].kmodels)
  /\ Step
TNext == TSetModel \/ TAddKernel \/ TSetInit \/ TSetEpochs \/ TBuild
=============================================================================
