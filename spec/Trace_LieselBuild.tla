-------------------------- MODULE Trace_LieselBuild -------------------------
(* Trace spec for C15: real liesel objects of the fixed universe             *)
(*   1 "a" Value   2 "b" Calc(a)   3 "" Calc(b, s)   4 "s" Calc(needs_seed)  *)
(* driven through add / build(copy) / guarded-mutator attempts / pop /       *)
(* copies / assignments; every event carries what was observed (outcome,     *)
(* projection of the model, structural facts read from the real model).      *)
EXTENDS LieselBuild, BuildStructure, TraceBatch

UIn1 == <<{}, {1}, {2, 4}, {}>>
Names1 == <<"a", "b", "", "s">>
UInCycT == <<{3}, {1}, {2}, {}>>
\* universe with a seed the user wired in: s (4, needs a seed) reads it from the value node us (5)
UIn5 == <<{}, {1}, {2, 4}, {5}, {}>>
Names5 == <<"a", "b", "", "s", "us">>

TInit == BatchInit /\ BInit

ObsNames == Chk("user_object_names", Ev.user_names = name')
ProjOK(m) ==
  /\ Chk("model_contains_every_recursive_input_once_under_unique_names",
         /\ SeqToSet(Ev.proj.names) = models'[m].names
         /\ Len(Ev.proj.names) = Cardinality(models'[m].names)
         /\ Ev.proj.closed)
  /\ Chk("model_objects", SeqToSet(Ev.proj.objs) = models'[m].objs)
  /\ Chk("inputs_as_wired",
         \A o \in models'[m].objs : SeqToSet(Ev.proj.inputs[ToString(o)]) = models'[m].inputs[o])
  \* the group g = {first: object 1, root: object 3} is reported iff one of its members is in the model
  /\ Chk("groups_reported_with_all_their_members",
         Hdr.universe \notin {"abcs", "abcsu"} \/
         (IF models'[m].objs \cap {1, 3} = {} THEN Len(Ev.proj.groups) = 0
          ELSE /\ Len(Ev.proj.groups) = 1 /\ Ev.proj.groups[1][1] = "g"
               /\ Ev.proj.groups[1][2] = <<"first", "root">>
               \* (a member outside the model may be a copy whose name is not tracked: the members inside carry model names)
               /\ Len(Ev.proj.groups[1][3]) = 2
               /\ Cardinality({i \in 1..2 : Ev.proj.groups[1][3][i] \in models'[m].names})
                    >= Cardinality(models'[m].objs \cap {1, 3})))
  /\ Chk("every_node_and_input_of_the_model_belongs_to_it", Ev.proj.members_ok /\ Ev.proj.closed)
  /\ Chk("outputs_are_exact_inverse_of_inputs", Ev.proj.outputs_inverse_ok)
  /\ Chk("update_order_is_topological", Ev.proj.topo_ok)

AddOK == Chk("object_added_to_the_builder_without_error", "crash" \notin DOMAIN Ev \/ Ev.crash = "")
TAdd == IsEvent("add") /\ Add(Ev.o) /\ AddOK /\ Step
TAddAgain == IsEvent("add") /\ Ev.o \in gb /\ AddOK /\ UNCHANGED bvars /\ Step

TBuild ==
  /\ IsEvent("build")
  /\ Build(Ev.copy)
  /\ Chk("build_accepted_or_rejected_as_specified", Ev.reason = rej')
  /\ Chk("rejected_build_leaves_no_model_seed_input_on_the_nodes",
         ("seed_inputs_left" \in DOMAIN Ev /\ ~Ev.ok) => Ev.seed_inputs_left = <<>>)
  /\ ObsNames
  /\ (IF Ev.ok THEN ProjOK(nmodels') /\ Chk("round_trip_reproduces_the_popped_model", rt' # "bad") ELSE TRUE)
  /\ Step
\* an empty builder builds an empty model; not part of the universe of interest
TBuildEmpty ==
  /\ IsEvent("build") /\ gb = {} /\ Chk("empty_build_has_no_user_objects", ~Ev.ok \/ Len(Ev.proj.objs) = 0)
  /\ UNCHANGED bvars /\ Step

TMutate ==
  /\ IsEvent("mutate")
  /\ (IF Ev.which = "name" THEN Rename(Ev.o, "z") ELSE Touch(Ev.o))
  /\ Chk("mutation_rejected_iff_object_belongs_to_a_model", Ev.raised = (owner[Ev.o] # 0))
  /\ Chk("rejected_mutation_leaves_object_unchanged", Ev.raised => Ev.unchanged)
  /\ ObsNames /\ Step

TPop == IsEvent("pop") /\ Pop(Ev.m) /\ ObsNames /\ Step

TDrop == IsEvent("drop") /\ DropModel(Ev.m) /\ ObsNames /\ Step

TCopy ==
  /\ IsEvent("copy")
  /\ CopyModel(Ev.m)
  /\ Chk("copy_accepted_or_rejected_as_specified", Ev.reason = rej')
  /\ (IF Ev.ok
      THEN /\ Chk("copy_reproduces_identical_state", Ev.same_as_original)
           /\ Chk("copy_shares_no_object_with_the_original", ~Ev.shares_objects)
           /\ ProjOK(nmodels')
      ELSE TRUE)
  /\ Chk("original_unchanged_by_copying", Ev.original_unchanged)
  /\ Step

TAssign ==
  /\ IsEvent("assign")
  /\ Chk("assignment_in_a_built_model_is_accepted", Ev.crash = "")
  /\ AssignIn(Ev.m, 1, ToString(Ev.x))
  /\ Chk("assignment_does_not_change_other_models", Ev.others_unchanged)
  /\ Step

\* --- one build of a model with variables and distribution nodes (random plans) --------------------------------
TPlanBuilt ==
  /\ IsEvent("plan_built")
  /\ Chk("update_order_is_topological_including_evaluation_points", Topological(Ev.order, Ev.inp))
  /\ Chk("outputs_are_exact_inverse_of_inputs_including_evaluation_points", OutputsInverse(Ev.outs, Ev.inp))
  /\ Chk("unique_non_empty_names", NamesOK(Ev.all_names))
  /\ Chk("every_node_of_the_model_is_frozen_in_it", Ev.frozen)
  /\ Chk("all_nodes_of_a_variable_are_in_the_model", Ev.var_nodes_present)
  /\ Chk("an_accepted_plan_is_acyclic", ~CyclicPlan(Ev.inp))
  /\ UNCHANGED bvars /\ Step
\* copies behave like the original and independently of it
TCopyBehaviour ==
  /\ IsEvent("copy_behaviour")
  /\ Chk("copy_completed", Ev.crash = "")
  /\ Chk("copy_follows_its_own_values", Ev.copy_follows_its_own_values)
  /\ Chk("original_unaffected_by_changes_in_the_copy", Ev.original_unaffected)
  /\ Chk("copy_unaffected_by_changes_in_the_original", Ev.copy_unaffected_by_original)
  /\ UNCHANGED bvars /\ Step
TMustReject ==
  /\ IsEvent("must_reject")
  /\ Chk("cyclic_or_duplicate_named_graph_is_rejected", Ev.got = Ev.expect)
  /\ Chk("rejected_build_leaves_the_users_variables_unchanged", ("unchanged" \in DOMAIN Ev) => Ev.unchanged)
  /\ UNCHANGED bvars /\ Step

TNext == TPlanBuilt \/ TCopyBehaviour \/ TMustReject \/ TAdd \/ TAddAgain \/ TBuild \/ TBuildEmpty \/ TMutate \/ TPop \/ TDrop \/ TCopy \/ TAssign
=============================================================================
