------------------------------ MODULE MC_Stan -------------------------------
(* Exhaustive config for stan_epochs: every argument tuple in a box.         *)
EXTENDS EpochRules, TLC
CONSTANTS WarmR, PostR, InitR, TermR, BaseR, ThinR
VARIABLE a
StanBox == [warmup : WarmR, post : PostR, init : InitR, term : TermR,
            base : BaseR, thinPost : ThinR, thinWarm : ThinR]
StanInit == a \in StanBox
StanNext == UNCHANGED a
StanInv  == StanOK(a)
=============================================================================
