------------------------------ MODULE MC_Transform --------------------------
(* Two variables x (parameter with prior), y (observed with distribution),   *)
(* one weak variable w without distribution; every sequence of transform     *)
(* attempts (two bijectors) and assignments over two atoms.                  *)
EXTENDS Transform, TLC
V(val, dist, param, obs, weak) ==
  [val |-> Atom(val), dist |-> dist, tdist |-> FALSE, bij |-> "", param |-> param, obs |-> obs, weak |-> weak, via |-> ""]
Init0 == (("x" :> V("a", "px", TRUE, FALSE, FALSE)) @@ ("y" :> V("a", "py", FALSE, TRUE, FALSE))
          @@ ("w" :> V("a", "none", FALSE, FALSE, TRUE)))
AllNames == {"x", "y", "w", "x_transformed", "y_transformed", "x_transformed_transformed", "y_transformed_transformed"}
DoTransform == \E v \in DOMAIN vars, b \in Bijectors : Transform(v, b)
DoAssign    == \E v \in DOMAIN vars, a \in Atoms : Assign(v, Atom(a))
Next == DoTransform \/ DoAssign
Bound == Cardinality(DOMAIN vars) <= 5
Spec == TInit0 /\ [][Next]_tvars
=============================================================================
