------------------------------- MODULE Trace_Glue ---------------------------
(* Trace spec for premise P6 of C04: the glue between liesel's HMC / NUTS    *)
(* kernels and blackjax (hmc.py:170-200, nuts.py:188-215, kernel.py          *)
(* ModelMixin).  One event = one eager call of the kernel's transition with  *)
(* the blackjax kernel factory wrapped by the driver, so that what blackjax  *)
(* was given and what it returned is recorded.                               *)
(*  (i)   the log-density function handed to blackjax, evaluated at probe    *)
(*        positions, equals the model's log-probability after direct         *)
(*        assignment of those positions;                                     *)
(*  (ii)  blackjax starts from the current position of the kernel's block    *)
(*        with that log-density;                                             *)
(*  (iii) the position written back is blackjax's output position and the    *)
(*        returned model state is its full refresh;                          *)
(*  (iv)  the kernel's tuning state is untouched.                            *)
EXTENDS VFloat, TraceBatch
TInit == BatchInit
Close(a, b) == FClose(a, b, "3e-5", "3e-5")
CloseSeq(s, t) == Len(s) = Len(t) /\ \A i \in 1..Len(s) : Close(s[i], t[i])

TGlue ==
  /\ IsEvent("glue")
  /\ Chk("transition_completed", Ev.crash = "")
  /\ Chk("density_handed_to_blackjax_is_model_density_over_the_block",
         CloseSeq(Ev.ld_probe, Ev.direct_probe))
  /\ Chk("blackjax_starts_from_current_position", Ev.start_pos = Ev.current_pos)
  /\ Chk("blackjax_start_log_density_is_current_model_log_prob", Close(Ev.start_ld, Ev.current_lp))
  /\ Chk("position_written_back_is_blackjax_output", Ev.written_pos = Ev.bj_out_pos)
  /\ Chk("returned_state_is_full_refresh_of_output_position", CloseSeq(Ev.returned_derived, Ev.direct_derived))
  /\ Chk("parameters_outside_the_block_unchanged", Ev.other_after = Ev.other_before)
  /\ Chk("tuning_state_untouched_by_standard_transition", Ev.kstate_after = Ev.kstate_before)
  /\ Step
TNext == TGlue
=============================================================================
