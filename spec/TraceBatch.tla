----------------------------- MODULE TraceBatch -----------------------------
(* Batched trace validation: one TLC run validates many recorded executions. *)
(* The trace file (env TRACE_FILE) is a JSON list of traces; each trace is a *)
(* record [hdr |-> <per-trace constants>, ev |-> <sequence of events>] and   *)
(* each event a record with at least the field "ev" (action name).           *)
(*                                                                           *)
(* A trace spec EXTENDS this module, declares its own variables, and writes  *)
(*     TInit == BatchInit /\ <spec init from Hdr>                            *)
(*     TAct  == IsEvent("act") /\ <spec action on logged arguments>          *)
(*                             /\ Chk("name", <logged post-state = spec's>)  *)
(*                             /\ Step                                       *)
(* Every check is a *named* conjunct; a rejected trace is reported with the  *)
(* longest matched prefix and the name of the conjunct that failed there.    *)
(* Run with -workers 1, CHECK_DEADLOCK FALSE, POSTCONDITION Post.            *)
EXTENDS Naturals, Integers, Sequences, FiniteSets, TLC, TLCExt, Json, IOUtils

VARIABLES tid, l

Traces == JsonDeserialize(IOEnv.TRACE_FILE)
NT     == Len(Traces)
Hdr    == Traces[tid].hdr
Evs    == Traces[tid].ev
Ev     == Evs[l]

Prog(t) == 2 * t          \* TLC register: furthest line reached in trace t
Err(t)  == 2 * t + 1      \* TLC register: <<line, name of last failing conjunct>>

\* IF (not \/): inside an action TLC would explore both disjuncts and always
\* overwrite the register.
Chk(name, cond) == IF cond THEN TRUE ELSE (TLCSet(Err(tid), <<l, name>>) /\ FALSE)

BatchInit == /\ tid \in 1..NT
             /\ l = 1
             /\ TLCSet(Prog(tid), 1)
             /\ TLCSet(Err(tid), <<0, "none">>)

IsEvent(e) == l <= Len(Evs) /\ Ev.ev = e

Step == /\ l' = l + 1
        /\ UNCHANGED tid
        /\ TLCSet(Prog(tid), IF TLCGet(Prog(tid)) > l + 1 THEN TLCGet(Prog(tid)) ELSE l + 1)

Rejected == {t \in 1..NT : TLCGet(Prog(t)) # Len(Traces[t].ev) + 1}

\* mentions a variable on purpose: TLC refuses constant-level postconditions
Post == /\ \A t \in Rejected : PrintT(<<"REJECT", t, TLCGet(Prog(t)), TLCGet(Err(t))>>)
        /\ PrintT(<<"SUMMARY", NT, Cardinality(Rejected)>>)

\* helpers -----------------------------------------------------------------
SeqToSet(s) == {s[i] : i \in 1..Len(s)}
Has(r, f)   == f \in DOMAIN r
=============================================================================
