------------------------------ MODULE LieselGraph ---------------------------
(* The cached computational DAG of a built liesel Model (nodes.py:127-552,   *)
(* 718-951; model.py:1082-1105, 1147-1173, 1288-1391).                       *)
(*                                                                           *)
(* Nodes are 1..N in a topological order.  kind[n]:                          *)
(*   "v" value node (no inputs; Value / Data)                                *)
(*   "c" caching node (Calc, Dist: value and dirty flag are cached)          *)
(*   "t" transient node (TransientCalc, TransientDist: value and             *)
(*       outdated-ness computed on the fly)                                  *)
(*   "p" transient identity with exactly one input (VarValue proxy of a Var, *)
(*       TransientIdentity)                                                  *)
(* inp[n] is the *ordered* sequence of input nodes (for a distribution node  *)
(* the evaluation point `at` is the last input, as in Dist.all_input_nodes). *)
(* The value algebra is a parameter: Apply(n, args) is what node n's         *)
(* function returns for argument values args (strings in the symbolic        *)
(* regime, integers in the simulate regime).                                 *)
(*                                                                           *)
(* State: val (cached / current values), flag (raw _outdated of caching      *)
(* nodes), auto (Model.auto_update), slots (saved Model.state snapshots),    *)
(* ghost dirty[n] = "an ancestor value node of caching node n was assigned   *)
(* since n was last computed".                                               *)
EXTENDS Naturals, Sequences, FiniteSets

CONSTANTS Apply(_, _),     \* value of node n applied to the sequence of argument values
          None,            \* placeholder value of transient nodes in val
          ErrVal              \* Apply's result when the node's function raises (no value is produced)

VARIABLES N, kind, inp,            \* the graph (fixed by the initial predicate)
          ord,                     \* the topological order in which Model.update sweeps (a permutation of 1..N;
                                   \* matters only for *where* a sweep is aborted by an exception)
          val, flag, auto, slots, dirty,
          evald,                   \* caching nodes evaluated by the last operation
          raised                   \* the last operation was aborted by an exception of a node function
gvars == <<N, kind, inp, ord>>
svars == <<val, flag, auto, slots, dirty, evald, raised>>

Node == 1..N
Transient(n) == kind[n] \in {"t", "p"}
App(n, args) == IF kind[n] = "p" THEN args[1] ELSE Apply(n, args)
SeqSet(s) == {s[i] : i \in 1..Len(s)}
Ins(n) == SeqSet(inp[n])
Outs(n) == {m \in Node : n \in Ins(m)}

RECURSIVE AncUpTo(_, _)
\* ancestors of n (nodes are topologically numbered, so recursion is on smaller ids)
Anc(n) == Ins(n) \cup UNION {AncUpTo(m, n) : m \in Ins(n)}
AncUpTo(m, n) == IF m >= n THEN {} ELSE Ins(m) \cup UNION {AncUpTo(k, m) : k \in Ins(m)}
Desc(n) == {m \in Node : n \in Anc(m)}

-----------------------------------------------------------------------------
\* effective values: cached for value/caching nodes, on the fly for transient ones
RECURSIVE EffUpTo(_, _)
EffUpTo(k, v) ==
  IF k = 0 THEN v
  ELSE LET w == EffUpTo(k - 1, v) IN
       IF Transient(k) THEN [w EXCEPT ![k] = App(k, [i \in 1..Len(inp[k]) |-> w[inp[k][i]]])]
       ELSE w
Eff(v) == EffUpTo(N, v)

\* from-scratch recomputation of every node from the current value nodes
RECURSIVE FreshUpTo(_, _)
FreshUpTo(k, v) ==
  IF k = 0 THEN v
  ELSE LET w == FreshUpTo(k - 1, v) IN
       IF kind[k] = "v" THEN w
       ELSE [w EXCEPT ![k] = App(k, [i \in 1..Len(inp[k]) |-> w[inp[k][i]]])]
Fresh(v) == FreshUpTo(N, v)

\* what Node.outdated reports
RECURSIVE OutdUpTo(_, _)
OutdUpTo(k, f) ==
  IF k = 0 THEN [n \in Node |-> FALSE]
  ELSE LET o == OutdUpTo(k - 1, f) IN
       [o EXCEPT ![k] = IF kind[k] = "v" THEN FALSE
                        ELSE IF kind[k] = "c" THEN f[k]
                        ELSE \E m \in Ins(k) : o[m]]
Outd(f) == OutdUpTo(N, f)

\* Model.update: sweep in topological order over the nodes in S.  A node function that raises aborts the sweep:
\* what was recomputed so far stays, the failing node and everything after it keep their flags (5th component)
RECURSIVE SweepFrom(_, _, _, _, _, _)
SweepFrom(k, S, v, f, d, e) ==
  IF k > N THEN <<v, f, d, e, FALSE>>
  ELSE LET n == ord[k] IN
       IF n \in S /\ kind[n] = "c" /\ f[n]
       THEN LET x == App(n, [i \in 1..Len(inp[n]) |-> Eff(v)[inp[n][i]]]) IN
            IF x = ErrVal THEN <<v, f, d, e, TRUE>>
            ELSE SweepFrom(k + 1, S, [v EXCEPT ![n] = x],
                           [f EXCEPT ![n] = FALSE], [d EXCEPT ![n] = FALSE], e \cup {n})
       ELSE SweepFrom(k + 1, S, v, f, d, e)
Sweep(S, v, f, d) == SweepFrom(1, S, v, f, d, {})

\* Value.value.__set__: store, flag all outputs recursively (flag_outdated recursion
\* passes through transient nodes and stops at value nodes, which have no inputs)
FlagDesc(n, f) == [m \in Node |-> IF m \in Desc(n) /\ kind[m] = "c" THEN TRUE ELSE f[m]]
DirtyDesc(n, d) == [m \in Node |-> IF m \in Desc(n) /\ kind[m] = "c" THEN TRUE ELSE d[m]]

\* result <<v, f, d, e>> of assigning x to value node n under auto-update setting a
AssignRes(n, x, v, f, d, a) ==
  LET v1 == [v EXCEPT ![n] = x]
      f1 == FlagDesc(n, f)
      d1 == DirtyDesc(n, d)
  IN IF a THEN Sweep(Node, v1, f1, d1) ELSE <<v1, f1, d1, {}, FALSE>>

-----------------------------------------------------------------------------
Set4(r) == val' = r[1] /\ flag' = r[2] /\ dirty' = r[3] /\ evald' = r[4] /\ raised' = r[5]

Assign(n, x) ==
  /\ kind[n] = "v"
  /\ Set4(AssignRes(n, x, val, flag, dirty, auto))
  /\ UNCHANGED <<gvars, auto, slots>>

SetAuto(b) == auto' = b /\ evald' = {} /\ raised' = FALSE /\ UNCHANGED <<gvars, val, flag, slots, dirty>>

\* Node.flag_outdated() on a node of a built model (public low-level API; the mechanism the value setter uses): the
\* node and its recursive outputs are flagged; nothing is evaluated, whatever the auto-update switch says
FlagOutdated(n) ==
  /\ kind[n] # "v"                        \* (a value node's flag_outdated does nothing)
  /\ LET S == {m \in Node : (m = n \/ m \in Desc(n)) /\ kind[m] = "c"} IN
     /\ flag' = [m \in Node |-> m \in S \/ flag[m]]
     /\ dirty' = [m \in Node |-> m \in S \/ dirty[m]]
  /\ evald' = {} /\ raised' = FALSE /\ UNCHANGED <<gvars, val, auto, slots>>

\* Node.clear_state() / `node.state = NodeState(None, True)` / a partial `model.state = {name: ...}` on a caching
\* node: its cache entry is dropped and the node alone is flagged - its outputs keep values that are still the
\* from-scratch ones (the inputs have not changed), so nothing else needs to be recomputed
ClearState(n) ==
  /\ kind[n] = "c"
  /\ val' = [val EXCEPT ![n] = None] /\ flag' = [flag EXCEPT ![n] = TRUE] /\ dirty' = [dirty EXCEPT ![n] = TRUE]
  /\ evald' = {} /\ raised' = FALSE /\ UNCHANGED <<gvars, auto, slots>>

\* Node.update() on a single caching node of a built model (public low-level API), as coded: the node is evaluated
\* from its inputs *as they are* and reports itself up to date afterwards.  InputsUpToDate(n) is the precondition
\* under which this keeps the cache coherent (deviation G8: it is not checked by the code)
InputsUpToDate(n) == \A m \in Ins(n) : ~Outd(flag)[m]
NodeUpdate(n) ==
  /\ kind[n] = "c"
  /\ LET x == App(n, [i \in 1..Len(inp[n]) |-> Eff(val)[inp[n][i]]]) IN
     IF x = ErrVal THEN raised' = TRUE /\ evald' = {} /\ UNCHANGED <<val, flag, dirty>>
     ELSE /\ val' = [val EXCEPT ![n] = x] /\ flag' = [flag EXCEPT ![n] = FALSE]
          /\ dirty' = [dirty EXCEPT ![n] = FALSE] /\ evald' = {n} /\ raised' = FALSE
  /\ UNCHANGED <<gvars, auto, slots>>

\* save_model / load_model round trip (a crash point anywhere in a history): the model read back is in the same
\* state - values, pending updates, the auto-update switch - and nothing is evaluated; states saved earlier with
\* `Model.state` can still be restored into it
Reload == evald' = {} /\ raised' = FALSE /\ UNCHANGED <<gvars, val, flag, auto, slots, dirty>>

UpdateAll ==
  /\ Set4(Sweep(Node, val, flag, dirty))
  /\ UNCHANGED <<gvars, auto, slots>>

Targets(T) == T \cup UNION {Anc(n) : n \in T}
UpdateTargets(T) ==
  /\ T # {} /\ T \subseteq Node
  /\ Set4(Sweep(Targets(T), val, flag, dirty))
  /\ UNCHANGED <<gvars, auto, slots>>

\* Model.state getter / setter
Save ==
  /\ slots' = Append(slots, <<val, flag, dirty>>)
  /\ evald' = {} /\ raised' = FALSE
  /\ UNCHANGED <<gvars, val, flag, auto, dirty>>
Restore(s) ==
  /\ s \in 1..Len(slots)
  /\ val' = slots[s][1] /\ flag' = slots[s][2] /\ dirty' = slots[s][3]
  /\ evald' = {} /\ raised' = FALSE
  /\ UNCHANGED <<gvars, auto, slots>>

\* Model.set_seed: the seed value nodes are assigned one after the other (each assignment sweeps if auto-update is on)
RECURSIVE AssignSeqRes(_, _, _, _, _, _)
AssignSeqRes(as, i, v, f, d, a) ==
  IF i > Len(as) THEN <<v, f, d, {}, FALSE>>
  ELSE LET r == AssignRes(as[i][1], as[i][2], v, f, d, a) IN
       IF r[5] THEN r
       ELSE LET rest == AssignSeqRes(as, i + 1, r[1], r[2], r[3], a) IN
            <<rest[1], rest[2], rest[3], r[4] \cup rest[4], rest[5]>>
SetSeed(as) ==
  /\ \A i \in 1..Len(as) : kind[as[i][1]] = "v"
  /\ Set4(AssignSeqRes(as, 1, val, flag, dirty, auto))
  /\ UNCHANGED <<gvars, auto, slots>>

\* pop_nodes_and_vars, a value assigned to value node n while it belongs to no model, and a new model built from
\* the same objects: Model.__init__ evaluates every node, nothing is outdated afterwards, auto-update is on again
\* (o: the sweep order of the new model)
Rebuild(n, x, o) ==
  /\ kind[n] = "v"
  /\ LET v1 == [val EXCEPT ![n] = x]
         fr == Fresh(v1)
     IN /\ \A m \in Node : fr[m] # ErrVal
        /\ val' = [m \in Node |-> IF Transient(m) THEN val[m] ELSE fr[m]]
  /\ flag' = [m \in Node |-> FALSE] /\ dirty' = [m \in Node |-> FALSE]
  /\ evald' = {m \in Node : kind[m] = "c"} /\ raised' = FALSE /\ auto' = TRUE
  /\ ord' = o /\ UNCHANGED <<N, kind, inp, slots>>

-----------------------------------------------------------------------------
(* Model.simulate (C17).  simd = sequence of records [d, target, params, r]: *)
(* distribution node d (in the order they are sampled), the value node its   *)
(* draw is assigned to, its parameter input nodes (ordered), and the token r *)
(* identifying the split of the seed it received.  Draw(d, r, pvals) is the  *)
(* value a distribution returns for parameter values pvals.                  *)
(* FromScratch = TRUE: parameters are the from-scratch values given the      *)
(* values drawn so far (what the property demands: a joint ancestral sample);*)
(* FromScratch = FALSE: parameters are whatever the inputs currently hold    *)
(* (the code before the fix of finding C17, wrong when auto-update is off).  *)
CONSTANTS Draw(_, _, _), FromScratch

RECURSIVE SimFrom(_, _, _, _, _, _, _)
SimFrom(j, simd, v, f, d, e, a) ==
  IF j > Len(simd) THEN <<v, f, d, e, FALSE>>
  ELSE LET s == simd[j]
           src == IF FromScratch THEN Fresh(v) ELSE Eff(v)
           pv == [i \in 1..Len(s.params) |-> src[s.params[i]]]
           \* with FromScratch the code refreshes the parameter inputs first
           pre == IF FromScratch
                  THEN Sweep(UNION {{p} \cup Anc(p) : p \in SeqSet(s.params)}, v, f, d)
                  ELSE <<v, f, d, {}, FALSE>>
           r == AssignRes(s.target, Draw(s.d, s.r, pv), pre[1], pre[2], pre[3], a)
       IN IF pre[5] THEN <<pre[1], pre[2], pre[3], e \cup pre[4], TRUE>>
          ELSE IF r[5] THEN <<r[1], r[2], r[3], e \cup pre[4] \cup r[4], TRUE>>
          ELSE SimFrom(j + 1, simd, r[1], r[2], r[3], e \cup pre[4] \cup r[4], a)

Simulate(simd) ==
  /\ Set4(SimFrom(1, simd, val, flag, dirty, {}, auto))
  /\ UNCHANGED <<gvars, auto, slots>>

-----------------------------------------------------------------------------
(* Properties.                                                               *)
Coherent == \A n \in Node : ~Outd(flag)[n] => Eff(val)[n] = Fresh(val)[n]
FlagIffDirty == \A n \in Node : kind[n] = "c" => (flag[n] <=> dirty[n])
\* action properties, stated on the post-state of the respective action
FullUpdateClean == raised \/ \A n \in Node : ~Outd(flag)[n]
TargetsCleanFor(T) == raised \/ \A n \in Targets(T) : ~Outd(flag)[n]
=============================================================================
