------------------------------ MODULE Trace_Growth --------------------------
(* Trace spec for behaviour beyond the listed properties (DESIGN.md 11):     *)
(*  "builder"    EngineBuilder.build() on enumerated configurations          *)
(*  "epoch_time" EpochState.advance_time / time_left arithmetic              *)
(*  "set_seed"   Model.set_seed hands distinct split keys to the seed nodes  *)
(*  "group"      Group.value_from reads the group member from a model state  *)
EXTENDS BuilderRules, EpochRules, VarGraph, BuilderOps, TraceBatch

VARIABLES tnow, tin     \* epoch-time model: current time and time within the epoch
TInit == BatchInit /\ tnow = 0 /\ tin = 0

\* an engine is a function of the builder's final configuration: every order of the setter calls (the first event
\* of the trace is the reference) gives bit-identical results
TBuilderOrder ==
  /\ IsEvent("builder_order")
  /\ Chk("same_configuration_in_any_call_order_gives_identical_results",
         Ev.digest = Evs[1].digest /\ Ev.keys = Evs[1].keys /\ SeqToSet(Ev.order) = SeqToSet(Evs[1].order))
  /\ UNCHANGED <<tnow, tin>> /\ Step

Cfg2(e) == [kernels |-> [i \in 1..Len(e.kernels) |->
                           [keys |-> SeqToSet(e.kernels[i].keys), ident |-> e.kernels[i].ident]],
            qgs |-> e.qgs, hasModel |-> e.has_model, hasInit |-> e.has_init,
            seedChains |-> e.seed_chains, chains |-> e.chains,
            included |-> SeqToSet(e.included), excluded |-> SeqToSet(e.excluded)]

TBuilder ==
  /\ IsEvent("builder")
  /\ Chk("build_accepted_iff_configuration_is_buildable", Ev.ok = Buildable(Cfg2(Ev)))
  /\ Chk("rejection_reason_follows_the_order_of_checks", Ev.reason = RejectReason(Cfg2(Ev)))
  /\ Chk("kernel_identifiers_after_build",
         Ev.ok => Ev.idents = [i \in 1..Len(Ev.kernels) |-> Ident(Cfg2(Ev), i)])
  /\ UNCHANGED <<tnow, tin>> /\ Step

TEpochStart ==
  /\ IsEvent("epoch_start")
  /\ tnow' = Ev.before /\ tin' = 0
  /\ Chk("fresh_epoch_state", Ev.time = Ev.before /\ Ev.tie = 0 /\ Ev.left = Ev.dur)
  /\ Step
TAdvance ==
  /\ IsEvent("advance")
  /\ tnow' = tnow + Ev.by /\ tin' = tin + Ev.by
  /\ Chk("advance_time_adds_to_both_clocks", Ev.time = tnow' /\ Ev.tie = tin')
  /\ Chk("time_left_is_duration_minus_time_in_epoch", Ev.left = Ev.dur - tin')
  /\ Step

TSetSeed ==
  /\ IsEvent("set_seed")
  /\ Chk("one_key_per_seed_node", Len(Ev.keys) = Ev.n_seeded)
  /\ Chk("seed_nodes_get_distinct_keys", Cardinality(SeqToSet(Ev.keys)) = Len(Ev.keys))
  /\ Chk("seeded_nodes_see_their_key", Ev.seen = Ev.keys)
  /\ Chk("same_seed_same_keys", Ev.keys_again = Ev.keys)
  /\ UNCHANGED <<tnow, tin>> /\ Step

TGroup ==
  /\ IsEvent("group")
  /\ Chk("value_from_reads_member_from_state", Ev.from_state = Ev.direct)
  /\ UNCHANGED <<tnow, tin>> /\ Step

TVarGraph ==
  /\ IsEvent("var_graph")
  /\ \A v \in Vars(Ev.own) :
       /\ Chk("all_input_vars_stop_at_first_variable",
              SeqToSet(Ev.input_vars[v]) = InputVars(Ev.inp, Ev.own, v))
       /\ Chk("all_output_vars_is_inverse", SeqToSet(Ev.output_vars[v]) = OutputVars(Ev.inp, Ev.own, v))
  /\ Chk("model_var_graph_edges", {<<Ev.edges[i][1], Ev.edges[i][2]>> : i \in 1..Len(Ev.edges)} = VarEdges(Ev.inp, Ev.own))
  /\ Chk("model_node_graph_edges",
         {<<Ev.node_edges[i][1], Ev.node_edges[i][2]>> : i \in 1..Len(Ev.node_edges)}
           = {<<m, n>> \in (1..Len(Ev.inp)) \X (1..Len(Ev.inp)) : m \in SeqSet(Ev.inp[n])})
  /\ UNCHANGED <<tnow, tin>> /\ Step

\* dist_reg_mcmc wiring (model/distreg.py:279-333): one Gibbs kernel per smoothing variance,
\* one IWLS kernel per coefficient vector, jitter functions for exactly these keys, and the
\* kernels' blocks partition the model's parameter variables
TWiring ==
  /\ IsEvent("distreg_wiring")
  /\ LET exp == {<<"GibbsKernel", g.name \o "_tau2">> : g \in {x \in SeqToSet(Ev.groups) : x.has_tau2}}
                 \cup {<<"IWLSKernel", g.name \o "_beta">> : g \in {x \in SeqToSet(Ev.groups) : x.has_beta}}
         got == {<<Ev.kernels[i].type, Ev.kernels[i].keys[1]>> : i \in 1..Len(Ev.kernels)}
     IN /\ Chk("one_kernel_per_tau2_and_beta", got = exp /\ Len(Ev.kernels) = Cardinality(exp))
        /\ Chk("one_key_per_kernel", \A i \in 1..Len(Ev.kernels) : Len(Ev.kernels[i].keys) = 1)
        /\ Chk("jitter_functions_for_exactly_the_kernel_keys",
               SeqToSet(Ev.jitter_keys) = {e[2] : e \in exp})
        /\ Chk("kernel_blocks_partition_the_parameters",
               SeqToSet(Ev.param_vars) = {e[2] : e \in exp})
  /\ UNCHANGED <<tnow, tin>> /\ Step

TReplace ==
  /\ IsEvent("replace_node")
  /\ Chk("replace_node_rewires_every_user_in_the_closure",
         Ev.inp_after = ReplaceInputs(Ev.inp, SeqToSet(Ev.added), Ev.old, Ev.new))
  /\ Chk("replace_node_updates_the_builders_list",
         SeqToSet(Ev.added_after) = ReplaceAdded(SeqToSet(Ev.added), Ev.old, Ev.new))
  /\ UNCHANGED <<tnow, tin>> /\ Step

TReplaceVar ==
  /\ IsEvent("replace_var")
  /\ LET vs == [i \in 1..Len(Ev.vars) |-> <<Ev.vars[i][1], Ev.vars[i][2], Ev.vars[i][3]>>]
         r == ReplaceVarRes(Ev.inp, Ev.at, vs, SeqToSet(Ev.added), SeqToSet(Ev.gbvars), Ev.old, Ev.new)
     IN /\ Chk("replace_var_raises_iff_old_has_a_distribution_and_new_has_none", Ev.raised = r[4])
        /\ Chk("replace_var_rewires_proxy_value_and_distribution_users", Ev.inp_after = r[1])
        /\ Chk("replace_var_updates_the_builders_lists",
               SeqToSet(Ev.added_after) = r[2] /\ SeqToSet(Ev.gbvars_after) = r[3])
        /\ Chk("replace_var_leaves_no_user_of_the_old_variable",
               Ev.raised \/ Ev.new_depends_on_old      \* replacing a variable by one of its descendants is not meaningful
                 \/ NoUserOfOldLeft(Ev.inp_after, Ev.at, vs, SeqToSet(Ev.added_after), SeqToSet(Ev.gbvars_after), Ev.old))
  /\ UNCHANGED <<tnow, tin>> /\ Step

TRename ==
  /\ IsEvent("rename")
  /\ LET Sub(nm) == Ev.sub[nm] IN
     Chk("rename_touches_exactly_the_named_nodes_of_the_closure",
         Ev.names_after = Renamed(Ev.inp, SeqToSet(Ev.added), Ev.names, Sub))
  /\ UNCHANGED <<tnow, tin>> /\ Step

\* GraphBuilder.update(): the reachable nodes are computed and named, the builder keeps its list, no node is left in a model
TGbUpdate ==
  /\ IsEvent("gb_update")
  /\ Chk("update_computes_every_reachable_node_from_scratch",
         Ev.vals_after = UpdatedVals(Ev.inp, Ev.added, Ev.vals))
  /\ Chk("update_names_the_unnamed_reachable_nodes_in_visiting_order",
         Ev.names_after = MissingNamesSet(Ev.inp, Ev.added, Ev.names))
  /\ Chk("update_leaves_the_builder_and_the_nodes_free",
         Ev.added_after = Ev.added /\ Ev.all_free /\ Ev.no_model_inputs_left)
  /\ Chk("count_node_names_counts_the_reachable_named_nodes",
         LET nc == NameCounts(Ev.inp, Ev.added, Ev.names_after) IN
         /\ DOMAIN nc = {Ev.counts[i][1] : i \in 1..Len(Ev.counts)}
         /\ \A i \in 1..Len(Ev.counts) : nc[Ev.counts[i][1]] = Ev.counts[i][2])
  /\ Chk("copy_of_the_builder_is_independent_of_the_original",
         Ev.copy_same_list /\ Ev.original_unchanged_by_adding_to_the_copy)
  /\ UNCHANGED <<tnow, tin>> /\ Step

TNext == TGbUpdate \/ TBuilderOrder \/ TReplace \/ TReplaceVar \/ TRename \/ TWiring \/ TVarGraph \/ TBuilder \/ TEpochStart \/ TAdvance \/ TSetSeed \/ TGroup
=============================================================================
