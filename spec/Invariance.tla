------------------------------- MODULE Invariance ---------------------------
(* Design theorem behind C04 / C06: on finite state spaces, with exact       *)
(* integer arithmetic, a kernel built from                                   *)
(*   - a proposal with integer weights w[x][y] (row sums RowSum(x)),         *)
(*   - the Metropolis-Hastings acceptance rule of MHStep.tla                 *)
(*     accept <=> u < alpha,  alpha = min(1, pi(y) q(x|y) / (pi(x) q(y|x))), *)
(*   - a uniform draw u that is *discretised* like a float: u in             *)
(*     {0, 1/M, ..., (M-1)/M}                                                *)
(* satisfies detailed balance w.r.t. the unnormalised integer target pi and  *)
(* never moves mass into a zero-density state; a Gibbs kernel that draws     *)
(* from the exact conditional, and blockwise sequences of such kernels,      *)
(* leave pi invariant.  Strict = FALSE replaces the rule by  u <= alpha      *)
(* (the code before the fix of finding C05) and is refuted.                  *)
(* All quantities are cross-multiplied integers, no division is rounded:     *)
(* instances are restricted to those where alpha * M is integral.            *)
EXTENDS Naturals, Integers, Sequences, FiniteSets

CONSTANTS S,        \* finite state space 1..n
          M,        \* resolution of the uniform draw
          Strict    \* BOOLEAN

RECURSIVE SumOver(_, _)
SumOver(f, T) == IF T = {} THEN 0 ELSE LET x == CHOOSE y \in T : TRUE IN f[x] + SumOver(f, T \ {x})
RowSum(w, x) == SumOver(w[x], S)

\* alpha(x -> y) * M as an integer, or -1 if it is not integral (instance excluded)
Num(pi, w, x, y) == pi[y] * w[y][x] * RowSum(w, x)
Den(pi, w, x, y) == pi[x] * w[x][y] * RowSum(w, y)
AM(pi, w, x, y) ==
  IF Den(pi, w, x, y) = 0 THEN 0
  ELSE IF Num(pi, w, x, y) >= Den(pi, w, x, y) THEN M
  ELSE IF (Num(pi, w, x, y) * M) % Den(pi, w, x, y) = 0 THEN (Num(pi, w, x, y) * M) \div Den(pi, w, x, y)
  ELSE -1
Exact(pi, w) == \A x, y \in S : AM(pi, w, x, y) >= 0

\* number of grid points g in 0..M-1 with  g/M accepted
NAcc(am) == Cardinality({g \in 0..(M - 1) : IF Strict THEN g < am ELSE g <= am})

\* probability flow pi[x] P(x, y), scaled by M * prod of row sums (common factor)
RECURSIVE ProdRows(_, _)
ProdRows(w, T) == IF T = {} THEN 1 ELSE LET x == CHOOSE y \in T : TRUE IN RowSum(w, x) * ProdRows(w, T \ {x})
Flow(pi, w, x, y) == pi[x] * w[x][y] * NAcc(AM(pi, w, x, y)) * ProdRows(w, S \ {x})

DetailedBalance(pi, w) ==
  \A x, y \in S : (x # y /\ pi[x] > 0 /\ pi[y] > 0) => Flow(pi, w, x, y) = Flow(pi, w, y, x)
NoLeakToZero(pi, w) ==
  \A x, y \in S : (x # y /\ pi[x] > 0 /\ pi[y] = 0) => Flow(pi, w, x, y) = 0
\* stationarity: inflow = outflow for every state of positive density
Stationary(pi, w) ==
  \A y \in S : pi[y] > 0 =>
     SumOver([x \in S |-> IF x # y THEN Flow(pi, w, x, y) ELSE 0], S)
       = SumOver([x \in S |-> IF x # y THEN Flow(pi, w, y, x) ELSE 0], S)
=============================================================================
