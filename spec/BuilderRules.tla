------------------------------ MODULE BuilderRules --------------------------
(* Growth beyond the listed properties: what EngineBuilder.build() accepts   *)
(* (builder.py:378-480) and KernelSequence.__init__ (kernel_sequence.py:66). *)
(* A builder configuration is a record                                       *)
(*   kernels : sequence of [keys : set of position keys, ident : STRING]     *)
(*   qgs     : sequence of quantity-generator identifiers                    *)
(*   hasModel, hasInit : BOOLEAN                                             *)
(*   seedChains : number of rows of the engine seed (0 = a single key)       *)
(*   chains : number of chains                                               *)
(*   included, excluded : sets of position keys (positions_included/_excluded) *)
EXTENDS Naturals, Sequences, FiniteSets, TLC

SeqSet(s) == {s[i] : i \in 1..Len(s)}
DupKeys(c) == \E i, j \in 1..Len(c.kernels) : i < j /\ c.kernels[i].keys \cap c.kernels[j].keys # {}
DupQG(c) == \E i, j \in 1..Len(c.qgs) : i < j /\ c.qgs[i] = c.qgs[j]
\* identifiers after the builder filled in kernel_00, kernel_01, ... for empty ones
Ident(c, i) == IF c.kernels[i].ident = "" THEN "kernel_0" \o ToString(i - 1) ELSE c.kernels[i].ident
DupIdent(c) == \E i, j \in 1..Len(c.kernels) : i < j /\ Ident(c, i) = Ident(c, j)

\* the positions the engine will store: the kernels' keys and the additional ones, minus the excluded ones
TrackedKeys(c) == ((UNION {c.kernels[i].keys : i \in 1..Len(c.kernels)}) \cup c.included) \ c.excluded

\* the checks of build() in their order; "none" = an engine is returned
RejectReason(c) ==
  IF DupKeys(c) THEN "duplicate_position_key"
  ELSE IF c.seedChains # 0 /\ c.seedChains # c.chains THEN "seed_dimensions"
  ELSE IF DupQG(c) THEN "duplicate_generator_identifier"
  ELSE IF ~c.hasModel THEN "no_model"
  ELSE IF ~c.hasInit THEN "no_initial_values"
  ELSE IF TrackedKeys(c) = {} /\ c.excluded # {} THEN "nothing_tracked"
  ELSE IF DupIdent(c) THEN "duplicate_kernel_identifier"
  ELSE "none"

\* what a user can rely on, independent of the order of the checks
Buildable(c) == /\ ~DupKeys(c) /\ (c.seedChains = 0 \/ c.seedChains = c.chains)
                /\ ~DupQG(c) /\ c.hasModel /\ c.hasInit /\ ~DupIdent(c) /\ (TrackedKeys(c) # {} \/ c.excluded = {})
AcceptsIffBuildable(c) == (RejectReason(c) = "none") <=> Buildable(c)
=============================================================================
