--------------------------- MODULE Trace_VarWiring --------------------------
(* Binds VarWiring.tla (as coded: Atomic = FALSE) to real liesel Var / Node   *)
(* objects: one event per setter call with the complete observed ownership    *)
(* state afterwards.                                                          *)
EXTENDS VarWiring, TraceBatch

Kind4 == <<"val", "val", "dist", "dist">>
Kind3 == <<"val", "dist", "dist">>

TInit == BatchInit /\ WInit

Obs == Ev.obs
Matches ==
  /\ Chk("node_var_back_references", Obs.nvar = nvar')
  /\ Chk("value_node_of_each_var", Obs.vval = vval')
  /\ Chk("dist_node_of_each_var", Obs.vdist = vdist')
  /\ Chk("dist_at_points_to_var_value", [n \in Nd |-> IF KindOf(n) = "dist" THEN Obs.at[n] ELSE 0] = at')
  /\ Chk("var_names", Obs.vname = vname')
  /\ Chk("node_names_follow_defaults", Obs.nname = nname')
  /\ Chk("proxy_names_follow_defaults", Obs.pname = pname')
  /\ Chk("proxy_forwards_current_value_node", Obs.proxy_ok)
  /\ Chk("rejected_iff_spec_rejects", Ev.rej = rej')

TOp ==
  /\ IsEvent("wiring_op")
  /\ CASE Ev.op = "set_value_node" -> SetValueNode(Ev.v, Ev.n)
       [] Ev.op = "set_dist_node" -> SetDistNode(Ev.v, Ev.d)
       [] Ev.op = "set_at" -> SetAt(Ev.d, Ev.w)
       [] Ev.op = "set_var_name" -> SetVarName(Ev.v, Ev.s)
       [] Ev.op = "set_node_name" -> SetNodeName(Ev.n, Ev.s)
  /\ Matches
  /\ Step

TNext == TOp
=============================================================================
