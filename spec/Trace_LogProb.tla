----------------------------- MODULE Trace_LogProb --------------------------
(* Trace spec for C02.  Extends the graph trace spec (so that assignments /  *)
(* updates move the model) with "totals" events:                             *)
(*  symbolic regime - Model.log_prob / log_lik / log_prior of a real model   *)
(*    whose distributions return term-valued log-densities; the totals are   *)
(*    multisets of leaves; the expected leaf of distribution node d is the   *)
(*    from-scratch value of d, i.e. the distribution applied to the current  *)
(*    values of its inputs and of its evaluation point;                      *)
(*  numeric regime ("totals_num") - real TFP models; per distribution the    *)
(*    leaf (sum of the log-density over observations) computed outside       *)
(*    liesel from the driver's own recipe, totals compared with VFloat sums. *)
(* Hdr (symbolic): dists, has_var / observed / parameter (per node id),      *)
(*    user_lp / user_ll / user_lpr (node id or 0).                           *)
EXTENDS Trace_LieselGraph, ModelLogProb, VFloat

BagOfSeq(s) == [v \in SeqToSet(s) |-> Cardinality({i \in 1..Len(s) : s[i] = v})]
DSet == SeqToSet(Hdr.dists)
HasVar == [d \in DSet |-> Hdr.has_var[d]]
Obsd   == [d \in DSet |-> Hdr.observed[d]]
Param  == [d \in DSet |-> Hdr.parameter[d]]
Leaf   == [d \in DSet |-> Fresh(val)[d]]

Total(name, user, S) ==
  IF user # 0
  THEN Chk(name \o "_user_node_forwarded_unchanged", Ev[name] = <<Fresh(val)[user]>>)
  ELSE Chk(name \o "_is_sum_over_its_distribution_nodes", BagOfSeq(Ev[name]) = BagOfLeaves(S, Leaf))

TTotals ==
  /\ IsEvent("totals")
  /\ Total("log_prob", Hdr.user_lp, ProbInputs(DSet))
  /\ Total("log_lik", Hdr.user_ll, LikInputs(DSet, HasVar, Obsd))
  /\ Total("log_prior", Hdr.user_lpr, PriorInputs(DSet, HasVar, Param))
  /\ Chk("log_prob_equals_log_lik_plus_log_prior_under_exclusive_flags",
         (Hdr.user_lp = 0 /\ Hdr.user_ll = 0 /\ Hdr.user_lpr = 0
          /\ ExclusiveFlags(DSet, HasVar, Obsd, Param)) =>
            BagOfSeq(Ev.log_prob) = BagOfSeq(Ev.log_lik) (+) BagOfSeq(Ev.log_prior))
  /\ UNCHANGED <<gvars, svars>> /\ Step

\* a targeted update of one of the three totals (auto-update may be off, ancestors outdated): afterwards that total
\* is the from-scratch sum
TotalInputs(which) ==
  CASE which = "log_prob" -> (IF Hdr.user_lp # 0 THEN {Hdr.user_lp} ELSE ProbInputs(DSet))
    [] which = "log_lik" -> (IF Hdr.user_ll # 0 THEN {Hdr.user_ll} ELSE LikInputs(DSet, HasVar, Obsd))
    [] which = "log_prior" -> (IF Hdr.user_lpr # 0 THEN {Hdr.user_lpr} ELSE PriorInputs(DSet, HasVar, Param))
TTargetedTotal ==
  /\ IsEvent("targeted_total")
  /\ (IF TotalInputs(Ev.which) = {} THEN UNCHANGED <<gvars, svars>> ELSE UpdateTargets(TotalInputs(Ev.which)))
  /\ CASE Ev.which = "log_prob" -> Total("log_prob", Hdr.user_lp, ProbInputs(DSet))
       [] Ev.which = "log_lik" -> Total("log_lik", Hdr.user_ll, LikInputs(DSet, HasVar, Obsd))
       [] Ev.which = "log_prior" -> Total("log_prior", Hdr.user_lpr, PriorInputs(DSet, HasVar, Param))
  /\ Step

\* Model.simulate that raises (the distributions cannot be sampled): nothing changes, auto-update stays as it was
TFailedSimulate ==
  /\ IsEvent("failed_simulate")
  /\ Chk("simulate_raised", Ev.sim_raised)
  /\ Chk("auto_update_setting_survives_a_failed_simulate", Ev.auto_update_after = auto)
  /\ SetAuto(auto) /\ Obs /\ Step

\* --- numeric regime: no graph state, every event is self-contained ---------------------
Sel(x, mode) == CASE mode = "all" -> TRUE
                 [] mode = "lik" -> x.has_var /\ x.observed
                 [] mode = "prior" -> x.has_var /\ x.parameter
RECURSIVE SumOver(_, _, _)
\* sum of leaves[i].v over the selected entries, in listing order
SumOver(leaves, i, mode) ==
  IF i > Len(leaves) THEN "0.0"
  ELSE FAdd(IF Sel(leaves[i], mode) THEN leaves[i].v ELSE "0.0", SumOver(leaves, i + 1, mode))
Close(a, b) == FClose(a, b, "2e-5", "2e-4")

TTotalsNum ==
  /\ IsEvent("totals_num")
  /\ LET L == Ev.leaves
         excl == \A i \in 1..Len(L) : L[i].has_var /\ (L[i].observed # L[i].parameter)
     IN
     /\ Chk("log_prob_is_joint_log_density",
            Ev.user_lp \/ Close(Ev.log_prob, SumOver(L, 1, "all")))
     /\ Chk("log_lik_is_sum_over_observed_variables",
            Ev.user_ll \/ Close(Ev.log_lik, SumOver(L, 1, "lik")))
     /\ Chk("log_prior_is_sum_over_parameter_variables",
            Ev.user_lpr \/ Close(Ev.log_prior, SumOver(L, 1, "prior")))
     /\ Chk("user_supplied_totals_forwarded_unchanged",
            /\ Ev.user_forward_exact      \* same shape, same entries
            /\ (Ev.user_lp => FSame(Ev.log_prob, Ev.user_lp_value))
            /\ (Ev.user_ll => FSame(Ev.log_lik, Ev.user_ll_value))
            /\ (Ev.user_lpr => FSame(Ev.log_prior, Ev.user_lpr_value)))
     /\ Chk("log_prob_equals_log_lik_plus_log_prior_under_exclusive_flags",
            (excl /\ ~Ev.user_lp /\ ~Ev.user_ll /\ ~Ev.user_lpr) =>
               Close(Ev.log_prob, FAdd(Ev.log_lik, Ev.log_prior)))
     /\ Chk("per_obs_storage_changes_no_total",
            /\ Close(Ev.log_prob, Ev.alt_log_prob) /\ Close(Ev.log_lik, Ev.alt_log_lik)
            /\ Close(Ev.log_prior, Ev.alt_log_prior))
  /\ UNCHANGED <<gvars, svars>> /\ Step

TNext2 == TNext \/ TTotals \/ TTargetedTotal \/ TFailedSimulate \/ TTotalsNum
=============================================================================
