------------------------------ MODULE MassMatrix ----------------------------
(* Mass-matrix adaptation of HMC / NUTS kernels (mm.py, nuts.py:261-289,     *)
(* hmc.py:240-268): alignment of the tuned inverse mass matrix with the flat *)
(* coordinates of the kernel's position.                                     *)
(*                                                                           *)
(* Keys are identified with their rank in sorted order (1..K); `listing` is  *)
(* the order in which the user listed the position keys (a permutation of    *)
(* the ranks); size[k] is the number of scalar coordinates of key k.         *)
(* blackjax flattens the position with ravel_pytree: sorted keys, row-major  *)
(* within a key -> FlatOrder.                                                *)
EXTENDS Naturals, Sequences, FiniteSets

RECURSIVE CoordsFrom(_, _, _)
CoordsFrom(order, size, i) ==
  IF i > Len(order) THEN <<>>
  ELSE [o \in 1..size[order[i]] |-> <<order[i], o>>] \o CoordsFrom(order, size, i + 1)
\* coordinates <<key, offset>> in the order given by the key sequence `order`
Coords(order, size) == CoordsFrom(order, size, 1)

Sorted(K) == [i \in 1..K |-> i]
FlatOrder(K, size) == Coords(Sorted(K), size)
Dim(K, size) == Len(FlatOrder(K, size))

(* The tuner demanded by the property: entry i belongs to flat coordinate i. *)
(* V(c) is the regularised variance of coordinate c's history, C(c, d) the   *)
(* regularised covariance.                                                   *)
TuneDiag(K, size, V(_))      == [i \in 1..Dim(K, size) |-> V(FlatOrder(K, size)[i])]
TuneDense(K, size, C(_, _))  ==
  [i \in 1..Dim(K, size) |-> [j \in 1..Dim(K, size) |->
      C(FlatOrder(K, size)[i], FlatOrder(K, size)[j])]]

(* A tuner that stacks the history columns in *listing* order (the code      *)
(* before the fix of finding C12).                                           *)
TuneDiagListing(listing, size, V(_)) ==
  [i \in 1..Len(Coords(listing, size)) |-> V(Coords(listing, size)[i])]

AlignedDiag(imm, K, size, V(_)) ==
  /\ Len(imm) = Dim(K, size)
  /\ \A i \in 1..Len(imm) : imm[i] = V(FlatOrder(K, size)[i])
=============================================================================
