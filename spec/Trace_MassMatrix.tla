--------------------------- MODULE Trace_MassMatrix -------------------------
(* Trace spec for C12.  One event = one slow-adaptation tuning of a real     *)
(* HMC/NUTS kernel.  Hdr: K, size (seq), listing (seq of ranks), diag.       *)
(* Event "tune": flat  = coordinate order observed from the kernel's own     *)
(*                       position + ravel_pytree (what blackjax will use),   *)
(*               hist  = per flat coordinate (in FlatOrder) the history,     *)
(*               imm   = resulting inverse mass matrix (seq, or seq of seqs) *)
EXTENDS MassMatrix, VFloat, TraceBatch

K    == Hdr.K
Size == Hdr.size
FO   == FlatOrder(K, Size)
D    == Len(FO)

RECURSIVE SumF(_, _)
SumF(s, i) == IF i > Len(s) THEN "0.0" ELSE FAdd(s[i], SumF(s, i + 1))
Mean(s) == FDiv(SumF(s, 1), Len(s))
RECURSIVE SumProd(_, _, _, _, _)
SumProd(s, t, ms, mt, i) ==
  IF i > Len(s) THEN "0.0"
  ELSE FAdd(FMul(FSub(s[i], ms), FSub(t[i], mt)), SumProd(s, t, ms, mt, i + 1))
Cov(s, t) == FDiv(SumProd(s, t, Mean(s), Mean(t), 1), Len(s) - 1)
RegVar(s) == FAdd(Cov(s, s), "0.001")
RegCov(s, t, same) == IF same THEN RegVar(s) ELSE Cov(s, t)

TInit == BatchInit

\* index of coordinate c in FlatOrder
Idx(c) == CHOOSE i \in 1..D : FO[i] = c

TTune ==
  /\ IsEvent("tune")
  /\ Chk("flat_order_is_sorted_keys_row_major",
         Len(Ev.flat) = D /\ \A i \in 1..D : Ev.flat[i] = FO[i])
  /\ Chk("history_has_one_column_per_coordinate", Len(Ev.hist) = D)
  /\ Chk("matrix_has_dimension_of_position", Len(Ev.imm) = D)
  /\ IF Hdr.diag
     THEN Chk("diag_entry_i_is_regularised_variance_of_flat_coordinate_i",
              \A i \in 1..D : FClose(Ev.imm[i], RegVar(Ev.hist[i]), "2e-3", "1e-5"))
     ELSE Chk("dense_entry_ij_is_regularised_covariance_of_flat_coordinates_i_j",
              \A i \in 1..D : \A j \in 1..D :
                 FClose(Ev.imm[i][j], RegCov(Ev.hist[i], Ev.hist[j], i = j), "2e-3", "2e-4"))
  /\ Step

\* a fast-adaptation epoch that follows the tuning of the matrix adapts the step size only
TFastKeep ==
  /\ IsEvent("fast_keep")
  /\ Chk("mass_matrix_unchanged_by_a_fast_adaptation_epoch", Ev.after = Ev.before)
  /\ Step

TNext == TTune \/ TFastKeep
=============================================================================
