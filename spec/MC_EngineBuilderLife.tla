------------------------- MODULE MC_EngineBuilderLife ------------------------
EXTENDS EngineBuilderLife
DoSetModel == \E m \in 1..NM : SetModel(m)
DoAddKernel == \E u \in 0..NM, named \in BOOLEAN : AddKernel(u, named)
DoSetInit == SetInit
DoSetEpochs == SetEpochs
DoBuild == Build
Next == DoSetModel \/ DoAddKernel \/ DoSetInit \/ DoSetEpochs \/ DoBuild
Spec == LInit /\ [][Next]_evars
=============================================================================
