----------------------------- MODULE Trace_Groups ---------------------------
(* Binds Groups.tla (as coded) to real liesel Group / Node / Var objects.     *)
EXTENDS Groups, TraceBatch
TInit == BatchInit /\ GInit
TNew ==
  /\ IsEvent("new_group")
  /\ NewGroup(Ev.name, Ev.members)
  /\ Chk("group_rejected_iff_a_member_already_has_a_group_of_that_name", Ev.rej = rej')
  /\ Chk("member_registrations", \A m \in M : \A n \in GNames : Ev.reg[m][n] = reg'[m][n])
  /\ Chk("group_lists_its_members_under_their_keys", Ev.rej # "none" \/ Ev.listed = Ev.members)
  /\ Chk("nodes_and_vars_partition_the_members", Ev.rej # "none" \/ Ev.partition_ok)
  /\ Step
TNext == TNew
=============================================================================
