------------------------------- MODULE MC_Builder ---------------------------
EXTENDS BuilderRules
VARIABLE c
Keys == {"a", "b"}
KernelSet == [keys : (SUBSET Keys) \ {{}}, ident : {"", "k", "kernel_01"}]
Init == c \in [kernels : {<<x>> : x \in KernelSet} \cup {<<x, y>> : x \in KernelSet, y \in KernelSet},
               qgs : {<<>>, <<"q">>, <<"q", "q">>, <<"q", "r">>},
               hasModel : BOOLEAN, hasInit : BOOLEAN, seedChains : {0, 2, 3}, chains : {2},
               included : SUBSET {"a", "c"}, excluded : SUBSET Keys]
Next == UNCHANGED c
AcceptsInv == AcceptsIffBuildable(c)
=============================================================================
