----------------------------- MODULE MC_Epochs ------------------------------
(* Exhaustive config for the EpochManager state machine: every reachable     *)
(* manager state over the config alphabet, and in each of them every         *)
(* candidate config (accepted or rejected).                                  *)
EXTENDS Epochs, TLC

CONSTANTS Types, NegLo, DurHi, ThinHi, MaxLen   \* durations (-NegLo)..DurHi, thinnings (-NegLo)..ThinHi

Durs  == (0 - NegLo)..DurHi
Thins == (0 - NegLo)..ThinHi
Alphabet == {Cfg(t, d, k) : t \in Types, d \in Durs, k \in Thins}

AppendOK  == \E c \in Alphabet : MAppend(c)
AppendRej == \E c \in Alphabet : MAppendRejected(c)
Next == AppendOK \/ AppendRej \/ MNext \/ MNextRejected
LenBound == Len(cfgs) <= MaxLen

AcceptedIffValid == AcceptedIffValidFor(Alphabet)
\* chunk length divides every duration of every reachable schedule
ChunkOK == Len(cfgs) >= 2 => ChunkDivides(cfgs, Chunk(cfgs))
=============================================================================
