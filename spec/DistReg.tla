-------------------------------- MODULE DistReg ------------------------------
(* DistRegBuilder (model/distreg.py:40-330): the order-dependent rules by     *)
(* which a distributional regression graph is assembled - response,           *)
(* predictors (one per distribution parameter), parametric and               *)
(* non-parametric smooths with automatically numbered names.  As coded,       *)
(* including the error paths (the deviations from what one would expect are   *)
(* named in comments).                                                        *)
EXTENDS Naturals, Sequences, FiniteSets, TLC

CONSTANTS Preds,      \* predictor names that may be used (some of them never added)
          Explicit    \* explicit smooth names a user may pass ("" = none, automatic name)

VARIABLES hasResp,    \* a response was added
          params,     \* sequence of predictor names in insertion order (_distributional_parameters)
          respIn,     \* keyword inputs of the current response's distribution node (sequence of names)
          predIn,     \* [Preds -> sequence of smooth names]: inputs of the *current* predictor variable
          smooths,    \* [Preds -> sequence of smooth names]: the builder's registry (_smooths, a defaultdict)
          made,       \* names of the groups of all accepted smooths (old predictor variables stay in the builder)
          rej
dvars == <<hasResp, params, respIn, predIn, smooths, made, rej>>

DInit == /\ hasResp = FALSE /\ params = <<>> /\ respIn = <<>>
         /\ predIn = [p \in Preds |-> <<>>] /\ smooths = [p \in Preds |-> <<>>] /\ made = {} /\ rej = "none"

SeqSet(s) == {s[i] : i \in 1..Len(s)}
Has(p) == p \in SeqSet(params)

\* add_response: a new response variable; its distribution node has no inputs until the next add_predictor
AddResponse ==
  /\ hasResp' = TRUE /\ respIn' = <<>> /\ rej' = "none"
  /\ UNCHANGED <<params, predIn, smooths, made>>

\* add_predictor(p): a fresh predictor variable (no inputs) - the registry of smooth names is kept
AddPredictor(p) ==
  IF ~hasResp
  THEN rej' = "no_response" /\ UNCHANGED <<hasResp, params, respIn, predIn, smooths, made>>
  ELSE /\ params' = IF Has(p) THEN params ELSE Append(params, p)
       /\ respIn' = params'
       /\ predIn' = [predIn EXCEPT ![p] = <<>>]
       /\ rej' = "none" /\ UNCHANGED <<hasResp, smooths, made>>

\* _smooth_name: smallest counter whose automatic name is free among the registered smooths of the predictor
RECURSIVE FirstFree(_, _, _)
FirstFree(prefix, taken, k) == IF (prefix \o ToString(k)) \in taken THEN FirstFree(prefix, taken, k + 1) ELSE k
AutoName(p, kind) == LET prefix == p \o "_" \o kind IN prefix \o ToString(FirstFree(prefix, SeqSet(smooths[p]), 0))
SmoothName(p, kind, name) == IF name = "" THEN AutoName(p, kind) ELSE name
Duplicate(p, kind, name) == SmoothName(p, kind, name) \in SeqSet(smooths[p])

AddPSmooth(p, name) ==
  IF ~Has(p)
  THEN rej' = "no_predictor" /\ UNCHANGED <<hasResp, params, respIn, predIn, smooths, made>>
  ELSE IF Duplicate(p, "p", name)
  THEN rej' = "duplicate_smooth" /\ UNCHANGED <<hasResp, params, respIn, predIn, smooths, made>>
  ELSE LET nm == SmoothName(p, "p", name) IN
       /\ smooths' = [smooths EXCEPT ![p] = Append(@, nm)]
       /\ predIn' = [predIn EXCEPT ![p] = Append(@, nm)]
       /\ made' = made \cup {nm}
       /\ (IF nm \in made THEN rej' \in {"duplicate_group", "none"} ELSE rej' = "none")
       /\ UNCHANGED <<hasResp, params, respIn>>

\* add_np_smooth does not check the predictor first: for an unknown predictor the smooth is registered
\* (its name is taken from then on) before the lookup of the predictor variable fails with a KeyError
AddNPSmooth(p, name) ==
  IF Duplicate(p, "np", name)
  THEN rej' = "duplicate_smooth" /\ UNCHANGED <<hasResp, params, respIn, predIn, smooths, made>>
  ELSE LET nm == SmoothName(p, "np", name) IN
       /\ smooths' = [smooths EXCEPT ![p] = Append(@, nm)]
       /\ IF Has(p)
          THEN /\ predIn' = [predIn EXCEPT ![p] = Append(@, nm)] /\ made' = made \cup {nm}
               /\ (IF nm \in made THEN rej' \in {"duplicate_group", "none"} ELSE rej' = "none")
          ELSE UNCHANGED <<predIn, made>> /\ rej' = "key_error"
       /\ UNCHANGED <<hasResp, params, respIn>>

-----------------------------------------------------------------------------
\* as coded
\* (a smooth with an explicit name that another predictor's smooth already uses: add_groups finds a different
\* group of that name among the reachable ones and raises - after the smooth was registered and wired; which of
\* the two groups the lookup sees first depends on the traversal order, so the rejection is left nondeterministic)
InputsAreRegistered == \A p \in Preds : SeqSet(predIn[p]) \subseteq SeqSet(smooths[p])
InputNamesDistinct == \A p \in Preds : Cardinality(SeqSet(predIn[p])) = Len(predIn[p])
ResponseWiredToAllPredictors == (respIn # <<>>) => respIn = params
\* what one would expect (refuted as coded: re-added predictors, smooths of unknown predictors)
RegistryIsInputs == \A p \in Preds : predIn[p] = smooths[p]
RejectedIsNoOp == [][rej' # "none" => UNCHANGED <<hasResp, params, respIn, predIn, smooths, made>>]_dvars
=============================================================================
