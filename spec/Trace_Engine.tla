---------------------------- MODULE Trace_Engine ----------------------------
(* Trace spec binding GooseEngine.tla to the real liesel.goose Engine.       *)
(* One trace = one chain of one engine run driven by an interleaving of      *)
(* append_epoch / sample_next_epoch / sample_all_epochs, with every call the *)
(* probe kernels received (merged across kernels by the sequence counter the *)
(* probes carry in the model state), closed by a "results" event holding     *)
(* what SamplingResults stored.                                              *)
(*                                                                           *)
(* Observable events consume a trace line; the engine's internal steps       *)
(* (StartEpoch, PreStart, ChunkBegin, IterEnd, ChunkAppend, ...) are silent  *)
(* and deterministic given pc, so the search stays linear.  A kernel call is *)
(* only matched when no silent step is pending.                              *)
EXTENDS GooseEngine, TraceBatch

VARIABLE usedKeys

ToCfg(r) == Cfg(r.type, r.dur, r.thin)

TInit ==
  /\ BatchInit
  /\ K = Hdr.K /\ J = Hdr.J /\ NeedsHist = SeqToSet(Hdr.needs) /\ NQ = Hdr.nq
  /\ EInit
  /\ usedKeys = {}

Silent == pc \in {"start", "init", "prestart", "sampling", "iterend", "append", "preend",
                  "pretune", "finish", "return"}

TSilent ==
  /\ Silent
  /\ \/ StartEpoch \/ InitialValues \/ PreStart \/ ChunkBegin \/ IterEnd \/ ChunkAppend
     \/ PreEnd \/ PreTune \/ Finish \/ Return \/ ChunkMismatch
  /\ UNCHANGED <<params, tid, l, usedKeys>>

\* --- public API calls ----------------------------------------------------------
\* the configs the engine was constructed with are fed to the manager first
TAppend ==
  /\ IsEvent("append") /\ ~Silent
  /\ Chk("api_call_only_when_idle", pc \in {"idle", "stuck"} /\ mode = "none")
  /\ LET c == ToCfg(Ev.c) IN
     /\ Chk("append_accepted_iff_valid", Ev.accepted = Accepts(cfgs, c))
     /\ IF Ev.accepted THEN AppendEpoch(c) ELSE AppendEpochRejected(c)
  /\ UNCHANGED <<params, usedKeys>> /\ Step

\* the next epoch's duration is not a multiple of the chunk length (the initial epoch is not sampled in chunks)
Mismatch(e) == cfgs[e].type # INITIAL /\ cfgs[e].dur % J # 0
TSampleNext ==
  /\ IsEvent("sample_next") /\ ~Silent
  /\ Chk("api_call_only_when_idle", pc \in {"idle", "stuck"} /\ mode = "none")
  /\ IF pc = "stuck"
     THEN Chk("engine_unusable_after_a_chunk_mismatch", ~Ev.ok) /\ SampleStuck
     ELSE /\ Chk("sample_next_raises_iff_no_epoch_left_or_duration_not_a_multiple_of_the_chunk",
                 Ev.ok = (HasMore /\ ~Mismatch(ptr + 1)))
          /\ IF HasMore THEN SampleNextBegin ELSE SampleNextRejected
  /\ UNCHANGED <<params, usedKeys>> /\ Step

TSampleAll ==
  /\ IsEvent("sample_all") /\ ~Silent
  /\ Chk("api_call_only_when_idle", pc \in {"idle", "stuck"} /\ mode = "none")
  /\ IF pc = "stuck"
     THEN Chk("engine_unusable_after_a_chunk_mismatch", Ev.ok = ~HasMore) /\ SampleStuck
     ELSE /\ Chk("sample_all_epochs_does_not_raise",
                 Ev.ok = (\A e \in (ptr + 1)..Len(cfgs) : ~Mismatch(e)))
          /\ SampleAllBegin
  /\ UNCHANGED <<params, usedKeys>> /\ Step

\* --- kernel calls --------------------------------------------------------------
Expected == CASE pc = "endwarm" -> "end_warmup"
              [] pc = "kstart"  -> "start_epoch"
              [] pc = "iter"    -> "transition"
              [] pc = "kend"    -> "end_epoch"
              [] pc = "tune"    -> "tune"
              [] OTHER          -> "no kernel call"

\* the position keys the engine stores (and hands out as tuning history)
Tracked == (SeqToSet(Hdr.kernel_keys) \cup SeqToSet(Hdr.included)) \ SeqToSet(Hdr.excluded)
KernelKinds == {"end_warmup", "start_epoch", "transition", "end_epoch", "tune"}

\* lenient mode (Hdr.lenient): the per-call observations are not checked, the trace is only
\* used to drive the spec to the "results" event (lets a check look at what was stored even
\* if a conjunct owned by another property fails earlier in the same trace)
ChkL(name, cond) == Chk(name, Hdr.lenient \/ cond)
EpochArgs ==
  ChkL("epoch_arguments",
      /\ Ev.idx = epoch.idx /\ Ev.type = epoch.type
      /\ Ev.time = epoch.time /\ Ev.tie = epoch.tie)

FreshKey ==
  /\ ChkL("fresh_random_key_for_every_call", Ev.key \notin usedKeys)
  /\ usedKeys' = usedKeys \cup {Ev.key}

TInitState ==
  /\ IsEvent("init_state") /\ ~Silent
  /\ Chk("init_state_only_at_construction", l <= K /\ Ev.k = l)
  \* every chain's kernel states are initialised from that chain's own initial model state
  /\ Chk("kernel_state_initialised_from_the_chains_own_model_state",
         ("chain_seen" \in DOMAIN Ev /\ Ev.chain_seen # -7) => Ev.chain_seen = Hdr.init_chain)
  /\ FreshKey
  /\ UNCHANGED <<mvars, evars, params>> /\ Step

TCall ==
  /\ l <= Len(Evs) /\ Ev.ev \in KernelKinds /\ ~Silent
  /\ Chk("kernel_call_allowed_by_lifecycle_here", Ev.ev = Expected)
  /\ Chk("kernels_called_in_sequence_order", Ev.k = kk)
  /\ FreshKey
  /\ CASE Ev.ev = "end_warmup" -> EndWarmup(Ev.k)
       [] Ev.ev = "start_epoch" -> EpochArgs /\ KStart(Ev.k)
       [] Ev.ev = "end_epoch" -> EpochArgs /\ KEnd(Ev.k)
       [] Ev.ev = "transition" ->
            /\ EpochArgs
            /\ ChkL("adaptive_transition_iff_adaptation_epoch", Ev.adaptive = IsAdapt(epoch.type))
            /\ ChkL("starts_from_state_left_by_predecessor",
                   \A i \in Kernels : Ev.seen[i] = mstate[i])
            /\ ChkL("blocks_only_written_by_their_own_kernel", Ev.blocks_ok)
            /\ ChkL("probe_wrote_expected_tag",
                   Ev.wrote = <<epoch.idx, epoch.tie + 1, Ev.k>>)
            /\ Transition(Ev.k)
       [] Ev.ev = "tune" ->
            /\ EpochArgs
            /\ Chk("tune_only_after_adaptation_epoch", IsAdapt(epoch.type))
            /\ ChkL("slow_tuning_iff_slow_epoch", Ev.slow = (epoch.type = SLOW))
            /\ IF NeedsHist = {}
               THEN ChkL("no_history_unless_asked", Ev.hl = -1)
               ELSE LET h == History IN
                    /\ ChkL("history_is_this_epochs_stored_chain_length", Ev.hl = Len(h))
                    /\ ChkL("history_is_this_epochs_stored_chain_content",
                           \* (only the tracked positions are in the history)
                           Len(h) = 0 \/ Hdr.kernel_keys[Ev.k] \notin Tracked
                                      \/ (/\ Ev.hfirst = h[1][Ev.k]
                                          /\ Ev.hlast = h[Len(h)][Ev.k]))
            /\ Tune(Ev.k)
  /\ UNCHANGED params /\ Step

\* --- what SamplingResults stored -------------------------------------------------
KernelOfKey(name) == CHOOSE i \in Kernels : Hdr.kernel_keys[i] = name

RECURSIVE PostChain(_)
PostChain(e) == IF e > Len(chains) THEN <<>>
                ELSE (IF cfgs[e].type = POST THEN chains[e] ELSE <<>>) \o PostChain(e + 1)

\* SamplingResults.get_tuning_times: one entry per completed adaptation epoch, the global time at its end
RECURSIVE TuneTimes(_)
\* (an epoch the engine refused to sample - chunk mismatch - was started but never tuned)
Completed == Len(chains) - (IF pc = "stuck" THEN 1 ELSE 0)
TuneTimes(e) == IF e > Completed THEN <<>>
                ELSE (IF IsAdapt(cfgs[e].type) THEN <<SumDur(cfgs, 1, e)>> ELSE <<>>) \o TuneTimes(e + 1)

TResults ==
  /\ IsEvent("results") /\ ~Silent
  /\ Chk("results_read_when_idle", pc \in {"idle", "stuck"})
  /\ Chk("one_stored_chain_per_started_epoch", Ev.nepochs = Len(chains))
  /\ \A e \in 1..Len(chains) :
       LET r == Ev.epochs[e] IN
       /\ Chk("tracked_keys_respect_included_excluded",
              Len(chains[e]) = 0 \/ SeqToSet(r.keys) = Tracked)
       /\ \A name \in (SeqToSet(Hdr.kernel_keys) \cap Tracked) :
            Chk("stored_chain_is_thinned_per_iteration_states",
                Len(chains[e]) = 0 \/
                  (/\ Len(r.tags[name]) = Len(chains[e])
                   /\ \A i \in 1..Len(chains[e]) :
                        r.tags[name][i] = chains[e][i][KernelOfKey(name)]))
       \* a tracked quantity the model interface computes from the state: computed from this chain's state alone
       /\ \A name \in (DOMAIN Hdr.derived) \cap Tracked :
            Chk("computed_position_entries_are_computed_from_the_chains_own_state",
                Len(chains[e]) = 0 \/ \A i \in 1..Len(r.tags[name]) : r.tags[name][i] = <<Hdr.derived[name], 0>>)
       /\ Chk("stored_chain_empty_iff_nothing_kept", (Len(chains[e]) = 0) = (Len(r.keys) = 0))
       /\ Chk("transition_infos_for_every_transition", r.ninfo = nInfo[e])
       /\ Chk("kernel_states_for_every_transition",
              r.nks = -1 \/ r.nks = (IF cfgs[e].type = INITIAL THEN 1 ELSE nInfo[e]))
       \* ... and the t-th stored kernel state is the one *after* the t-th transition of that epoch
       /\ Chk("stored_kernel_states_are_those_after_the_transition",
              r.nks = -1 \/ cfgs[e].type = INITIAL \/
                \A t \in 1..Len(r.ks_last) : r.ks_last[t] = <<"transition", e - 1, t - 1>>)
  /\ \A e \in 1..Len(quants) :
       Chk("generated_quantities_once_per_stored_iteration_from_post_transition_state",
           /\ Len(Ev.quants[e]) = Len(quants[e])
           /\ \A i \in 1..Len(quants[e]) : \A g \in 1..NQ :
                /\ Ev.quants[e][i][g].seen = [k \in Kernels |-> quants[e][i].seen[k]]
                /\ Ev.quants[e][i][g].tie = quants[e][i].tie
                /\ Ev.quants[e][i][g].time = quants[e][i].time)
  /\ LET pc_ == PostChain(1) IN
     Chk("posterior_accessor_returns_exactly_posterior_epochs",
         IF Len(pc_) = 0 THEN (Ev.posterior.none \/ Len(Ev.posterior.tags) = 0)
         ELSE /\ ~Ev.posterior.none
              /\ Len(Ev.posterior.tags) = Len(pc_)
              /\ \A i \in 1..Len(pc_) :
                   (Hdr.postkey = "" \/ Ev.posterior.tags[i] = pc_[i][KernelOfKey(Hdr.postkey)]))
  /\ Chk("tuning_times_are_the_end_times_of_the_adaptation_epochs", Ev.tuning_times = TuneTimes(1))
  /\ Chk("stored_results_unchanged_by_reading_and_summarising", Ev.reread_ok)
  /\ Chk("results_object_obtained_earlier_shows_what_was_sampled_since", Ev.retained_ok)
  /\ Chk("results_written_to_disk_and_read_back_show_the_same_chains", Ev.pkl # "different")
  /\ Chk("keys_distinct_across_chains_and_calls",
         Cardinality(SeqToSet(Ev.allkeys)) = Len(Ev.allkeys))
  /\ Chk("no_call_key_is_derived_from_another_calls_key", Ev.keys_underived)
  /\ Chk("design_invariants",
         LifecycleOK /\ EndWarmupAtMostOnce /\ StoredOK /\ QuantsOK /\ OrderRespected /\ TuneHistoryOK)
  /\ UNCHANGED <<mvars, evars, params, usedKeys>> /\ Step

\* get_results() / reading the accessors in the middle of a run changes nothing
\* EngineBuilder.build() refuses a selection that would track nothing (every kernel key and every additional key
\* excluded): there is no chain to store - the only situation in which it may refuse for this reason
TBuildRefused ==
  /\ IsEvent("build_refused")
  /\ Chk("tracked_keys_respect_included_excluded", Tracked = {})
  /\ UNCHANGED <<mvars, evars, params, usedKeys>> /\ Step

TRead == IsEvent("read") /\ ~Silent /\ UNCHANGED <<mvars, evars, params, usedKeys>> /\ Step
TNext == TRead \/ TBuildRefused \/ TSilent \/ TAppend \/ TSampleNext \/ TSampleAll \/ TInitState \/ TCall \/ TResults
=============================================================================
