------------------------------ MODULE VarWiring -----------------------------
(* Ownership of nodes by variables before a model is built                    *)
(* (nodes.py:215-238 `_set_var/_unset_var`, 873-887 `Dist.at`, 1068-1096      *)
(* `Var.__init__`, 1338-1361 `Var.dist_node`, 1386-1402 `Var.name`, 1526-1553  *)
(* `Var.value_node`).                                                         *)
(*                                                                           *)
(* Vars V = 1..NV; free-standing nodes Nd = 1..NN of kind "val" (Value / Calc)*)
(* or "dist" (Dist).  Every var starts with its own private value node        *)
(* (ids NN+v) and no distribution (0 = a fresh NoDist).                       *)
(*                                                                           *)
(* Atomic = TRUE : the setters either take effect completely or not at all    *)
(*                 (what a user expects of a rejected operation);             *)
(* Atomic = FALSE: as coded - `Var.value_node = n` / `Var.dist_node = d`      *)
(*                 first name the new node, then release the old node, and    *)
(*                 only then find out that the new node already belongs to    *)
(*                 another variable: the call raises with the old node        *)
(*                 released although the var still holds it.                  *)
EXTENDS Naturals, Sequences, FiniteSets, TLC

CONSTANTS NV, NN, Kind, Names, Atomic

V == 1..NV
Free == 1..NN
Own(v) == NN + v                 \* the value node a var is born with
Nd == 1..(NN + NV)
KindOf(n) == IF n \in Free THEN Kind[n] ELSE "val"

VARIABLES nvar,     \* [Nd -> 0..NV]  node._var (0 = None)
          vval,     \* [V -> Nd]      var._value_node
          vdist,    \* [V -> Nd \cup {0}] var._dist_node (0 = NoDist)
          at,       \* [Nd -> 0..NV]  for dist nodes: the var whose var_value_node is `at` (0 = None)
          vname,    \* [V -> STRING]
          nname,    \* [Nd -> STRING]
          pname,    \* [V -> STRING]  name of the var_value proxy
          rej       \* outcome of the last operation
wvars == <<nvar, vval, vdist, at, vname, nname, pname, rej>>

WInit ==
  /\ nvar = [n \in Nd |-> IF n \in Free THEN 0 ELSE n - NN]
  /\ vval = [v \in V |-> Own(v)]
  /\ vdist = [v \in V |-> 0]
  /\ at = [n \in Nd |-> 0]
  /\ vname = [v \in V |-> ""] /\ nname = [n \in Nd |-> ""] /\ pname = [v \in V |-> "_var_value"]
  /\ rej = "none"

DefaultVal(s) == s \o "_value"
DefaultDist(s) == s \o "_log_prob"

\* Var.value_node = n
SetValueNode(v, n) ==
  /\ KindOf(n) = "val"
  /\ LET named == IF vname[v] # "" /\ nname[n] = "" THEN [nname EXCEPT ![n] = DefaultVal(vname[v])] ELSE nname
         old == vval[v]
         foreign == nvar[n] # 0 /\ n # old
     IN IF foreign
        THEN /\ rej' = "one_var"
             /\ IF Atomic THEN UNCHANGED <<nvar, nname>>
                ELSE nvar' = [nvar EXCEPT ![old] = 0] /\ nname' = named
             /\ UNCHANGED <<vval, vdist, at, vname, pname>>
        ELSE /\ rej' = "none"
             /\ nname' = named
             /\ nvar' = [[nvar EXCEPT ![old] = 0] EXCEPT ![n] = v]
             /\ vval' = [vval EXCEPT ![v] = n]
             /\ UNCHANGED <<vdist, at, vname, pname>>

\* Var.dist_node = d   (d = 0: None, i.e. a fresh NoDist)
SetDistNode(v, d) ==
  /\ d = 0 \/ KindOf(d) = "dist"
  /\ LET old == vdist[v]
         unset == IF old = 0 THEN nvar ELSE [nvar EXCEPT ![old] = 0]
     IN IF d = 0
        THEN /\ rej' = "none" /\ nvar' = unset /\ vdist' = [vdist EXCEPT ![v] = 0]
             /\ UNCHANGED <<vval, at, vname, nname, pname>>
        ELSE LET named == IF vname[v] # "" /\ nname[d] = "" THEN [nname EXCEPT ![d] = DefaultDist(vname[v])] ELSE nname
                 foreign == nvar[d] # 0 /\ d # old
             IN IF foreign
                THEN /\ rej' = "one_var"
                     /\ IF Atomic THEN UNCHANGED <<nvar, nname>> ELSE nvar' = unset /\ nname' = named
                     /\ UNCHANGED <<vval, vdist, at, vname, pname>>
                ELSE /\ rej' = "none" /\ nname' = named
                     /\ nvar' = [unset EXCEPT ![d] = v]
                     /\ at' = [at EXCEPT ![d] = v]          \* the released node keeps its stale `at`
                     /\ vdist' = [vdist EXCEPT ![v] = d]
                     /\ UNCHANGED <<vval, vname, pname>>

\* Dist.at = var_value_node of w (w = 0: None)
SetAt(d, w) ==
  /\ KindOf(d) = "dist"
  /\ IF nvar[d] # 0 /\ w # nvar[d]
     THEN rej' = "part_of_var" /\ UNCHANGED <<nvar, vval, vdist, at, vname, nname, pname>>
     ELSE rej' = "none" /\ at' = [at EXCEPT ![d] = w] /\ UNCHANGED <<nvar, vval, vdist, vname, nname, pname>>

\* Var.name = s: nodes still carrying their default (or no) name follow the variable
SetVarName(v, s) ==
  /\ LET n == vval[v]
         d == vdist[v]
         follow == s # "" /\ nname[n] \in {"", DefaultVal(vname[v])}
         n1 == IF follow THEN [nname EXCEPT ![n] = DefaultVal(s)] ELSE nname
         \* the NoDist of a var without distribution is renamed as well, unobservably
         n2 == IF d # 0 /\ s # "" /\ n1[d] \in {"", DefaultDist(vname[v])} THEN [n1 EXCEPT ![d] = DefaultDist(s)] ELSE n1
     IN /\ nname' = n2
        /\ pname' = IF follow THEN [pname EXCEPT ![v] = s \o "_var_value"] ELSE pname
  /\ vname' = [vname EXCEPT ![v] = s] /\ rej' = "none"
  /\ UNCHANGED <<nvar, vval, vdist, at>>

SetNodeName(n, s) ==
  /\ nname' = [nname EXCEPT ![n] = s] /\ rej' = "none"
  /\ UNCHANGED <<nvar, vval, vdist, at, vname, pname>>

-----------------------------------------------------------------------------
Holds(v) == {vval[v]} \cup (IF vdist[v] = 0 THEN {} ELSE {vdist[v]})
\* a node never claims a variable that does not hold it
ClaimsImplyHolds == \A n \in Nd : nvar[n] # 0 => n \in Holds(nvar[n])
\* a variable's nodes know their variable (fails as coded after a rejected setter)
HoldsImplyClaims == \A v \in V : \A n \in Holds(v) : nvar[n] = v
\* no node is the value / distribution node of two variables (fails as coded)
AtMostOneVar == \A v, w \in V : v # w => Holds(v) \cap Holds(w) = {}
\* the distribution node of a variable is evaluated at that variable
DistAtOwnVar == \A v \in V : vdist[v] # 0 => at[vdist[v]] = v
\* a rejected operation leaves everything as it was (only with Atomic)
RejectedIsNoOp == [][rej' # "none" => UNCHANGED <<nvar, vval, vdist, at, vname, nname, pname>>]_wvars
=============================================================================
