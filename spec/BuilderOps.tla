------------------------------- MODULE BuilderOps ---------------------------
(* Growth: GraphBuilder.replace_node / rename (model.py:684-737) on a graph  *)
(* of nodes 1..N with ordered inputs inp[n], names name[n] ("" = unnamed)    *)
(* and the set `added` of nodes explicitly added to the builder.             *)
EXTENDS Naturals, Sequences, FiniteSets

SeqSet(s) == {s[i] : i \in 1..Len(s)}
RECURSIVE Closure(_, _, _)
Closure(inp, todo, seen) ==
  IF todo = {} THEN seen
  ELSE LET n == CHOOSE x \in todo : TRUE IN
       Closure(inp, (todo \ {n}) \cup (SeqSet(inp[n]) \ (seen \cup {n})), seen \cup {n})

\* replace_node(old, new): in the builder's list and in the inputs of every node of the
\* closure (computed after the builder's own list was updated)
ReplaceAdded(added, old, new) == IF old \in added THEN (added \ {old}) \cup {new} ELSE added
ReplaceInputs(inp, added, old, new) ==
  LET C == Closure(inp, ReplaceAdded(added, old, new), {}) IN
  [n \in DOMAIN inp |-> IF n \in C THEN [i \in 1..Len(inp[n]) |-> IF inp[n][i] = old THEN new ELSE inp[n][i]]
                        ELSE inp[n]]

\* rename: exactly the *named* nodes of the closure get the substituted name
Renamed(inp, added, name, Sub(_)) ==
  LET C == Closure(inp, added, {}) IN
  [n \in DOMAIN name |-> IF n \in C /\ name[n] # "" THEN Sub(name[n]) ELSE name[n]]
=============================================================================
