------------------------------- MODULE BuilderOps ---------------------------
(* Growth: GraphBuilder.replace_node / rename (model.py:684-737) on a graph  *)
(* of nodes 1..N with ordered inputs inp[n], names name[n] ("" = unnamed)    *)
(* and the set `added` of nodes explicitly added to the builder.             *)
EXTENDS Naturals, Sequences, FiniteSets, TLC

SeqSet(s) == {s[i] : i \in 1..Len(s)}
RECURSIVE Closure(_, _, _)
Closure(inp, todo, seen) ==
  IF todo = {} THEN seen
  ELSE LET n == CHOOSE x \in todo : TRUE IN
       Closure(inp, (todo \ {n}) \cup (SeqSet(inp[n]) \ (seen \cup {n})), seen \cup {n})

\* replace_node(old, new): in the builder's list and in the inputs of every node of the
\* closure (computed after the builder's own list was updated)
ReplaceAdded(added, old, new) == IF old \in added THEN (added \ {old}) \cup {new} ELSE added
ReplaceInputs(inp, added, old, new) ==
  LET C == Closure(inp, ReplaceAdded(added, old, new), {}) IN
  [n \in DOMAIN inp |-> IF n \in C THEN [i \in 1..Len(inp[n]) |-> IF inp[n][i] = old THEN new ELSE inp[n][i]]
                        ELSE inp[n]]

\* rename: exactly the *named* nodes of the closure get the substituted name
Renamed(inp, added, name, Sub(_)) ==
  LET C == Closure(inp, added, {}) IN
  [n \in DOMAIN name |-> IF n \in C /\ name[n] # "" THEN Sub(name[n]) ELSE name[n]]

-----------------------------------------------------------------------------
(* GraphBuilder.update / copy / count_node_names (model.py:574-596, 957-975).                         *)
(* The builder walks its graph with a stack: the explicitly added nodes in the order they were added, *)
(* the last one first, the inputs of a node pushed in their order (so the last input is visited       *)
(* next); a node is visited once.  Unnamed nodes are named n0, n1, ... in that visiting order,        *)
(* skipping names that are taken.                                                                     *)
RECURSIVE Trav(_, _, _)
Trav(inp, stack, seen) ==
  IF stack = <<>> THEN seen
  ELSE LET n == stack[Len(stack)]
           rest == SubSeq(stack, 1, Len(stack) - 1)
       IN IF n \in SeqSet(seen) THEN Trav(inp, rest, seen) ELSE Trav(inp, rest \o inp[n], Append(seen, n))
Visit(inp, addedSeq) == Trav(inp, addedSeq, <<>>)

NmB(k) == "n" \o ToString(k)
RECURSIVE NameInOrder(_, _, _, _, _)
\* name: current names; order: visiting order; i: position; k: counter; C: the reachable nodes (whose names count as taken)
NameInOrder(name, order, i, k, C) ==
  IF i > Len(order) THEN name
  ELSE IF name[order[i]] # "" THEN NameInOrder(name, order, i + 1, k, C)
  ELSE IF NmB(k) \in {name[x] : x \in C} THEN NameInOrder(name, order, i, k + 1, C)
  ELSE NameInOrder([name EXCEPT ![order[i]] = NmB(k)], order, i + 1, k + 1, C)
MissingNamesSet(inp, addedSeq, name) ==
  LET order == Visit(inp, addedSeq) IN NameInOrder(name, order, 1, 0, SeqSet(order))

\* update(): every node the builder reaches is computed from scratch (ids are topological), the others keep what they hold
RECURSIVE JoinB(_, _)
JoinB(args, i) == IF i > Len(args) THEN "" ELSE (IF i > 1 THEN "," ELSE "") \o args[i] \o JoinB(args, i + 1)
ApB(n, args) == "f" \o ToString(n) \o "(" \o JoinB(args, 1) \o ")"       \* symbolic regime: term strings
RECURSIVE FreshB(_, _, _, _)
FreshB(inp, C, val, k) ==
  IF k = 0 THEN val
  ELSE LET w == FreshB(inp, C, val, k - 1) IN
       IF k \in C /\ inp[k] # <<>> THEN [w EXCEPT ![k] = ApB(k, [i \in 1..Len(inp[k]) |-> w[inp[k][i]]])] ELSE w
UpdatedVals(inp, addedSeq, val) == FreshB(inp, SeqSet(Visit(inp, addedSeq)), val, Len(inp))

\* count_node_names(): how often each non-empty name occurs among the nodes the builder reaches
NameCounts(inp, addedSeq, name) ==
  LET C == SeqSet(Visit(inp, addedSeq)) IN
  [nm \in {name[n] : n \in C} \ {""} |-> Cardinality({n \in C : name[n] = nm})]

-----------------------------------------------------------------------------
(* GraphBuilder.replace_var(old, new) (model.py:722-737).  Variables are     *)
(* triples <<value node, proxy node, dist node or 0>>; `at[n]` is the node a *)
(* distribution node is evaluated at (0 = none; not among `inp`).  The       *)
(* builder's closure follows inputs, `at`, and - from any node of a variable *)
(* - all nodes of that variable (_all_nodes_and_vars).                       *)
VarNodes(v) == {v[1], v[2]} \cup (IF v[3] = 0 THEN {} ELSE {v[3]})
Sib(vars, n) == UNION {VarNodes(vars[i]) : i \in {j \in 1..Len(vars) : n \in VarNodes(vars[j])}}
RECURSIVE ClosureV(_, _, _, _, _)
ClosureV(inp, at, vars, todo, seen) ==
  IF todo = {} THEN seen
  ELSE LET n == CHOOSE x \in todo : TRUE
           nxt == SeqSet(inp[n]) \cup Sib(vars, n) \cup (IF at[n] = 0 THEN {} ELSE {at[n]})
       IN ClosureV(inp, at, vars, (todo \ {n}) \cup (nxt \ (seen \cup {n})), seen \cup {n})
Roots(added, vars, gbvars) == added \cup UNION {VarNodes(vars[i]) : i \in gbvars}

\* one replace_node inside replace_var: <<inp', added'>>
RepNode(inp, at, vars, added, gbvars, old, new) ==
  LET a1 == ReplaceAdded(added, old, new)
      C == ClosureV(inp, at, vars, Roots(a1, vars, gbvars), {})
  IN <<[n \in DOMAIN inp |-> IF n \in C THEN [i \in 1..Len(inp[n]) |-> IF inp[n][i] = old THEN new ELSE inp[n][i]]
                             ELSE inp[n]], a1>>

\* result <<inp', added', gbvars', raised>> of replace_var(vars[o], vars[w]) as coded: the builder's list of
\* variables first, then proxy, value node and - unless that raises - distribution node
ReplaceVarRes(inp, at, vars, added, gbvars, o, w) ==
  LET g1 == IF o \in gbvars THEN (gbvars \ {o}) \cup {w} ELSE gbvars
      r1 == RepNode(inp, at, vars, added, g1, vars[o][2], vars[w][2])
      r2 == RepNode(r1[1], at, vars, r1[2], g1, vars[o][1], vars[w][1])
  IN IF vars[o][3] = 0 THEN <<r2[1], r2[2], g1, FALSE>>
     ELSE IF vars[w][3] = 0 THEN <<r2[1], r2[2], g1, TRUE>>      \* raises half-way (as coded)
     ELSE LET r3 == RepNode(r2[1], at, vars, r2[2], g1, vars[o][3], vars[w][3]) IN <<r3[1], r3[2], g1, FALSE>>

\* intent: afterwards nothing the builder reaches - other than the old variable's own nodes - reads the old variable
NoUserOfOldLeft(inp, at, vars, added, gbvars, o) ==
  LET C == ClosureV(inp, at, vars, Roots(added, vars, gbvars), {}) IN
  \A n \in C \ VarNodes(vars[o]) : SeqSet(inp[n]) \cap VarNodes(vars[o]) = {}
=============================================================================
