------------------------------- MODULE BuilderOps ---------------------------
(* Growth: GraphBuilder.replace_node / rename (model.py:684-737) on a graph  *)
(* of nodes 1..N with ordered inputs inp[n], names name[n] ("" = unnamed)    *)
(* and the set `added` of nodes explicitly added to the builder.             *)
EXTENDS Naturals, Sequences, FiniteSets

SeqSet(s) == {s[i] : i \in 1..Len(s)}
RECURSIVE Closure(_, _, _)
Closure(inp, todo, seen) ==
  IF todo = {} THEN seen
  ELSE LET n == CHOOSE x \in todo : TRUE IN
       Closure(inp, (todo \ {n}) \cup (SeqSet(inp[n]) \ (seen \cup {n})), seen \cup {n})

\* replace_node(old, new): in the builder's list and in the inputs of every node of the
\* closure (computed after the builder's own list was updated)
ReplaceAdded(added, old, new) == IF old \in added THEN (added \ {old}) \cup {new} ELSE added
ReplaceInputs(inp, added, old, new) ==
  LET C == Closure(inp, ReplaceAdded(added, old, new), {}) IN
  [n \in DOMAIN inp |-> IF n \in C THEN [i \in 1..Len(inp[n]) |-> IF inp[n][i] = old THEN new ELSE inp[n][i]]
                        ELSE inp[n]]

\* rename: exactly the *named* nodes of the closure get the substituted name
Renamed(inp, added, name, Sub(_)) ==
  LET C == Closure(inp, added, {}) IN
  [n \in DOMAIN name |-> IF n \in C /\ name[n] # "" THEN Sub(name[n]) ELSE name[n]]

-----------------------------------------------------------------------------
(* GraphBuilder.replace_var(old, new) (model.py:722-737).  Variables are     *)
(* triples <<value node, proxy node, dist node or 0>>; `at[n]` is the node a *)
(* distribution node is evaluated at (0 = none; not among `inp`).  The       *)
(* builder's closure follows inputs, `at`, and - from any node of a variable *)
(* - all nodes of that variable (_all_nodes_and_vars).                       *)
VarNodes(v) == {v[1], v[2]} \cup (IF v[3] = 0 THEN {} ELSE {v[3]})
Sib(vars, n) == UNION {VarNodes(vars[i]) : i \in {j \in 1..Len(vars) : n \in VarNodes(vars[j])}}
RECURSIVE ClosureV(_, _, _, _, _)
ClosureV(inp, at, vars, todo, seen) ==
  IF todo = {} THEN seen
  ELSE LET n == CHOOSE x \in todo : TRUE
           nxt == SeqSet(inp[n]) \cup Sib(vars, n) \cup (IF at[n] = 0 THEN {} ELSE {at[n]})
       IN ClosureV(inp, at, vars, (todo \ {n}) \cup (nxt \ (seen \cup {n})), seen \cup {n})
Roots(added, vars, gbvars) == added \cup UNION {VarNodes(vars[i]) : i \in gbvars}

\* one replace_node inside replace_var: <<inp', added'>>
RepNode(inp, at, vars, added, gbvars, old, new) ==
  LET a1 == ReplaceAdded(added, old, new)
      C == ClosureV(inp, at, vars, Roots(a1, vars, gbvars), {})
  IN <<[n \in DOMAIN inp |-> IF n \in C THEN [i \in 1..Len(inp[n]) |-> IF inp[n][i] = old THEN new ELSE inp[n][i]]
                             ELSE inp[n]], a1>>

\* result <<inp', added', gbvars', raised>> of replace_var(vars[o], vars[w]) as coded: the builder's list of
\* variables first, then proxy, value node and - unless that raises - distribution node
ReplaceVarRes(inp, at, vars, added, gbvars, o, w) ==
  LET g1 == IF o \in gbvars THEN (gbvars \ {o}) \cup {w} ELSE gbvars
      r1 == RepNode(inp, at, vars, added, g1, vars[o][2], vars[w][2])
      r2 == RepNode(r1[1], at, vars, r1[2], g1, vars[o][1], vars[w][1])
  IN IF vars[o][3] = 0 THEN <<r2[1], r2[2], g1, FALSE>>
     ELSE IF vars[w][3] = 0 THEN <<r2[1], r2[2], g1, TRUE>>      \* raises half-way (as coded)
     ELSE LET r3 == RepNode(r2[1], at, vars, r2[2], g1, vars[o][3], vars[w][3]) IN <<r3[1], r3[2], g1, FALSE>>

\* intent: afterwards nothing the builder reaches - other than the old variable's own nodes - reads the old variable
NoUserOfOldLeft(inp, at, vars, added, gbvars, o) ==
  LET C == ClosureV(inp, at, vars, Roots(added, vars, gbvars), {}) IN
  \A n \in C \ VarNodes(vars[o]) : SeqSet(inp[n]) \cap VarNodes(vars[o]) = {}
=============================================================================
