---------------------------- MODULE Trace_Simulate --------------------------
(* Trace spec for C17: real liesel Models with hierarchies of distributed    *)
(* variables in an integer-coded numeric regime.  Calc functions compute     *)
(* n + 2 * sum(inputs); a (fake) distribution's sample is                    *)
(* r + 8 * (d + sum(parameter values it was constructed with)), where r is a *)
(* residue of the seed split it received - so the value a child holds tells  *)
(* exactly which parent values its distribution saw.                         *)
(* Hdr: n, kind, inp, init, sims (per distribution: d, target, params).      *)
EXTENDS LieselGraph, TraceBatch, TLC, Integers, VFloat

RECURSIVE SumSeq(_, _)
SumSeq(s, i) == IF i > Len(s) THEN 0 ELSE s[i] + SumSeq(s, i + 1)
\* Hdr.factors: free-standing distribution nodes (no variable of their own; never simulated)
ApplyInt(n, args) == IF kind[n] = "c" /\ n \in ({Hdr.sims[j].d : j \in 1..Len(Hdr.sims)} \cup SeqToSet(Hdr.factors))
                     THEN 0                       \* distribution node: log-prob of the fake dist
                     ELSE n + 2 * SumSeq(args, 1)
ErrInt == -1      \* never produced in the integer regime
DrawInt(d, r, pv) == r + 8 * (d + SumSeq(pv, 1))

TInit ==
  /\ BatchInit
  /\ N = Hdr.n /\ kind = Hdr.kind /\ inp = Hdr.inp /\ ord = [i \in 1..Hdr.n |-> i] /\ val = Hdr.init
  /\ flag = [i \in 1..Hdr.n |-> FALSE] /\ dirty = [i \in 1..Hdr.n |-> FALSE]
  /\ auto = TRUE /\ slots = <<>> /\ evald = {} /\ raised = FALSE

Obs ==
  /\ Chk("values_equal_spec", \A i \in Node : Ev.val[i] = Eff(val')[i])
  /\ Chk("outdated_flags_equal_spec", \A i \in Node : Ev.outd[i] = Outd(flag')[i])
  /\ Chk("coherent", \A i \in Node : ~Ev.outd[i] => Ev.val[i] = Fresh(val')[i])
  /\ Chk("shapes_of_values_preserved", Ev.shapes = Hdr.value_shapes /\ Ev.uniform)
  \* the fake distributions draw non-integers (fraction .25): a stored draw is the draw itself, not a truncation of it
  /\ Chk("stored_values_are_integers_or_draws", \A i \in Node : Ev.fracs[i] \in {"0.0", "0.25"})

SimOf(d) == CHOOSE s \in {Hdr.sims[j] : j \in 1..Len(Hdr.sims)} : s.d = d
Skipped == {Hdr.sims[j].d : j \in 1..Len(Hdr.sims)} \ SeqToSet(Ev.order)

TSimulate ==
  /\ IsEvent("simulate")
  /\ Chk("exactly_the_non_skipped_variables_are_drawn_once",
         /\ Cardinality(SeqToSet(Ev.order)) = Len(Ev.order)
         /\ SeqToSet(Ev.order) = {Hdr.sims[j].d : j \in 1..Len(Hdr.sims)} \
                                 {Hdr.sims[j].d : j \in {k \in 1..Len(Hdr.sims) : Hdr.sims[k].target \in SeqToSet(Ev.skip)}})
  /\ Chk("drawn_values_are_stored_as_drawn_not_truncated",
         \A j \in 1..Len(Ev.order) : Ev.fracs[SimOf(Ev.order[j]).target] = "0.25")
  /\ Chk("ancestral_order_parents_before_children",
         \A a, b \in 1..Len(Ev.order) :
            (SimOf(Ev.order[a]).target \in UNION {{p} \cup Anc(p) : p \in SeqToSet(SimOf(Ev.order[b]).params)}) => a < b)
  /\ Chk("each_distribution_gets_its_own_split_of_the_seed",
         Cardinality(SeqToSet(Ev.toks)) = Len(Ev.toks))
  /\ LET simd == [j \in 1..Len(Ev.order) |->
                    [d |-> Ev.order[j], target |-> SimOf(Ev.order[j]).target,
                     params |-> SimOf(Ev.order[j]).params, r |-> Ev.rs[j]]]
     IN Simulate(simd)
  /\ Obs
  /\ Chk("skipped_variables_untouched",
         \A d \in Skipped : val'[SimOf(d).target] = val[SimOf(d).target])
  /\ Step

TAssign == IsEvent("assign") /\ Assign(Ev.n, Ev.x) /\ Obs /\ Step
TSetAuto == IsEvent("set_auto") /\ SetAuto(Ev.b) /\ Obs /\ Step
TUpdateAll ==
  /\ IsEvent("update_all") /\ UpdateAll /\ Obs
  /\ Chk("coherent_after_update", \A i \in Node : ~Ev.outd[i])
  /\ Step

\* Model.state getter / setter (a whole state of other parameter values is loaded without any flagging)
TSave == IsEvent("save") /\ Save /\ Obs /\ Step
TRestore == IsEvent("restore") /\ Restore(Ev.slot) /\ Obs /\ Step

\* real TFP distributions: shapes follow the current values, the draws are those of a fresh model of these shapes
TTfpSimulate ==
  /\ IsEvent("tfp_simulate")
  /\ Chk("simulate_with_real_distributions_completed", Ev.crash = "")
  /\ Chk("draws_have_the_shapes_of_the_current_values",
         Ev.first_shapes = <<<<>>, <<3>>, <<2, 3>>>> /\ Ev.second_shapes = <<<<>>, <<4>>, <<2, 4>>>>)
  /\ Chk("draws_determined_by_the_seed_and_the_current_shapes", Ev.same_as_fresh)
  /\ UNCHANGED <<gvars, svars>> /\ Step

\* real distributions with a restricted support: every draw lies in the support of its distribution
TSupportSimulate ==
  /\ IsEvent("support_simulate")
  /\ Chk("simulate_with_real_distributions_completed", Ev.crash = "")
  /\ Chk("draw_lies_in_the_support_of_its_distribution",
         /\ Ev.null_dim = 2 /\ FLe(Ev.null_rel, "1e-3")      \* no component in the null space of the penalty
         /\ FLt("0.0", Ev.tau2) /\ Ev.response_finite)
  /\ UNCHANGED <<gvars, svars>> /\ Step

\* parameters that broadcast against the value: the shape of the value is kept, every entry is a realisation of its own
TBroadcastSimulate ==
  /\ IsEvent("broadcast_simulate")
  /\ Chk("simulate_with_real_distributions_completed", Ev.crash = "")
  /\ Chk("draws_have_the_shapes_of_the_current_values", Ev.shapes = <<<<5>>, <<5, 3>>, <<2, 5, 3>>>>)
  /\ Chk("entries_of_a_draw_are_separate_realisations", Ev.distinct = <<5, 15, 30>>)
  /\ UNCHANGED <<gvars, svars>> /\ Step

TNext == TBroadcastSimulate \/ TSupportSimulate \/ TTfpSimulate \/ TSimulate \/ TAssign \/ TSetAuto \/ TUpdateAll \/ TSave \/ TRestore
=============================================================================
