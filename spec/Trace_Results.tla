---------------------------- MODULE Trace_Results ---------------------------
(* Trace spec for C19: one trace = one real engine run with scripted-error   *)
(* probe kernels (error code looked up from a table by (chain, time)), then  *)
(* everything the results / summary API reports, and round trips.            *)
(* Hdr: K, C, sched (epochs after the initial one), tbl[k][c][j], names[k],  *)
(*      books (per kernel: code -> message).                                  *)
EXTENDS Results, TraceBatch, Integers

KK == Hdr.K
CC == Hdr.C
Sched == [i \in 1..Len(Hdr.sched) |-> Cfg(Hdr.sched[i].type, Hdr.sched[i].dur, Hdr.sched[i].thin)]
Tbl == Hdr.tbl
HasPost == \E i \in 1..Len(Sched) : Sched[i].type = POST
\* every kernel class documents its own messages (Hdr.books[k]: code spelt as a string -> message)
Msg(k, code) == Hdr.books[k][ToString(code)]
Codes == {-1, 1, 2, 200}
AllMsgs == UNION {{Hdr.books[k][c] : c \in DOMAIN Hdr.books[k]} : k \in 1..KK}

TInit == BatchInit

ExpSummary ==
  {[kernel |-> Hdr.names[k], code |-> code, msg |-> Msg(k, code),
    total |-> [c \in 1..CC |-> DirectTotal(Tbl, Sched, k, code, c)],
    post  |-> [c \in 1..CC |-> DirectCount(Tbl, Sched, k, code, c, "posterior")]]
   : k \in 1..KK, code \in Codes} \cap
  {r \in [kernel : SeqToSet(Hdr.names), code : Codes, msg : AllMsgs,
          total : [1..CC -> 0..T(Sched)], post : [1..CC -> 0..T(Sched)]] :
       \E k \in 1..KK : Hdr.names[k] = r.kernel /\ r.code \in CodesOf(Tbl, Sched, k, CC)}

ExpRowsPerChain ==
  UNION {{[kernel |-> Hdr.names[k], code |-> code, msg |-> Msg(k, code), phase |-> ph, chain |-> c - 1,
           count |-> DirectCount(Tbl, Sched, k, code, c, ph)]
          : c \in 1..CC, ph \in {"warmup", "posterior"}, code \in CodesOf(Tbl, Sched, k, CC)}
         : k \in 1..KK}

RECURSIVE SumChains(_, _, _, _, _)
SumChains(k, code, ph, c, acc) ==
  IF c > CC THEN acc ELSE SumChains(k, code, ph, c + 1, acc + DirectCount(Tbl, Sched, k, code, c, ph))
ExpRowsMerged ==
  UNION {{[kernel |-> Hdr.names[k], code |-> code, msg |-> Msg(k, code), phase |-> ph,
           count |-> SumChains(k, code, ph, 1, 0)]
          : ph \in {"warmup", "posterior"}, code \in CodesOf(Tbl, Sched, k, CC)}
         : k \in 1..KK}

TResults ==
  /\ IsEvent("results")
  /\ Chk("run_completed", Ev.crash = "")
  /\ \A k \in 1..KK :
       /\ Chk("error_log_lists_exactly_the_failing_transitions",
              Ev.log_all[k].transitions = LogTransitions(Tbl, Sched, k, CC, FALSE))
       /\ Chk("error_log_codes_per_chain",
              Ev.log_all[k].codes = LogCodes(Tbl, Sched, k, CC, FALSE))
  /\ Chk("posterior_error_log_iff_posterior_epoch", Ev.log_post_none = ~HasPost)
  /\ (IF Ev.log_post_none THEN TRUE ELSE
      \A k \in 1..KK :
       /\ Chk("posterior_error_log_lists_exactly_posterior_failures",
              Ev.log_post[k].transitions = LogTransitions(Tbl, Sched, k, CC, TRUE))
       /\ Chk("posterior_error_log_codes_per_chain",
              Ev.log_post[k].codes = LogCodes(Tbl, Sched, k, CC, TRUE)))
  /\ (IF ~Ev.has_summary THEN Chk("summary_available_iff_posterior_samples", ~HasPost) ELSE
       /\ Chk("summary_counts_per_kernel_code_chain_phase_with_message",
              SeqToSet(Ev.summary) = ExpSummary /\ Len(Ev.summary) = Cardinality(ExpSummary))
       /\ Chk("error_df_per_chain_counts", SeqToSet(Ev.df_per_chain) = ExpRowsPerChain
                                            /\ Len(Ev.df_per_chain) = Cardinality(ExpRowsPerChain))
       /\ Chk("error_df_merged_counts", SeqToSet(Ev.df_merged) = ExpRowsMerged
                                         /\ Len(Ev.df_merged) = Cardinality(ExpRowsMerged))
       /\ Chk("num_chains", Ev.sample_info.num_chains = CC)
       /\ Chk("sample_size_is_number_of_stored_posterior_samples",
              /\ Ev.sample_info.sample_size_per_chain = StoredPosterior(Sched, 1)
              /\ Ev.stored_post = StoredPosterior(Sched, 1))
       /\ Chk("warmup_size_is_number_of_warmup_transitions",
              Ev.sample_info.warmup_size_per_chain = WarmupTransitions(Sched, 1)))
  /\ Chk("pickle_round_trip_preserves_all_stored_samples", Ev.dig_pickle = Ev.dig_before)
  /\ (IF ~HasPost THEN TRUE ELSE
       /\ Chk("arviz_posterior_group_is_exactly_the_posterior_samples", Ev.dig_arviz_post = Ev.dig_post)
       /\ Chk("arviz_warmup_group_is_exactly_the_warmup_samples",
              Ev.dig_arviz_warm = Ev.dig_warm))
  /\ Step

\* built-in kernels that report errors of their own (NaN ratio, NaN correction of a user-written proposal): every code
\* found in the stored transition infos is documented in the kernel's error book, and the summary lists exactly these
\* codes with the book's message and the direct per-chain counts (overall and posterior)
TBuiltin ==
  /\ IsEvent("builtin_codes")
  /\ Chk("run_and_reports_completed", Ev.crash = "")
  /\ \A i \in 1..Len(Ev.kernels) :
       LET k == Ev.kernels[i] IN
       /\ Chk("every_reported_error_code_is_documented_in_the_kernels_error_book",
              SeqToSet(k.seen) \subseteq SeqToSet(k.book))
       /\ Chk("summary_is_produced_for_a_run_with_errors", k.summary_error = "")
       /\ Chk("summary_counts_per_kernel_code_chain_phase_with_message",
              /\ Len(k.summary) = Len(k.direct)
              /\ \A j \in 1..Len(k.direct) :
                   /\ k.summary[j].code = k.direct[j].code /\ k.summary[j].msg_in_book
                   /\ k.summary[j].total = k.direct[j].total /\ k.summary[j].post = k.direct[j].post)
  /\ Step

TNext == TResults \/ TBuiltin
=============================================================================
