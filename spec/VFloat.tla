------------------------------- MODULE VFloat -------------------------------
(* IEEE-754 binary64 arithmetic for TLC.  Values are carried as strings in   *)
(* Java's Double.toString spelling ("0.25", "-Infinity", "NaN"); TLC         *)
(* integers are accepted wherever a float is expected.  Every operator below *)
(* is overridden by the Java class VFloat (same directory), which TLC loads  *)
(* as a module override.  The TLA+ bodies are placeholders that make SANY    *)
(* happy and make an un-overridden evaluation fail loudly.                   *)
EXTENDS TLC, Sequences

LOCAL NoOverride(op) == Assert(FALSE, "VFloat override class not loaded: " \o op)

FAdd(a, b)  == NoOverride("FAdd")
FSub(a, b)  == NoOverride("FSub")
FMul(a, b)  == NoOverride("FMul")
FDiv(a, b)  == NoOverride("FDiv")
FNeg(a)     == NoOverride("FNeg")
FAbs(a)     == NoOverride("FAbs")
FExp(a)     == NoOverride("FExp")
FLog(a)     == NoOverride("FLog")
FSqrt(a)    == NoOverride("FSqrt")
FPow(a, b)  == NoOverride("FPow")
FMin(a, b)  == NoOverride("FMin")     \* NaN-propagating (jnp.minimum semantics)
FMax(a, b)  == NoOverride("FMax")
FLt(a, b)   == NoOverride("FLt")      \* IEEE comparison: FALSE if either is NaN
FLe(a, b)   == NoOverride("FLe")
FEq(a, b)   == NoOverride("FEq")      \* IEEE ==  (NaN # NaN, 0.0 = -0.0)
FIsNaN(a)   == NoOverride("FIsNaN")
FIsInf(a)   == NoOverride("FIsInf")
FIsFinite(a) == NoOverride("FIsFinite")
FSame(a, b) == NoOverride("FSame")    \* same value incl. NaN = NaN, +inf = +inf
\* |a - b| <= atol + rtol * |b|, or FSame(a, b)
FClose(a, b, rtol, atol) == NoOverride("FClose")
FOfInt(i)   == NoOverride("FOfInt")   \* canonical spelling of an integer / of a float string
FToF32(a)   == NoOverride("FToF32")   \* round to float32 and back (canonical spelling)
FFloor(a)   == NoOverride("FFloor")   \* floor as TLC integer (|a| < 2^31)
=============================================================================
