-------------------------------- MODULE Groups ------------------------------
(* Group membership of nodes / variables (nodes.py:1885-2019, Model.groups   *)
(* model.py:1216-1220).  Members M = 1..NM; a group is created by            *)
(* Group(name, **members) with an ordered list of distinct members.          *)
(*                                                                           *)
(* Atomic = TRUE : a rejected constructor registers nothing (intended).      *)
(* Atomic = FALSE: as coded - the members listed before the offending one    *)
(*                 are already registered to a group object that is never    *)
(*                 returned ("ghost" group, id 0 < g recorded as -1 here).   *)
EXTENDS Integers, Sequences, FiniteSets

CONSTANTS NM, GNames, Atomic, MaxGroups

M == 1..NM
Ghost == -1
VARIABLES reg,      \* [M -> [GNames -> Int]]: 0 = not registered, g > 0 = group number, Ghost
          groups,   \* sequence of [name, members (sequence of M)]
          rej
gvars2 == <<reg, groups, rej>>

GInit == reg = [m \in M |-> [n \in GNames |-> 0]] /\ groups = <<>> /\ rej = "none"

Distinct(s) == \A i, j \in 1..Len(s) : i # j => s[i] # s[j]

\* first position whose member already belongs to a group with this name (0 = none)
FirstClash(name, ms) ==
  IF \E i \in 1..Len(ms) : reg[ms[i]][name] # 0
  THEN CHOOSE i \in 1..Len(ms) : reg[ms[i]][name] # 0 /\ \A j \in 1..(i - 1) : reg[ms[j]][name] = 0
  ELSE 0

NewGroup(name, ms) ==
  /\ Distinct(ms) /\ Len(groups) < MaxGroups
  /\ LET k == FirstClash(name, ms) IN
     IF k = 0
     THEN /\ groups' = Append(groups, [name |-> name, members |-> ms])
          /\ reg' = [m \in M |-> IF \E i \in 1..Len(ms) : ms[i] = m
                                  THEN [reg[m] EXCEPT ![name] = Len(groups) + 1] ELSE reg[m]]
          /\ rej' = "none"
     ELSE /\ rej' = "already_member" /\ UNCHANGED groups
          /\ IF Atomic THEN UNCHANGED reg
             ELSE reg' = [m \in M |-> IF \E i \in 1..(k - 1) : ms[i] = m
                                      THEN [reg[m] EXCEPT ![name] = Ghost] ELSE reg[m]]

-----------------------------------------------------------------------------
\* every registration points to an existing group of that name that lists the member
RegistrationsAreReal ==
  \A m \in M, n \in GNames : reg[m][n] # 0 =>
     /\ reg[m][n] \in 1..Len(groups)
     /\ groups[reg[m][n]].name = n
     /\ \E i \in 1..Len(groups[reg[m][n]].members) : groups[reg[m][n]].members[i] = m
\* every member of a group is registered to it
MembersAreRegistered ==
  \A g \in 1..Len(groups) : \A i \in 1..Len(groups[g].members) :
     reg[groups[g].members[i]][groups[g].name] = g
RejectedIsNoOp == [][rej' # "none" => UNCHANGED <<reg, groups>>]_gvars2
=============================================================================
