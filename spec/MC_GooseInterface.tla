-------------------------- MODULE MC_GooseInterface -------------------------
(* Every DAG on NN nodes, every up-to-date input state over two atoms, every *)
(* position over the value nodes (each value node at most once), every       *)
(* residue of the private copy (values and flags), both auto-update          *)
(* settings of the private copy: Pure, GetPut.                               *)
EXTENDS GooseInterface, TLC
CONSTANTS NN, Atoms, Kinds

RECURSIVE JoinS(_, _)
JoinS(args, i) == IF i > Len(args) THEN ""
                  ELSE (IF i > 1 THEN "," ELSE "") \o args[i] \o JoinS(args, i + 1)
ApplyStr(n, args) == IF \E i \in 1..Len(args) : args[i] \in {"!", "ERR"}      \* a poisoned argument: the function raises
                     THEN "ERR" ELSE "f" \o ToString(n) \o "(" \o JoinS(args, 1) \o ")"
DrawStr(d, r, pv) == "s"

RECURSIVE SetToSeq(_, _)
SetToSeq(S, k) == IF k = 0 THEN <<>> ELSE SetToSeq(S, k - 1) \o (IF k \in S THEN <<k>> ELSE <<>>)
Graphs ==
  {g \in [1..NN -> [k : Kinds, ins : SUBSET (1..NN)]] :
     /\ g[1].k = "v"
     /\ \A n \in 1..NN :
          /\ g[n].ins \subseteq 1..(n - 1)
          /\ (g[n].k = "v" <=> g[n].ins = {})
          /\ (g[n].k = "p" => Cardinality(g[n].ins) = 1)}

VARIABLES pos, st, priv, pauto
ivars == <<pos, st, priv, pauto>>
ValueNodes == {n \in Node : kind[n] = "v"}
StateOf(a) == \* the up-to-date state for the assignment a of atoms to the value nodes
  <<[n \in Node |-> IF Transient(n) THEN None
                    ELSE FreshUpTo(N, [m \in Node |-> IF kind[m] = "v" THEN a[m] ELSE None])[n]], Clean>>

Init ==
  /\ N = NN
  /\ ord = [i \in 1..N |-> i]
  /\ \E g \in Graphs : /\ kind = [n \in 1..NN |-> g[n].k]
                       /\ inp = [n \in 1..NN |-> SetToSeq(g[n].ins, NN)]
  /\ val = [n \in 1..NN |-> None] /\ flag = [n \in 1..NN |-> FALSE] /\ dirty = flag
  /\ auto = TRUE /\ slots = <<>> /\ evald = {} /\ raised = FALSE
  /\ \E a \in [1..NN -> Atoms] : st = StateOf(a)
  /\ \E S \in SUBSET ValueNodes : \E x \in [S -> Atoms] : pos = [i \in 1..Cardinality(S) |-> <<SetToSeq(S, NN)[i], x[SetToSeq(S, NN)[i]]>>]
  /\ \E a \in [1..NN -> Atoms], fl \in [1..NN -> BOOLEAN] : priv = <<StateOf(a)[1], fl>>
  /\ pauto \in BOOLEAN
Next == UNCHANGED <<gvars, svars, ivars>>
PureInv == Pure(pos, st, priv, pauto)
GetPutInv == GetPut(pos, st, priv, pauto)
=============================================================================
