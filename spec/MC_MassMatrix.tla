---------------------------- MODULE MC_MassMatrix ---------------------------
(* All listings (permutations) of K <= 3 keys with sizes in {1, 2}: the      *)
(* property's tuner is aligned and independent of the listing; the           *)
(* listing-order tuner (AsCoded = TRUE) is not.                              *)
EXTENDS MassMatrix, TLC
CONSTANTS AsCoded
VARIABLES K, size, listing
Perms(k) == {p \in [1..k -> 1..k] : \A i, j \in 1..k : i # j => p[i] # p[j]}
Init == /\ K \in 1..3
        /\ size \in [1..K -> {1, 2}]
        /\ listing \in Perms(K)
Next == UNCHANGED <<K, size, listing>>
V(c) == <<"regvar", c>>          \* symbolic: identifies whose history entered
Tuned == IF AsCoded THEN TuneDiagListing(listing, size, V) ELSE TuneDiag(K, size, V)
Aligned == AlignedDiag(Tuned, K, size, V)
\* independence of the listing: same result for every other listing
OrderInvariant == \A p \in Perms(K) :
   (IF AsCoded THEN TuneDiagListing(p, size, V) ELSE TuneDiag(K, size, V)) = Tuned
=============================================================================
