------------------------------- MODULE MC_Chain ------------------------------
EXTENDS Chain
DoAdvance == \E th \in Thins : AdvanceEpoch(th)
DoAppend == \E s \in Sizes : AppendChunk(s)
DoGet == \E e \in 1..NE : Get(e)
Next == DoAdvance \/ DoAppend \/ DoGet
Spec == CInit /\ [][Next]_cvars
=============================================================================
