--------------------------- MODULE MC_GooseEngine ---------------------------
(* Exhaustive config: every interleaving of append_epoch / sample_next_epoch *)
(* / sample_all_epochs over every schedule of at most MaxLen epochs drawn    *)
(* from the alphabet Types x Durs x Thins.                                   *)
EXTENDS GooseEngine
CONSTANTS Types, Durs, Thins, MaxLen, Ks, Js, Hists, NQs
Alphabet == {Cfg(INITIAL, 1, 1)} \cup {Cfg(t, d, k) : t \in Types, d \in Durs, k \in Thins}
ApiAppend(c)         == AppendEpoch(c) /\ UNCHANGED params
ApiAppendRejected(c) == AppendEpochRejected(c) /\ UNCHANGED params
ApiSampleNext        == SampleNextBegin /\ UNCHANGED params
ApiSampleNextRaises  == SampleNextRejected /\ UNCHANGED params
ApiSampleAll         == SampleAllBegin /\ UNCHANGED params
ApiSampleStuck       == SampleStuck /\ UNCHANGED params
IChunkMismatch == ChunkMismatch /\ UNCHANGED params
IStartEpoch == StartEpoch /\ UNCHANGED params
IInitialValues == InitialValues /\ UNCHANGED params
IPreStart == PreStart /\ UNCHANGED params
IChunkBegin == ChunkBegin /\ UNCHANGED params
IIterEnd == IterEnd /\ UNCHANGED params
IChunkAppend == ChunkAppend /\ UNCHANGED params
IPreEnd == PreEnd /\ UNCHANGED params
IPreTune == PreTune /\ UNCHANGED params
IFinish == Finish /\ UNCHANGED params
IReturn == Return /\ UNCHANGED params
IEndWarmup == (\E k \in Kernels : EndWarmup(k)) /\ UNCHANGED params
IKStart == (\E k \in Kernels : KStart(k)) /\ UNCHANGED params
ITransition == (\E k \in Kernels : Transition(k)) /\ UNCHANGED params
IKEnd == (\E k \in Kernels : KEnd(k)) /\ UNCHANGED params
ITune == (\E k \in Kernels : Tune(k)) /\ UNCHANGED params
Init == /\ K \in Ks /\ J \in Js /\ NeedsHist \in {h \in Hists : h \subseteq 1..K} /\ NQ \in NQs
        /\ EInit
Next == \/ \E c \in Alphabet : ApiAppend(c)
        \/ \E c \in Alphabet : ApiAppendRejected(c)
        \/ ApiSampleNext \/ ApiSampleNextRaises \/ ApiSampleAll \/ ApiSampleStuck \/ IChunkMismatch
        \/ IStartEpoch \/ IInitialValues \/ IPreStart \/ IChunkBegin \/ IIterEnd
        \/ IChunkAppend \/ IPreEnd \/ IPreTune \/ IFinish \/ IReturn
        \/ IEndWarmup \/ IKStart \/ ITransition \/ IKEnd \/ ITune
LenBound == Len(cfgs) <= MaxLen

\* --- liveness: a sampling call always returns, and sample_all_epochs consumes every epoch ----
\* (appends are bounded by an enabling condition, not by a state constraint, so that TLC's
\* liveness check is sound)
NextL == \/ (Len(cfgs) < MaxLen /\ \E c \in Alphabet : ApiAppend(c))
         \/ ApiSampleNext \/ ApiSampleAll
         \/ IStartEpoch \/ IInitialValues \/ IPreStart \/ IChunkBegin \/ IIterEnd
         \/ IChunkAppend \/ IPreEnd \/ IPreTune \/ IFinish \/ IReturn
         \/ IEndWarmup \/ IKStart \/ ITransition \/ IKEnd \/ ITune
InternalL == IStartEpoch \/ IInitialValues \/ IPreStart \/ IChunkBegin \/ IIterEnd
             \/ IChunkAppend \/ IPreEnd \/ IPreTune \/ IFinish \/ IReturn
             \/ IEndWarmup \/ IKStart \/ ITransition \/ IKEnd \/ ITune
SpecL == Init /\ [][NextL]_vars /\ WF_vars(InternalL)
SamplingCallReturns == (mode # "none") ~> (mode = "none")
SampleAllConsumesEverything == (mode = "all") ~> (mode = "none" /\ ~HasMore)
=============================================================================
