------------------------------- MODULE Results ------------------------------
(* Error and sample book-keeping of SamplingResults / Summary (engine.py     *)
(* :245-283, summary_m.py:36-92, 196-260, 360-414).                          *)
(*                                                                           *)
(* tbl[k][c][j] = error code kernel k returned in chain c at transition j    *)
(* (j = 1..T over all epochs after the initial one); sched = sequence of     *)
(* epoch configs after the initial epoch.                                    *)
(* `Direct*` operators are written from the property text; `Log*`/`Sum*`     *)
(* follow the code's derivation (mask of transitions where any chain erred,  *)
(* per-code counts over the masked columns, warm-up = total - posterior).    *)
EXTENDS EpochRules

RECURSIVE PhaseSeq(_, _)
\* per transition: "posterior" / "warmup"
PhaseSeq(sched, i) ==
  IF i > Len(sched) THEN <<>>
  ELSE [j \in 1..sched[i].dur |-> IF sched[i].type = POST THEN "posterior" ELSE "warmup"]
       \o PhaseSeq(sched, i + 1)
Phases(sched) == PhaseSeq(sched, 1)
T(sched) == Len(Phases(sched))

\* --- from the property text --------------------------------------------------
DirectCount(tbl, sched, k, code, c, phase) ==
  Cardinality({j \in 1..T(sched) : tbl[k][c][j] = code /\ Phases(sched)[j] = phase})
DirectTotal(tbl, sched, k, code, c) ==
  Cardinality({j \in 1..T(sched) : tbl[k][c][j] = code})
CodesOf(tbl, sched, k, C) ==
  {tbl[k][c][j] : c \in 1..C, j \in 1..T(sched)} \ {0}

\* --- the code's derivation -----------------------------------------------------
\* get_error_log: transitions (0-based) where any chain has a non-zero code
RECURSIVE Filter(_, _, _)
Filter(P(_), n, j) == IF j > n THEN <<>> ELSE (IF P(j) THEN <<j>> ELSE <<>>) \o Filter(P, n, j + 1)

Masked(tbl, sched, k, C, postOnly) ==
  Filter(LAMBDA j : /\ (\E c \in 1..C : tbl[k][c][j] # 0)
                    /\ (postOnly => Phases(sched)[j] = "posterior"), T(sched), 1)

LogCodes(tbl, sched, k, C, postOnly) ==
  LET m == Masked(tbl, sched, k, C, postOnly) IN
  [c \in 1..C |-> [i \in 1..Len(m) |-> tbl[k][c][m[i]]]]

\* index of transition j within the stream the log refers to (0-based): all
\* transitions, or only the posterior ones
RECURSIVE PostIndex(_, _)
PostIndex(sched, j) ==
  IF j = 0 THEN 0 ELSE PostIndex(sched, j - 1) + (IF Phases(sched)[j] = "posterior" THEN 1 ELSE 0)
LogTransitions(tbl, sched, k, C, postOnly) ==
  LET m == Masked(tbl, sched, k, C, postOnly) IN
  [i \in 1..Len(m) |-> IF postOnly THEN PostIndex(sched, m[i]) - 1 ELSE m[i] - 1]

SumOver(row, code) == Cardinality({i \in 1..Len(row) : row[i] = code})
SummaryTotal(tbl, sched, k, C, code, c) == SumOver(LogCodes(tbl, sched, k, C, FALSE)[c], code)
SummaryPost(tbl, sched, k, C, code, c)  == SumOver(LogCodes(tbl, sched, k, C, TRUE)[c], code)
SummaryWarm(tbl, sched, k, C, code, c)  ==
  SummaryTotal(tbl, sched, k, C, code, c) - SummaryPost(tbl, sched, k, C, code, c)

\* --- conservation: the derivation reports exactly the direct counts --------------
Conservation(tbl, sched, K, C) ==
  \A k \in 1..K : \A c \in 1..C : \A code \in CodesOf(tbl, sched, k, C) :
    /\ SummaryTotal(tbl, sched, k, C, code, c) = DirectTotal(tbl, sched, k, code, c)
    /\ SummaryPost(tbl, sched, k, C, code, c) = DirectCount(tbl, sched, k, code, c, "posterior")
    /\ SummaryWarm(tbl, sched, k, C, code, c) = DirectCount(tbl, sched, k, code, c, "warmup")

\* --- sample counts -------------------------------------------------------------------
RECURSIVE StoredPosterior(_, _)
StoredPosterior(sched, i) ==
  IF i > Len(sched) THEN 0
  ELSE (IF sched[i].type = POST THEN sched[i].dur \div sched[i].thin ELSE 0) + StoredPosterior(sched, i + 1)
RECURSIVE WarmupTransitions(_, _)
WarmupTransitions(sched, i) ==
  IF i > Len(sched) THEN 0
  ELSE (IF sched[i].type # POST THEN sched[i].dur ELSE 0) + WarmupTransitions(sched, i + 1)
=============================================================================
