---------------------------- MODULE Trace_Interface -------------------------
(* Trace spec for C03.  One trace = one interface object over one real model *)
(* under a history of calls.  Symbolic regime (LieselInterface over models   *)
(* whose node functions build term strings): every state that is passed in   *)
(* or returned is kept in a pool, so later calls can take states returned by *)
(* earlier calls, and the very same state object can be passed twice.        *)
(* Hdr: n, kind, inp (construction plan), dists / flags as in Trace_LogProb. *)
EXTENDS GooseInterface, TraceBatch, TLC, VFloat

RECURSIVE JoinS(_, _)
JoinS(args, i) == IF i > Len(args) THEN ""
                  ELSE (IF i > 1 THEN "," ELSE "") \o args[i] \o JoinS(args, i + 1)
ApplyStr(n, args) == IF \E i \in 1..Len(args) : args[i] \in {"!", "ERR"}      \* a poisoned argument: the function raises
                     THEN "ERR" ELSE "f" \o ToString(n) \o "(" \o JoinS(args, 1) \o ")"
DrawStr(d, r, pv) == "s"

VARIABLE pool
BagOfSeq(s) == [v \in SeqToSet(s) |-> Cardinality({i \in 1..Len(s) : s[i] = v})]

TInit ==
  /\ BatchInit
  /\ N = Hdr.n /\ kind = Hdr.kind /\ inp = Hdr.inp /\ ord = [i \in 1..Hdr.n |-> i]
  /\ val = Hdr.init /\ flag = [i \in 1..Hdr.n |-> FALSE] /\ dirty = flag
  /\ auto = TRUE /\ slots = <<>> /\ evald = {} /\ raised = FALSE
  /\ pool = <<>>

Same == UNCHANGED <<gvars, svars>>

TState ==
  /\ IsEvent("state")
  /\ Chk("states_handed_to_the_interface_are_up_to_date", UpToDate(<<Ev.raw_val, Ev.raw_outd>>))
  /\ pool' = Append(pool, <<Ev.raw_val, Ev.raw_outd>>)
  /\ Same /\ Step

Pos == [i \in 1..Len(Ev.pos) |-> <<Ev.pos[i][1], Ev.pos[i][2]>>]

TUpdateState ==
  /\ IsEvent("update_state")
  /\ LET ref == Ref(Pos, pool[Ev.st]) IN
     /\ Chk("extra_state_information_of_user_defined_nodes_is_carried_over", Ev.extras_kept)
     /\ Chk("returns_state_of_direct_assignment_plus_full_update",
            \A i \in Node : Ev.ret_val[i] = Eff(ref[1])[i])
     /\ Chk("returned_state_is_fully_up_to_date", \A i \in Node : Ev.ret_outd[i] = Outd(ref[2])[i])
     /\ Chk("result_equals_fresh_interface_and_direct_assignment",
            Ev.ret_val = Ev.fresh_val /\ Ev.ret_val = Ev.direct_val)
     /\ Chk("extract_returns_the_position", Ev.extracted = [i \in 1..Len(Ev.pos) |-> Ev.pos[i][2]])
     /\ Chk("input_state_not_modified", Ev.arg_unchanged)
     /\ Chk("users_model_not_modified", Ev.user_unchanged)
     /\ Chk("log_prob_of_returned_state_equals_models", BagOfSeq(Ev.lp) = BagOfSeq(Ev.direct_lp))
  /\ pool' = Append(pool, <<Ev.raw_val, Ev.raw_outd>>)
  /\ Same /\ Step

TExtract ==
  /\ IsEvent("extract")
  /\ Chk("extract_reads_the_state", Ev.values = Extract(Ev.keys, pool[Ev.st]))
  /\ UNCHANGED pool /\ Same /\ Step

\* the user mutates their own model between calls: nothing the interface does may depend on it
\* a call that may have failed half-way (a node function raised): nothing observable changes, and - checked by the
\* events that follow - later calls are unaffected by whatever it left in the interface's private model
TFailedCall ==
  /\ IsEvent("failed_call")
  /\ Chk("failed_call_leaves_argument_state_unchanged", Ev.arg_unchanged)
  /\ Chk("failed_call_leaves_users_model_unchanged", Ev.user_unchanged)
  /\ UNCHANGED pool /\ Same /\ Step

\* an interface that cannot be created (something in the model cannot be copied) leaves the user's model alone
TFailedConstruction ==
  /\ IsEvent("failed_construction")
  /\ Chk("users_model_unchanged_by_a_failed_interface_construction", ~Ev.raised \/ Ev.user_unchanged)
  /\ UNCHANGED pool /\ Same /\ Step

TUserAssign == IsEvent("user_assign") /\ UNCHANGED pool /\ Same /\ Step

\* --- numeric regime: eager / jit / vmap / direct assignment ---------------------------------
Close(a, b) == FClose(a, b, "2e-5", "2e-5")
CloseSeq(s, t) == Len(s) = Len(t) /\ \A i \in 1..Len(s) : Close(s[i], t[i])
TNumeric ==
  /\ IsEvent("numeric")
  /\ Chk("eager_equals_direct_assignment_on_the_model", CloseSeq(Ev.eager, Ev.direct))
  /\ Chk("jit_equals_eager", CloseSeq(Ev.jit, Ev.eager))
  /\ Chk("vmap_equals_stacked_eager", \A b \in 1..Len(Ev.vmap) : CloseSeq(Ev.vmap[b], Ev.eager_batch[b]))
  /\ Chk("second_call_with_same_arguments_gives_same_result", Ev.eager_again = Ev.eager)
  /\ Chk("result_does_not_depend_on_what_the_users_model_holds", Ev.same_after_user_change)
  /\ Chk("input_state_not_modified", Ev.arg_unchanged)
  /\ Chk("users_model_not_modified", Ev.user_unchanged)
  /\ Chk("extract_returns_the_position", CloseSeq(Ev.extracted, Ev.pos_vals))
  /\ UNCHANGED pool /\ Same /\ Step

\* --- dict / dataclass / named-tuple interfaces: put/get and non-mutation laws ----------------
TPlain ==
  /\ IsEvent("plain")
  /\ Chk("update_is_functional_override_of_the_position_keys",
         \A k \in DOMAIN Ev.before :
            Ev.ret[k] = (IF k \in SeqToSet(Ev.keys) THEN Ev.pos[k] ELSE Ev.before[k]))
  /\ Chk("input_state_not_modified", Ev.after = Ev.before)
  /\ Chk("extract_returns_the_position", \A k \in SeqToSet(Ev.keys) : Ev.extracted[k] = Ev.pos[k])
  /\ Chk("extract_returns_what_the_state_holds", Ev.extracted_all = Ev.before)
  /\ Chk("log_prob_reads_the_state", Ev.lp = Ev.expected_lp)
  /\ UNCHANGED pool /\ Same /\ Step

\* the dataclass interface under jit and vmap: what comes back is what the eager call returns
TDataclassJit ==
  /\ IsEvent("dataclass_jit")
  /\ Chk("dataclass_state_crosses_jit_and_vmap_completely",
         /\ Ev.crash = "" /\ Ev.jit = Ev.eager /\ Ev.vmap_first = Ev.eager /\ Ev.eager.ybar # "missing"
         /\ Close(Ev.jit_lp, Ev.eager_lp))
  /\ UNCHANGED pool /\ Same /\ Step

TNext == TDataclassJit \/ TFailedConstruction \/ TState \/ TFailedCall \/ TUpdateState \/ TExtract \/ TUserAssign \/ TNumeric \/ TPlain
=============================================================================
