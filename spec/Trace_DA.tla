------------------------------ MODULE Trace_DA ------------------------------
(* Trace spec for step-size adaptation (C11).  One trace = the protocol      *)
(* calls one kernel received in one chain (wrapping probe), or a direct      *)
(* sequence of da_init / da_step / da_finalize calls.  Every event carries   *)
(* the tuning state before and after the call, as tuples                     *)
(* <<step_size, error_sum, log_avg_step_size, mu>> of float spellings.       *)
(*                                                                           *)
(* One-step consistency: the successor is computed by the spec from the      *)
(* *logged* predecessor, and the logged predecessor must be bit-identical to *)
(* the previous logged successor, so float error never accumulates.          *)
(* Hdr: g (constants), tunes (kernel applies da_step in adaptation epochs),  *)
(*      hasmm (kernel also tunes a mass matrix: tune may rescale step size), *)
(*      rtol, atol.                                                          *)
EXTENDS DualAveraging, EpochRules, TraceBatch

VARIABLES ks,     \* last observed tuning state (tuple), <<>> before the first event
          tcount  \* transitions of the current epoch seen so far

R(x) == [eps |-> x[1], H |-> x[2], lavg |-> x[3], mu |-> x[4]]
Cl(x, r) == Same(R(x), r, Hdr.rtol, Hdr.atol)
G == Hdr.g

TInit == BatchInit /\ ks = <<>> /\ tcount = 0

Cont == Chk("pre_state_is_previous_post_state", ks = <<>> \/ Ev.pre = ks)
Adopt == ks' = Ev.post /\ UNCHANGED tcount
AdoptT(t) == ks' = Ev.post /\ tcount' = t

TInitState ==
  /\ IsEvent("init_state")
  /\ Chk("fresh_state_is_da_init", Cl(Ev.post, DAInit(R(Ev.post))))
  \* a step size given to the constructor is the one the kernel starts with, in every chain
  /\ Chk("initial_step_size_is_the_configured_one",
         "eps0" \notin DOMAIN Hdr \/ FClose(Ev.post[1], Hdr.eps0, "1e-6", "0.0"))
  /\ Adopt /\ Step

TStart ==
  /\ IsEvent("start_epoch") /\ Cont
  /\ Chk("start_epoch_restarts_from_current_step_size",
         Ev.post[1] = Ev.pre[1] /\ Cl(Ev.post, DAInit(R(Ev.pre))))
  /\ AdoptT(0) /\ Step

TTrans ==
  /\ IsEvent("transition") /\ Cont
  \* the iteration number of the recurrence is the number of the transition within the epoch (however the epoch
  \* is cut into chunks), and what is averaged is a probability
  /\ Chk("time_in_epoch_counts_the_transitions_of_the_epoch", Ev.tie = tcount)
  /\ Chk("acceptance_probability_fed_to_dual_averaging_is_a_probability",
         \* (NUTS reports an average over the trajectory that exceeds 1 by float32 rounding: 1.0000001)
         FLe("0.0", Ev.acc) /\ FLe(Ev.acc, "1.00001"))
  /\ IF IsAdapt(Ev.etype) /\ Hdr.tunes
     THEN Chk("adaptive_transition_is_da_step",
              Cl(Ev.post, DAStep(R(Ev.pre), Ev.acc, tcount, G)))
     ELSE Chk("tuning_frozen_outside_adaptation", Ev.post = Ev.pre)
  /\ AdoptT(tcount + 1) /\ Step

TEnd ==
  /\ IsEvent("end_epoch") /\ Cont
  /\ Chk("end_epoch_adopts_averaged_step_size",
         Cl(Ev.post, DAFinalize(R(Ev.pre))) /\ Ev.post[2] = Ev.pre[2]
         /\ Ev.post[3] = Ev.pre[3] /\ Ev.post[4] = Ev.pre[4])
  /\ Adopt /\ Step

TTune ==
  /\ IsEvent("tune") /\ Cont
  /\ Chk("tune_only_in_adaptation_epochs", IsAdapt(Ev.etype))
  /\ Chk("tune_leaves_dual_averaging_state",
         /\ Ev.post[2] = Ev.pre[2] /\ Ev.post[3] = Ev.pre[3] /\ Ev.post[4] = Ev.pre[4]
         /\ (Hdr.hasmm /\ Ev.etype = SLOW) \/ Ev.post[1] = Ev.pre[1])
  /\ Adopt /\ Step

TEndWarmup ==
  /\ IsEvent("end_warmup") /\ Cont
  /\ Chk("end_warmup_leaves_tuning_state", Ev.post = Ev.pre)
  /\ Adopt /\ Step

TNext == TInitState \/ TStart \/ TTrans \/ TEnd \/ TTune \/ TEndWarmup
=============================================================================
