---------------------------- MODULE MC_LieselBuild --------------------------
(* Instance: four user objects, 1 <- 2 <- 3 (3 unnamed), 4 seeded and an     *)
(* input of 3; all sequences of add / build(copy) / rename attempt / pop /   *)
(* copy / assign with at most MaxModels models.                              *)
EXTENDS LieselBuild
UIn1 == <<{}, {1}, {2, 4}, {}>>
Names1 == <<"a", "b", "", "s">>
UIn3 == <<{}, {1, 3}, {}>>          \* three objects: a <- (unnamed) -> s (seeded)
Names3 == <<"a", "", "s">>
UInCyc == <<{3}, {1}, {2}, {}>>     \* deliberately cyclic: 1 <- 2 <- 3 <- 1
Next ==
  \/ \E o \in U : Add(o)
  \/ \E c \in BOOLEAN : Build(c)
  \/ \E o \in U : Rename(o, "z")
  \/ \E m \in 1..MaxModels : Pop(m)
  \/ \E m \in 1..MaxModels : CopyModel(m)
  \/ \E m \in 1..MaxModels : DropModel(m)
  \/ \E m \in 1..MaxModels, x \in Atoms : AssignIn(m, 1, x)
\* a rejected operation leaves everything but `rej` (and, for a rejected build, the
\* filled-in names) unchanged
FrozenA == [][\A o \in U, s \in {"a", "z"} : (Rename(o, s) /\ owner[o] # 0) =>
                 UNCHANGED <<name, owner, seedin, gb, models, nmodels, popped, snap, uval, rt>>]_bvars
\* assignment in one model never changes another model
IndependentA == [][\A m \in 1..MaxModels, o \in U, x \in Atoms : AssignIn(m, o, x) =>
                      \A m2 \in 1..MaxModels : m2 # m => models'[m2] = models[m2]]_bvars
CycleRejected == ~(\E m \in Alive : Cyclic(models[m].objs))
Spec == BInit /\ [][Next]_bvars
=============================================================================
