------------------------------ MODULE MC_Groups -----------------------------
EXTENDS Groups
Seqs == UNION {[1..k -> M] : k \in 1..NM}
DoNewGroup == \E n \in GNames, ms \in Seqs : NewGroup(n, ms)
Next == DoNewGroup
Spec == GInit /\ [][Next]_gvars2
=============================================================================
