-------------------------- MODULE Trace_VFloatSelf --------------------------
(* Self-test of the VFloat override against values computed by Python.      *)
EXTENDS TraceBatch, VFloat
TInit == BatchInit
TF == /\ IsEvent("f")
      /\ Chk("add", FSame(FAdd(Ev.a, Ev.b), Ev.add))
      /\ Chk("sub", FSame(FSub(Ev.a, Ev.b), Ev.sub))
      /\ Chk("mul", FSame(FMul(Ev.a, Ev.b), Ev.mul))
      /\ Chk("exp", FClose(FExp(Ev.a), Ev.exp, "1e-15", "0.0"))
      /\ Chk("min", FSame(FMin(Ev.a, Ev.b), Ev.min))
      /\ Chk("lt", FLt(Ev.a, Ev.b) = Ev.lt)
      /\ Chk("le", FLe(Ev.a, Ev.b) = Ev.le)
      /\ Chk("nan", FIsNaN(Ev.a) = Ev.nan)
      /\ Step
TNext == TF
=============================================================================
