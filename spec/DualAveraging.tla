--------------------------- MODULE DualAveraging ----------------------------
(* liesel.goose.da (da.py:40-99): Nesterov dual averaging of the step size   *)
(* as in Hoffman & Gelman (2014) / Stan.  A tuning state is a record         *)
(*   [eps, H, lavg, mu]  = step_size, error_sum, log_avg_step_size, mu       *)
(* of IEEE floats (VFloat).  Constants of a kernel: g = [target, gamma,      *)
(* kappa, t0].                                                               *)
EXTENDS VFloat, Naturals

DAInit(k) == [eps  |-> k.eps,
              H    |-> "0.0",
              lavg |-> FLog(k.eps),
              mu   |-> FLog(FMul("10.0", k.eps))]

\* tin = number of completed iterations in this epoch (time_in_epoch)
DAStep(k, acc, tin, g) ==
  LET t   == tin + 1
      H2  == FAdd(k.H, FSub(g.target, acc))
      ls  == FSub(k.mu, FDiv(FMul(H2, FSqrt(t)), FMul(g.gamma, FAdd(g.t0, t))))
      eta == FPow(t, FNeg(g.kappa))
  \* (the step size is held in single precision: far from the averaged value the exponential leaves its range and
  \* the iterate is +Infinity or 0 - the recurrence goes on with the logarithms, which stay finite)
  IN [eps  |-> FToF32(FExp(ls)),
      H    |-> H2,
      lavg |-> FAdd(FMul(FSub("1.0", eta), k.lavg), FMul(eta, ls)),
      mu   |-> k.mu]

DAFinalize(k) == [k EXCEPT !.eps = FToF32(FExp(k.lavg))]

\* field-wise closeness of two tuning states (float32 code vs double spec)
Same(a, b, rtol, atol) ==
  /\ FClose(a.eps, b.eps, rtol, atol)
  /\ FClose(a.H, b.H, rtol, atol)
  /\ FClose(a.lavg, b.lavg, rtol, atol)
  /\ FClose(a.mu, b.mu, rtol, atol)

\* bit-identical (string) equality is plain `=` on the records

(* Monotonicity: a higher observed acceptance probability never yields a     *)
(* smaller next step size (nor a smaller averaged step size).                *)
Monotone(k, a1, a2, tin, g) ==
  FLe(a1, a2) =>
    /\ FLe(DAStep(k, a1, tin, g).eps, DAStep(k, a2, tin, g).eps)
    /\ FLe(DAStep(k, a1, tin, g).lavg, DAStep(k, a2, tin, g).lavg)
=============================================================================
