---------------------------- MODULE Trace_Epochs ----------------------------
(* Trace spec binding Epochs.tla / EpochRules.tla to the real EpochManager,  *)
(* stan_epochs and EngineBuilder (C16).  One trace = one manager history:    *)
(* interleaved append / next / has_more calls, optionally preceded by the    *)
(* stan_epochs call that produced the configs, optionally followed by the    *)
(* chunk length the builder chose for them.                                  *)
EXTENDS Epochs, TraceBatch

ToCfg(r)  == Cfg(r.type, r.dur, r.thin)
ToCfgs(q) == [i \in 1..Len(q) |-> ToCfg(q[i])]

TInit == BatchInit /\ MInit

Invs == /\ Chk("inv_schedule_valid", Valid(cfgs'))
        /\ Chk("inv_start_times_add_up", nextStart' = SumDur(cfgs', 1, ptr'))
        /\ Chk("inv_consecutive_indices", ptr' \in 0..Len(cfgs'))

TAppend ==
  /\ IsEvent("append")
  /\ LET c == ToCfg(Ev.c) IN
     /\ Chk("accepted_iff_valid", Ev.accepted = Valid(Append(cfgs, c)))
     /\ Chk("accepted_iff_code_rule", Ev.accepted = Accepts(cfgs, c))
     /\ Chk("invalid_epoch_is_refused_with_the_documented_error",
            Ev.accepted \/ "exc" \notin DOMAIN Ev \/ Ev.exc = "RuntimeError")
     /\ IF Ev.accepted THEN MAppend(c) ELSE MAppendRejected(c)
  /\ Chk("configs_observed", Ev.n = Len(cfgs'))
  /\ Invs /\ Step

TNextEpoch ==
  /\ IsEvent("next")
  /\ IF Ev.ok
     THEN /\ Chk("next_only_if_has_more", HasMore)
          /\ Chk("index_consecutive", Ev.idx = Handed.idx)
          /\ Chk("start_time_is_sum_of_durations",
                 Ev.start = Handed.start /\ Ev.time = Handed.start /\ Ev.tie = 0)
          /\ Chk("config_is_the_appended_one", ToCfg(Ev.c) = Handed.cfg)
          /\ MNext
     ELSE /\ Chk("raises_only_when_exhausted", ~HasMore)
          /\ MNextRejected
  /\ Invs /\ Step

THasMore ==
  /\ IsEvent("has_more")
  /\ Chk("has_more", Ev.ret = HasMore)
  /\ UNCHANGED mvars /\ Step

TStan ==
  /\ IsEvent("stan")
  /\ LET a == Ev.args IN
     \* through EngineBuilder.set_duration the schedule is also fed to an EpochManager, which rejects invalid ones
     /\ Chk("schedule_refused_only_with_the_documented_errors", "unexpected" \notin DOMAIN Ev \/ Ev.unexpected = "")
     /\ Chk("stan_raises_iff_documented",
            Ev.raised = (IF StanRaises(a) THEN TRUE ELSE Ev.via_builder /\ ~Valid(Stan(a))))
     /\ (IF Ev.raised THEN TRUE ELSE
          LET s == ToCfgs(Ev.out) IN
          /\ Chk("stan_output_is_spec_function", s = Stan(a))
          /\ Chk("stan_valid_if_admissible", StanAdmissibleFor(a, s) => Valid(s))
          /\ Chk("stan_warmup_sums_to_request", StanAdmissibleFor(a, s) => StanSums(a, s))
          /\ Chk("stan_pattern", StanAdmissibleFor(a, s) => StanPattern(a, s))
          /\ Chk("stan_admissible_as_reported", Ev.admissible = StanAdmissibleFor(a, s)))
  /\ UNCHANGED mvars /\ Step

TChunk ==
  /\ IsEvent("chunk")
  /\ Chk("chunk_schedule_is_managers", ToCfgs(Ev.cfgs) = cfgs)
  /\ Chk("chunk_divides_every_duration", ChunkDivides(cfgs, Ev.chunk))
  /\ UNCHANGED mvars /\ Step

TNext == TAppend \/ TNextEpoch \/ THasMore \/ TStan \/ TChunk
=============================================================================
