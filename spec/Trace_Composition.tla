-------------------------- MODULE Trace_Composition -------------------------
(* Trace spec for C09 with real kernels.  One trace = the transitions of one *)
(* chain, in configured order per iteration; every event carries all         *)
(* parameters before and after the call (flat vector of float spellings),    *)
(* the derived quantities carried in the returned model state, and the same  *)
(* derived quantities recomputed from scratch from the recorded parameters   *)
(* on the user's own model.  Hdr: N, own (per kernel: indices of its block), *)
(* order, mh_like (kernel rejects by returning its input state).             *)
EXTENDS Naturals, Sequences, FiniteSets, VFloat, TraceBatch

VARIABLES p, turn      \* parameters left by the previous kernel; position in the order

K == Len(Hdr.order)
TInit == BatchInit /\ p = <<>> /\ turn = 1

TTransition ==
  /\ IsEvent("transition")
  /\ Chk("kernels_run_in_configured_order", Ev.k = Hdr.order[turn])
  /\ Chk("starts_from_state_left_by_predecessor", p = <<>> \/ Ev.before = p)
  /\ Chk("changes_only_its_own_block",
         \A i \in 1..Hdr.N : i \notin SeqToSet(Hdr.own[Ev.k]) => Ev.after[i] = Ev.before[i])
  /\ Chk("rejected_transition_returns_input_parameters",
         (Hdr.mh_like[Ev.k] /\ Ev.moved = 0) => Ev.after = Ev.before)
  /\ Chk("derived_quantities_equal_recomputation_from_stored_parameters",
         /\ Len(Ev.derived) = Len(Ev.recomputed)
         /\ \A j \in 1..Len(Ev.derived) : FClose(Ev.derived[j], Ev.recomputed[j], "2e-5", "2e-5"))
  \* the same against a float64 closed form that involves no liesel object (float32 model: looser tolerance)
  /\ Chk("derived_quantities_equal_closed_form_of_stored_parameters",
         /\ Len(Ev.derived) = Len(Ev.closed_form)
         /\ \A j \in 1..Len(Ev.derived) : FClose(Ev.derived[j], Ev.closed_form[j], "3e-4", "3e-4"))
  /\ p' = Ev.after
  /\ turn' = (IF turn = K THEN 1 ELSE turn + 1)
  /\ Step

TNext == TTransition
=============================================================================
