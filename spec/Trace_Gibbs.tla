------------------------------ MODULE Trace_Gibbs ---------------------------
(* Trace spec for C13.  Events:                                              *)
(*  "tau2": one transition of the real tau2_gibbs_kernel on a DistRegBuilder *)
(*     model: current a, b, rank, q = beta'K beta (float64, driver), the     *)
(*     model's joint log-density on a grid of tau2 values (through the       *)
(*     driver's own interface), the draw, the replay of the Gamma draw for   *)
(*     the spec's shape, and the verdict of the distribution-free guard      *)
(*     (KS over fresh keys against IG(shape, scale)) - the guard can only    *)
(*     suppress an alarm, never raise one.                                   *)
(*  "discrete": one transition of finite_discrete_gibbs_kernel: outcomes,    *)
(*     the model's log-probability at each outcome, the draw, the replay of  *)
(*     the categorical draws (64 keys) and the verdict of the guard (exact   *)
(*     multinomial / chi-square over fresh keys at p < 1e-9).                *)
EXTENDS Gibbs, TraceBatch

TInit == BatchInit

TTau2 ==
  /\ IsEvent("tau2")
  /\ LET ag == IGShape(Ev.a, Ev.rank)
         bg == IGScale(Ev.b, Ev.q)
     IN
     /\ Chk("conditional_is_proportional_to_model_density_in_tau2",
            CondMatchesModel(ag, bg, Ev.grid, Ev.model_lp, "2e-3", "2e-3"))
     /\ Chk("draw_is_positive", FLt("0.0", Ev.draw))
     /\ Chk("draw_is_from_the_inverse_gamma_full_conditional",
            IsIGDraw(Ev.draw, Ev.gamma_replay, bg, "1e-4") \/ ~Ev.guard_rejects)
     /\ Chk("same_key_scaled_scale_gives_scaled_draw",
            FClose(FDiv(Ev.draw_scaled, Ev.draw), FDiv(IGScale(Ev.b, Ev.q_scaled), bg), "1e-4", "0.0")
            \/ ~Ev.guard_rejects)
  /\ Step

TDiscrete ==
  /\ IsEvent("discrete")
  /\ Chk("draws_are_outcomes", \A i \in 1..Len(Ev.draws) : \E k \in 1..Len(Ev.outcomes) : Ev.outcomes[k] = Ev.draws[i])
  /\ Chk("draws_are_from_the_categorical_full_conditional",
         Ev.draws = Ev.draws_replay \/ ~Ev.guard_rejects)
  /\ Chk("conditional_probabilities_are_a_distribution",
         \A k \in 1..Len(Ev.outcomes) : FLe("0.0", CondProb(Ev.logits, k)) /\ FLe(CondProb(Ev.logits, k), "1.0"))
  /\ Step

TNext == TTau2 \/ TDiscrete
=============================================================================
