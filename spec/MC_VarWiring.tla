---------------------------- MODULE MC_VarWiring ----------------------------
(* Exhaustive exploration of VarWiring: every history of the setters over a  *)
(* few vars / free nodes / names.  The history variable `last` names the     *)
(* operation (for the replay of TLC behaviours on real liesel objects).      *)
EXTENDS VarWiring

VARIABLE last
Kind3 == <<"val", "dist", "dist">>
Kind2 == <<"val", "dist">>
Init == WInit /\ last = <<"init">>
DoSetValueNode == \E v \in V, n \in Nd : SetValueNode(v, n) /\ last' = <<"set_value_node", v, n>>
DoSetDistNode == \E v \in V, d \in Free \cup {0} : SetDistNode(v, d) /\ last' = <<"set_dist_node", v, d>>
DoSetAt == \E d \in Free, w \in V \cup {0} : SetAt(d, w) /\ last' = <<"set_at", d, w>>
DoSetVarName == \E v \in V, s \in Names : SetVarName(v, s) /\ last' = <<"set_var_name", v, s>>
DoSetNodeName == \E n \in Nd, s \in Names : SetNodeName(n, s) /\ last' = <<"set_node_name", n, s>>
Next == DoSetValueNode \/ DoSetDistNode \/ DoSetAt \/ DoSetVarName \/ DoSetNodeName
Spec == Init /\ [][Next]_<<wvars, last>>
View == wvars
Depth == TLCGet("level") <= 12
=============================================================================
