------------------------------- MODULE Transform ----------------------------
(* Var.transform / auto-transform at build / deprecated GraphBuilder.        *)
(* transform (nodes.py:1127-1289, 1577-1666; model.py:63-83, 466-474,        *)
(* 716-932): change of variables.                                            *)
(*                                                                           *)
(* Values are symbolic terms (tuples): <<"atom", a>>, <<"inv", b, x>>,       *)
(* <<"fwd", b, t>> with the rewrite fwd(b, inv(b, x)) = x.  A variable is a  *)
(* record [val, dist, param, obs, weak, via, bij]: dist is the name of its   *)
(* distribution or "none"; for a transformed (original) variable `via` names *)
(* the new unconstrained variable and `bij` the bijector.                    *)
EXTENDS Naturals, Sequences, FiniteSets

CONSTANTS Names, Bijectors, Atoms, InitVars

VARIABLES vars,      \* [name -> record] for existing variables
          rej        \* outcome of the last operation
tvars == <<vars, rej>>

Atom(a) == <<"atom", a>>
Inv(b, x) == <<"inv", b, x>>
Fwd(b, t) == IF Len(t) = 3 /\ t[1] = "inv" /\ t[2] = b THEN t[3] ELSE <<"fwd", b, t>>
TName(v) == v \o "_transformed"

\* log-density of the new variable at t: original log-density at b(t) plus log|det db/dt|
NewLogDensity(d, b, t) == <<"plus", <<"lp", d, Fwd(b, t)>>, <<"fldj", b, t>>>>
LogDensity(v) ==
  IF vars[v].dist = "none" THEN <<"zero">>
  ELSE IF vars[v].tdist THEN NewLogDensity(vars[v].dist, vars[v].bij, vars[v].val)
  ELSE <<"lp", vars[v].dist, vars[v].val>>

TInit0 == vars = InitVars /\ rej = "none"

Transform(v, b) ==
  /\ v \in DOMAIN vars
  /\ IF vars[v].weak THEN rej' = "weak" /\ UNCHANGED vars
     ELSE IF vars[v].dist = "none" THEN rej' = "no_distribution" /\ UNCHANGED vars
     ELSE IF TName(v) \in DOMAIN vars THEN rej' = "name_taken" /\ UNCHANGED vars
     \* a bijector that cannot be constructed (wrong arguments, ...): the call raises and changes nothing
     ELSE IF b = "<unconstructible>" THEN rej' = "bad_bijector" /\ UNCHANGED vars
     ELSE LET t == Inv(b, vars[v].val)
              new == [val |-> t, dist |-> vars[v].dist, tdist |-> TRUE, bij |-> b, param |-> vars[v].param,
                      obs |-> FALSE, weak |-> FALSE, via |-> ""]
              old == [vars[v] EXCEPT !.val = Fwd(b, t), !.dist = "none", !.param = FALSE, !.weak = TRUE,
                                     !.via = TName(v), !.bij = b]
          IN /\ vars' = [n \in DOMAIN vars \cup {TName(v)} |->
                           IF n = TName(v) THEN new ELSE IF n = v THEN old ELSE vars[n]]
             /\ rej' = "none"

\* assignment to a strong variable; weak (transformed) originals follow their source,
\* transitively along chains of transformations
RECURSIVE ValOf(_, _, _)
ValOf(n, vs, x) == \* value of n when the assigned variable `x.v` takes value `x.val`
  IF n = x.v THEN x.val
  ELSE IF vs[n].weak /\ vs[n].via # "" THEN Fwd(vs[n].bij, ValOf(vs[n].via, vs, x))
  ELSE vs[n].val
Assign(v, x) ==
  /\ v \in DOMAIN vars /\ ~vars[v].weak
  /\ vars' = [n \in DOMAIN vars |-> [vars[n] EXCEPT !.val = ValOf(n, vars, [v |-> v, val |-> x])]]
  /\ rej' = "none"

-----------------------------------------------------------------------------
\* the original is the bijector image of the new unconstrained variable
OriginalIsImage ==
  \A v \in DOMAIN vars : (vars[v].weak /\ vars[v].via # "") =>
     /\ vars[v].via \in DOMAIN vars
     /\ vars[v].val = Fwd(vars[v].bij, vars[vars[v].via].val)
\* the original keeps no distribution and no parameter flag; the new variable carries both
FlagsMoved ==
  \A v \in DOMAIN vars : (vars[v].weak /\ vars[v].via # "") =>
     /\ vars[v].dist = "none" /\ ~vars[v].param
     \* ... unless it was itself transformed further (then the end of the chain does)
     /\ (vars[vars[v].via].weak \/ (vars[vars[v].via].dist # "none" /\ vars[vars[v].via].tdist))
NewDensityIsChangeOfVariables ==
  \A v \in DOMAIN vars : (vars[v].weak /\ vars[v].via # "" /\ ~vars[vars[v].via].weak) =>
     LogDensity(vars[v].via) =
        <<"plus", <<"lp", vars[vars[v].via].dist, vars[v].val>>, <<"fldj", vars[v].bij, vars[vars[v].via].val>>>>
\* transforming leaves the original variable's value unchanged
ValueUnchangedA ==
  [][\A v \in Names, b \in Bijectors : (Transform(v, b) /\ rej' = "none") => vars'[v].val = vars[v].val]_tvars
ParamMovesA ==
  [][\A v \in Names, b \in Bijectors : (Transform(v, b) /\ rej' = "none") =>
        vars'[TName(v)].param = vars[v].param /\ vars'[v].obs = vars[v].obs]_tvars
RejectedUnchangedA ==
  [][\A v \in Names, b \in Bijectors : (Transform(v, b) /\ rej' # "none") => vars' = vars]_tvars
=============================================================================
