------------------------------- MODULE EpochRules -----------------------------
(* liesel.goose.epoch.EpochManager, liesel.goose.warmup.stan_epochs and the  *)
(* EngineBuilder's JIT chunk length (builder.py: math.gcd of the durations). *)
(*                                                                           *)
(* Anchors: epoch.py:142-209 (append / next), warmup.py:12-88, builder.py    *)
(* :388-390.  The manager is a state machine; `Accepts` is written in the    *)
(* shape of the code (the sequence of checks in `append`), `Valid` is        *)
(* written from the property text, and the design theorem AcceptedIffValid   *)
(* says they agree on every reachable manager state and every candidate      *)
(* config.                                                                   *)
EXTENDS Naturals, Integers, Sequences, FiniteSets

INITIAL == 0
FAST    == 1
SLOW    == 2
BURNIN  == 3
POST    == 4

IsWarmup(t) == 0 < t /\ t < 4          \* EpochType.is_warmup
IsAdapt(t)  == 0 < t /\ t < 3          \* EpochType.is_adaptation

Cfg(t, d, k) == [type |-> t, dur |-> d, thin |-> k]

-----------------------------------------------------------------------------
(* Code-shaped rule: the checks of EpochManager.append in their order.       *)
RejectReason(cfgs, c) ==
  IF cfgs = <<>> /\ c.type # INITIAL THEN "first_must_be_initial"
  ELSE IF c.type = INITIAL /\ cfgs # <<>> THEN "only_first_initial"
  ELSE IF c.type = INITIAL /\ c.dur # 1 THEN "initial_duration_1"
  ELSE IF IsWarmup(c.type) /\ cfgs[Len(cfgs)].type = POST THEN "warmup_after_posterior"
  ELSE IF c.dur < 1 THEN "duration_lt_1"
  ELSE IF c.thin < 1 THEN "thinning_lt_1"
  ELSE IF c.thin # 1 /\ c.dur < c.thin THEN "duration_lt_thinning"
  ELSE IF c.thin # 1 /\ c.type = POST /\ c.dur % c.thin # 0 THEN "duration_not_multiple"
  ELSE "none"

Accepts(cfgs, c) == RejectReason(cfgs, c) = "none"

(* Property-text rule: a schedule is valid iff it starts with a one-iteration*)
(* initial-values epoch, contains no other such epoch, has positive durations*)
(* with thinning between 1 and the duration (dividing it for posterior       *)
(* epochs), and has no warm-up epoch after a posterior epoch.                *)
Valid(s) ==
  \/ Len(s) = 0
  \/ /\ s[1].type = INITIAL /\ s[1].dur = 1
     /\ \A i \in 1..Len(s) :
          /\ s[i].type \in {INITIAL, FAST, SLOW, BURNIN, POST}
          /\ (i > 1 => s[i].type # INITIAL)
          /\ s[i].dur >= 1
          /\ 1 <= s[i].thin /\ s[i].thin <= s[i].dur
          /\ (s[i].type = POST => s[i].dur % s[i].thin = 0)
          /\ (IsWarmup(s[i].type) => \A j \in 1..(i - 1) : s[j].type # POST)

RECURSIVE SumDur(_, _, _)
SumDur(s, i, j) == IF i > j THEN 0 ELSE s[i].dur + SumDur(s, i + 1, j)

-----------------------------------------------------------------------------
(* stan_epochs.  a = [warmup, post, init, term, base, thinPost, thinWarm]    *)
RECURSIVE SlowPart(_, _, _)
SlowPart(left, this, k) ==
  IF 3 * this <= left
  THEN <<Cfg(SLOW, this, k)>> \o SlowPart(left - this, 2 * this, k)
  ELSE <<Cfg(SLOW, left, k)>>

StanRaises(a) == a.warmup < 20 \/ a.warmup < a.init + a.term + a.base

Stan(a) == <<Cfg(INITIAL, 1, 1), Cfg(FAST, a.init, a.thinWarm)>>
           \o SlowPart(a.warmup - a.init - a.term, a.base, a.thinWarm)
           \o <<Cfg(FAST, a.term, a.thinWarm), Cfg(POST, a.post, a.thinPost)>>

(* Admissible = what the generator can promise a valid schedule for: its own *)
(* argument checks pass, every requested duration is positive, thinnings are *)
(* positive, the posterior thinning divides the posterior duration and the   *)
(* warm-up thinning does not exceed any warm-up epoch of the schedule s.     *)
StanAdmissibleFor(a, s) ==
  /\ ~StanRaises(a)
  /\ a.init >= 1 /\ a.term >= 1 /\ a.base >= 1 /\ a.post >= 1
  /\ a.thinWarm >= 1 /\ a.thinPost >= 1
  /\ a.post % a.thinPost = 0
  /\ \A i \in 2..(Len(s) - 1) : a.thinWarm <= s[i].dur
StanAdmissible(a) == StanAdmissibleFor(a, Stan(a))

RECURSIVE Pow2(_)
Pow2(n) == IF n = 0 THEN 1 ELSE 2 * Pow2(n - 1)

(* The documented pattern, written independently of SlowPart: fast(init),    *)
(* slow windows base, 2 base, 4 base, ... where the last window absorbs the  *)
(* remainder (at least its nominal size, less than three times it), then     *)
(* fast(term), then one posterior epoch.                                     *)
StanPattern(a, s) ==
  LET n == Len(s)
      k == n - 4           \* number of slow windows
  IN /\ n >= 5
     /\ s[1] = Cfg(INITIAL, 1, 1)
     /\ s[2] = Cfg(FAST, a.init, a.thinWarm)
     /\ s[n - 1] = Cfg(FAST, a.term, a.thinWarm)
     /\ s[n] = Cfg(POST, a.post, a.thinPost)
     /\ \A i \in 1..k : s[2 + i].type = SLOW /\ s[2 + i].thin = a.thinWarm
     /\ \A i \in 1..(k - 1) : s[2 + i].dur = a.base * Pow2(i - 1)
     /\ s[2 + k].dur >= a.base * Pow2(k - 1)
     /\ s[2 + k].dur < 3 * a.base * Pow2(k - 1)

StanSums(a, s) == SumDur(s, 2, Len(s) - 1) = a.warmup

StanOK(a) == StanAdmissible(a) =>
               /\ Valid(Stan(a))
               /\ StanSums(a, Stan(a))
               /\ StanPattern(a, Stan(a))

-----------------------------------------------------------------------------
(* JIT chunk length chosen by EngineBuilder.build: gcd of all durations      *)
(* after the initial epoch.                                                  *)
RECURSIVE GCD(_, _)
GCD(x, y) == IF y = 0 THEN x ELSE GCD(y, x % y)

RECURSIVE ChunkFrom(_, _)
ChunkFrom(s, i) == IF i > Len(s) THEN 0 ELSE GCD(s[i].dur, ChunkFrom(s, i + 1))
Chunk(s) == ChunkFrom(s, 2)

ChunkDivides(s, j) == j >= 1 /\ \A i \in 2..Len(s) : s[i].dur % j = 0
=============================================================================
