--------------------------- MODULE MC_LieselGraph ---------------------------
(* All-shapes config: the initial predicate chooses every DAG on NN nodes    *)
(* (node 1 a value node; kinds value / caching / transient / proxy; every    *)
(* non-empty input set among the earlier nodes) and every initial assignment *)
(* of atoms; Next offers every public mutating operation with every          *)
(* argument.  For each graph the reachable state space is finite, so ALL     *)
(* finite operation histories on that graph are covered.                     *)
EXTENDS LieselGraph, TLC

CONSTANTS NN, Atoms, MaxSlots, Kinds
VARIABLE last

RECURSIVE JoinS(_, _)
JoinS(args, i) == IF i > Len(args) THEN ""
                  ELSE (IF i > 1 THEN "," ELSE "") \o args[i] \o JoinS(args, i + 1)
ApplyStr(n, args) == IF \E i \in 1..Len(args) : args[i] \in {"!", "ERR"}      \* a poisoned argument: the function raises
                     THEN "ERR" ELSE "f" \o ToString(n) \o "(" \o JoinS(args, 1) \o ")"
DrawStr(d, r, pv) == "s" \o ToString(d) \o "<" \o ToString(r) \o ">(" \o JoinS(pv, 1) \o ")"

\* inputs as ascending sequences of a non-empty subset of earlier nodes
RECURSIVE SetToSeq(_, _)
SetToSeq(S, k) == IF k = 0 THEN <<>> ELSE SetToSeq(S, k - 1) \o (IF k \in S THEN <<k>> ELSE <<>>)
Graphs ==
  {g \in [1..NN -> [k : Kinds, ins : SUBSET (1..NN)]] :
     /\ g[1].k = "v"
     /\ \A n \in 1..NN :
          /\ g[n].ins \subseteq 1..(n - 1)
          /\ (g[n].k = "v" <=> g[n].ins = {})
          /\ (g[n].k = "p" => Cardinality(g[n].ins) = 1)}

Init ==
  /\ N = NN
  /\ ord = [i \in 1..N |-> i]
  /\ \E g \in Graphs :
       /\ kind = [n \in 1..NN |-> g[n].k]
       /\ inp = [n \in 1..NN |-> SetToSeq(g[n].ins, NN)]
  /\ \E a \in [1..NN -> Atoms] :
       \* a freshly built model: everything computed, nothing outdated
       val = [n \in 1..NN |-> IF Transient(n) THEN None ELSE
                FreshUpTo(NN, [m \in 1..NN |-> IF kind[m] = "v" THEN a[m] ELSE None])[n]]
  /\ flag = [n \in 1..NN |-> FALSE] /\ dirty = [n \in 1..NN |-> FALSE]
  /\ auto = TRUE /\ slots = <<>> /\ evald = {} /\ raised = FALSE
  /\ last = <<"init">>

DoAssign    == (\E n \in Node, x \in Atoms : Assign(n, x)) /\ UNCHANGED last
DoSetAuto   == (\E b \in BOOLEAN : SetAuto(b)) /\ UNCHANGED last
DoUpdateAll == UpdateAll /\ UNCHANGED last
DoTargets   == (\E T \in (SUBSET Node) \ {{}} : UpdateTargets(T)) /\ UNCHANGED last
DoSave      == Len(slots) < MaxSlots /\ Save
DoSaveU     == DoSave /\ UNCHANGED last
DoRestore   == (\E s \in 1..Len(slots) : Restore(s)) /\ UNCHANGED last
\* pop, assignment outside any model, rebuild (poison-free values only: a build whose node function raises fails)
DoRebuild   == (\E n \in Node, x \in Atoms \ {"!"} : Rebuild(n, x, ord)) /\ UNCHANGED last
DoReload    == Reload /\ UNCHANGED last
\* low-level node API: flag_outdated on any node; Node.update on a caching node whose inputs are up to date
DoFlagOutdated == (\E n \in Node : FlagOutdated(n)) /\ UNCHANGED last
DoNodeUpdate == (\E n \in Node : InputsUpToDate(n) /\ NodeUpdate(n)) /\ UNCHANGED last
DoClearState == (\E n \in Node : ClearState(n)) /\ UNCHANGED last
\* ... and without its precondition, as the code allows it (G8: Coherent is refuted)
DoNodeUpdateAny == (\E n \in Node : NodeUpdate(n)) /\ UNCHANGED last
Next == DoAssign \/ DoSetAuto \/ DoUpdateAll \/ DoTargets \/ DoSaveU \/ DoRestore \/ DoRebuild \/ DoReload
        \/ DoFlagOutdated \/ DoNodeUpdate \/ DoClearState
NextAny == Next \/ DoNodeUpdateAny
\* same next-state relation with the arguments visible in TLC's simulation traces
\* `last` names the action and its arguments (history variable, constant in the exhaustive spec)
NextArgs ==
        \/ \E n \in Node, x \in Atoms : Assign(n, x) /\ last' = <<"assign", n, x>>
        \/ \E b \in BOOLEAN : SetAuto(b) /\ last' = <<"set_auto", b>>
        \/ UpdateAll /\ last' = <<"update_all">>
        \/ \E T \in (SUBSET Node) \ {{}} : UpdateTargets(T) /\ last' = <<"update_targets", T>>
        \/ DoSave /\ last' = <<"save">>
        \/ \E s \in 1..Len(slots) : Restore(s) /\ last' = <<"restore", s>>
        \/ \E n \in Node, x \in Atoms \ {"!"} : Rebuild(n, x, ord) /\ last' = <<"rebuild", n, x>>
        \/ Reload /\ last' = <<"reload">>
        \/ \E n \in Node : FlagOutdated(n) /\ last' = <<"flag_outdated", n>>
        \/ \E n \in Node : InputsUpToDate(n) /\ NodeUpdate(n) /\ last' = <<"node_update", n>>
        \/ \E n \in Node : ClearState(n) /\ last' = <<"clear_state", n>>

\* post-conditions of the update actions as action properties
FullUpdateCleanA == [][UpdateAll => FullUpdateClean']_<<gvars, svars, last>>
TargetsCleanA == [][\A T \in (SUBSET Node) \ {{}} : UpdateTargets(T) => TargetsCleanFor(T)']_<<gvars, svars, last>>
\* a caching node is evaluated only if it was dirty before the operation
EvalOnlyIfDirtyA == [][(\E m \in Node, x \in Atoms : Rebuild(m, x, ord)) \/ (\E m \in Node : NodeUpdate(m)) \/
                       \A n \in evald' : dirty[n] \/ (\E m \in Node, x \in Atoms : Assign(m, x) /\ n \in Desc(m))]_<<gvars, svars, last>>
Spec == Init /\ [][Next]_<<gvars, svars, last>>
SpecAny == Init /\ [][NextAny]_<<gvars, svars, last>>
SpecArgs == Init /\ [][NextArgs]_<<gvars, svars, last>>
=============================================================================
