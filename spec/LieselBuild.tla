------------------------------ MODULE LieselBuild ---------------------------
(* Life-cycle of nodes / variables and models: GraphBuilder.build_model,     *)
(* freezing, Model.pop_nodes_and_vars, copies, save/load (model.py:224-285,  *)
(* 453-495, 1038-1105, 1195-1268, 1413-1448; nodes.py:85-106, 208-238).      *)
(*                                                                           *)
(* User objects are U = 1..NU with a fixed input relation UIn (a DAG unless  *)
(* the instance is deliberately cyclic), of which Seeded need a seed.  A     *)
(* model is identified by a number; its *projection* is what an observer     *)
(* sees: the set of node names, the input names per node, and the values of  *)
(* its value nodes.  Copies (copy=True, deepcopy, copy_nodes_and_vars +      *)
(* rebuild, save/load) create new object identities: they own their values   *)
(* and do not freeze the user's objects.                                     *)
(*                                                                           *)
(* DetachSeed = TRUE: popping / copying nodes out of a model detaches the    *)
(* model's seed inputs (intended); FALSE: the `_model_<n>_seed` input stays  *)
(* attached (the code before the fix of finding C15) so that a rebuild is    *)
(* rejected for a reserved name.                                             *)
EXTENDS Naturals, Sequences, FiniteSets, TLC

CONSTANTS NU, UIn, Seeded, InitName, DetachSeed, MaxModels, Atoms,
          UserSeeded   \* objects that need a seed and read it from an input the user wired in (no model seed node)

U == 1..NU
VARIABLES name,      \* [U -> STRING], "" = unnamed
          owner,     \* [U -> 0..MaxModels]: the model the object is frozen in (0 = none)
          seedin,    \* [U -> BOOLEAN]: a model seed node is attached as kw-input `seed`
          gb,        \* objects added to the graph builder
          models,    \* [1..MaxModels -> projection record or Dead]
          nmodels,   \* models created so far
          popped,    \* objects returned by the last pop (candidates for a rebuild)
          snap,      \* projection of the model at pop time
          rej,       \* outcome of the last operation: "none" or a rejection reason
          uval,      \* [U -> Atoms]: value carried by the user's own object
          rt         \* round-trip verdict of the last successful build: "na" | "ok" | "bad"
bvars == <<name, owner, seedin, gb, models, nmodels, popped, snap, rej, uval, rt>>

Dead == [alive |-> FALSE]
IsModelName(s) == s \in {"_model_log_prob", "_model_log_lik", "_model_log_prior"} \/ s = "_model_seed"

RECURSIVE Reach(_, _)
Reach(todo, seen) == IF todo = {} THEN seen
                     ELSE LET o == CHOOSE x \in todo : TRUE IN
                          Reach((todo \ {o}) \cup (UIn[o] \ (seen \cup {o})), seen \cup {o})
Closure(S) == Reach(S, {})

\* a cycle in UIn reachable from S (only for the deliberately cyclic instance)
Cyclic(S) == \E o \in Closure(S) : o \in Reach(UIn[o], {})

\* _set_missing_names: unnamed nodes get n0, n1, ... in id order, skipping taken names
RECURSIVE NameFrom(_, _, _)
NameFrom(nm, todo, k) ==
  IF todo = {} THEN nm
  ELSE LET o == CHOOSE x \in todo : \A y \in todo : x <= y
           cand == "n" \o ToString(k)
       IN IF cand \in {nm[x] : x \in U} THEN NameFrom(nm, todo, k + 1)
          ELSE NameFrom([nm EXCEPT ![o] = cand], todo \ {o}, k + 1)
Named(nm, C) == NameFrom(nm, {o \in C : nm[o] = ""}, 0)

\* projection of a model built from the user objects C with values vals
Proj(nm, C, vals) ==
  [alive |-> TRUE,
   names |-> {nm[o] : o \in C} \cup {"_model_log_prob", "_model_log_lik", "_model_log_prior"}
             \cup {"_model_" \o nm[o] \o "_seed" : o \in C \cap Seeded},
   inputs |-> [o \in C |-> {nm[i] : i \in UIn[o]}
                            \cup (IF o \in Seeded THEN {"_model_" \o nm[o] \o "_seed"} ELSE {})],
   objs |-> C,
   vals |-> vals]

BInit ==
  /\ name = InitName /\ owner = [o \in U |-> 0] /\ seedin = [o \in U |-> FALSE]
  /\ gb = {} /\ models = [m \in 1..MaxModels |-> Dead] /\ nmodels = 0
  /\ popped = {} /\ snap = Dead /\ rej = "none"
  /\ uval = [o \in U |-> CHOOSE a \in Atoms : TRUE] /\ rt = "na"

Add(o) == /\ o \notin gb /\ gb' = gb \cup {o} /\ rej' = "none"
          /\ UNCHANGED <<name, owner, seedin, models, nmodels, popped, snap, uval, rt>>

\* build_model(copy): the checks in the order of the code
Build(copy) ==
  /\ gb # {} /\ nmodels < MaxModels
  /\ UNCHANGED uval
  /\ LET C == Closure(gb)
         nm == Named(name, C)
         vals == [o \in C |-> uval[o]]
     IN
     IF \E o \in C : seedin[o]
        \* the attached `_model_<n>_seed` input is a recursive input with a reserved name
     THEN rej' = "reserved_name" /\ UNCHANGED <<name, owner, seedin, gb, models, nmodels, popped, snap, rt>>
     ELSE IF \E o \in C \cap UserSeeded : owner[o] # 0
        \* as coded: the seed inputs of every node that needs a seed are re-set (the user's own input wins), which a
        \* node frozen in a live model refuses - after the missing names were filled in
     THEN /\ rej' = "frozen" /\ name' = nm
          /\ UNCHANGED <<owner, seedin, gb, models, nmodels, popped, snap, rt>>
     ELSE IF \E a, b \in C : a # b /\ nm[a] = nm[b]
     THEN \* names were already filled in on the user's objects (observable)
          /\ rej' = "duplicate_names" /\ name' = nm
          /\ UNCHANGED <<owner, seedin, gb, models, nmodels, popped, snap, rt>>
     ELSE IF ~copy /\ \E o \in C : owner[o] # 0
     THEN /\ rej' = "already_in_model" /\ name' = nm
          /\ UNCHANGED <<owner, seedin, gb, models, nmodels, popped, snap, rt>>
     ELSE IF Cyclic(gb)
     THEN \* the half-constructed model is collected: nodes stay unfrozen
          /\ rej' = "cycle" /\ name' = nm
          /\ UNCHANGED <<owner, seedin, gb, models, nmodels, popped, snap, rt>>
     ELSE /\ rej' = "none" /\ name' = nm
          /\ nmodels' = nmodels + 1
          /\ models' = [models EXCEPT ![nmodels + 1] = Proj(nm, C, vals)]
          /\ IF copy
             THEN UNCHANGED <<owner, seedin, gb>>     \* the copy owns new objects
             ELSE /\ owner' = [o \in U |-> IF o \in C THEN nmodels + 1 ELSE owner[o]]
                  /\ seedin' = [o \in U |-> IF o \in C \cap Seeded THEN TRUE ELSE seedin[o]]
                  /\ gb' = {}
          /\ popped' = {} /\ UNCHANGED snap
          /\ rt' = (IF popped # {} /\ gb = popped /\ ~copy
                    THEN (IF /\ Proj(nm, C, vals).names = snap.names
                             /\ Proj(nm, C, vals).inputs = snap.inputs
                             /\ Proj(nm, C, vals).vals = snap.vals THEN "ok" ELSE "bad")
                    ELSE "na")

\* every guarded mutator (name, inputs, function, needs_seed, at, ...) on object o
Rename(o, s) ==
  IF owner[o] # 0
  THEN rej' = "frozen" /\ UNCHANGED <<name, owner, seedin, gb, models, nmodels, popped, snap, uval, rt>>
  ELSE /\ rej' = "none" /\ name' = [name EXCEPT ![o] = s]
       /\ popped' = {} \* the popped objects are no longer the ones that were popped
       /\ UNCHANGED <<owner, seedin, gb, models, nmodels, snap, uval, rt>>

\* a guarded mutator that would not change anything observable (set_inputs with the same
\* inputs, function := function, ...): rejected iff the object is frozen
Touch(o) ==
  /\ rej' = (IF owner[o] # 0 THEN "frozen" ELSE "none")
  /\ UNCHANGED <<name, owner, seedin, gb, models, nmodels, popped, snap, uval, rt>>

\* pop_nodes_and_vars
Pop(m) ==
  /\ m \in 1..nmodels /\ models[m].alive /\ \E o \in U : owner[o] = m
  /\ snap' = models[m]
  /\ popped' = {o \in U : owner[o] = m}
  /\ owner' = [o \in U |-> IF owner[o] = m THEN 0 ELSE owner[o]]
  /\ seedin' = [o \in U |-> IF owner[o] = m THEN (IF DetachSeed THEN FALSE ELSE seedin[o]) ELSE seedin[o]]
  /\ models' = [models EXCEPT ![m] = Dead]
  /\ rej' = "none" /\ UNCHANGED <<name, gb, nmodels, uval, rt>>

\* the last reference to a model is released without popping: the nodes hold only a weak
\* reference, so they are unfrozen - but (deliberately modelled as coded) a seed input the
\* model attached stays attached
DropModel(m) ==
  /\ m \in 1..nmodels /\ models[m].alive /\ \E o \in U : owner[o] = m
  /\ owner' = [o \in U |-> IF owner[o] = m THEN 0 ELSE owner[o]]
  /\ models' = [models EXCEPT ![m] = Dead]
  /\ popped' = {} /\ rej' = "none"
  /\ UNCHANGED <<name, seedin, gb, nmodels, snap, uval, rt>>

\* deepcopy(model) / save + load / copy_nodes_and_vars + build: a new independent model
CopyModel(m) ==
  /\ m \in 1..nmodels /\ models[m].alive /\ nmodels < MaxModels
  /\ IF ~DetachSeed /\ models[m].objs \cap Seeded # {}
     THEN \* copy_nodes_and_vars + rebuild hits the attached seed input
          rej' = "reserved_name" /\ UNCHANGED <<name, owner, seedin, gb, models, nmodels, popped, snap, uval, rt>>
     ELSE /\ models' = [models EXCEPT ![nmodels + 1] = models[m]]
          /\ nmodels' = nmodels + 1 /\ rej' = "none"
          /\ UNCHANGED <<name, owner, seedin, gb, popped, snap, uval, rt>>

\* assignment to a value node of a live model (to observe independence)
AssignIn(m, o, x) ==
  /\ m \in 1..nmodels /\ models[m].alive /\ o \in DOMAIN models[m].vals
  /\ models' = [models EXCEPT ![m].vals[o] = x]
  \* a model built without copy holds the user's own objects
  /\ uval' = (IF owner[o] = m THEN [uval EXCEPT ![o] = x] ELSE uval)
  /\ rej' = "none" /\ UNCHANGED <<name, owner, seedin, gb, nmodels, popped, snap, rt>>

-----------------------------------------------------------------------------
Alive == {m \in 1..nmodels : models[m].alive}
\* every recursive input of the added nodes is in the model exactly once (names are
\* unique, so the name set has one entry per object)
ClosureOK == \A m \in Alive :
  /\ \A o \in models[m].objs : UIn[o] \subseteq models[m].objs
  /\ \A o \in models[m].objs : \A i \in models[m].inputs[o] : i \in models[m].names
UniqueNonEmptyNames == \A m \in Alive :
  /\ "" \notin models[m].names
  /\ Cardinality(models[m].names) = Cardinality(models[m].objs) + 3 + Cardinality(models[m].objs \cap Seeded)
\* a rebuilt model reproduces the popped one (names, wiring, values)
RoundTrip == rt # "bad"
\* rebuilding exactly what was popped is never rejected for a reserved name
RebuildAccepted == (popped # {} /\ gb = popped) => rej # "reserved_name"
FrozenOK == \A o \in U : owner[o] # 0 => (owner[o] \in Alive /\ o \in models[owner[o]].objs)
=============================================================================
