----------------------------- MODULE MC_Simulate ----------------------------
(* Model.simulate on hierarchical models (C17): two fixed graphs with        *)
(* distributed variables depending on each other directly and through a      *)
(* cached intermediate calculation; every skip set, both auto-update         *)
(* settings, interleaved with assignments / updates / save / restore.        *)
(*                                                                           *)
(* Graph A:  x = (v1, proxy p2) ~ dist c3 (at p2)                            *)
(*           g = cached calc c4(p2)                                          *)
(*           y = (v5, proxy p6) ~ dist c7 (params c4; at p6)                 *)
(* Graph B:  adds z = (v8, p9) ~ dist c10 (params p6 directly, p2; at p9)    *)
EXTENDS LieselGraph, TLC
CONSTANTS Which, MaxSlots

RECURSIVE JoinS(_, _)
JoinS(args, i) == IF i > Len(args) THEN ""
                  ELSE (IF i > 1 THEN "," ELSE "") \o args[i] \o JoinS(args, i + 1)
ApplyStr(n, args) == IF \E i \in 1..Len(args) : args[i] \in {"!", "ERR"}      \* a poisoned argument: the function raises
                     THEN "ERR" ELSE "f" \o ToString(n) \o "(" \o JoinS(args, 1) \o ")"
DrawStr(d, r, pv) == "s" \o ToString(d) \o "<" \o ToString(r) \o ">(" \o JoinS(pv, 1) \o ")"

KindA == <<"v", "p", "c", "c", "v", "p", "c">>
InpA  == <<<<>>, <<1>>, <<2>>, <<2>>, <<>>, <<5>>, <<4, 6>>>>
KindB == KindA \o <<"v", "p", "c">>
InpB  == InpA \o <<<<>>, <<8>>, <<6, 2, 9>>>>
SimA(r1, r2) == <<[d |-> 3, target |-> 1, params |-> <<>>, r |-> r1],
                  [d |-> 7, target |-> 5, params |-> <<4>>, r |-> r2]>>
SimB(r1, r2, r3) == SimA(r1, r2) \o <<[d |-> 10, target |-> 8, params |-> <<6, 2>>, r |-> r3]>>
AllSim == IF Which = "A" THEN SimA(1, 2) ELSE SimB(1, 2, 3)

RECURSIVE SubSeqs(_)
\* all subsequences (skip sets) of a sequence
SubSeqs(s) == IF s = <<>> THEN {<<>>}
              ELSE LET r == SubSeqs(Tail(s)) IN r \cup {<<Head(s)>> \o t : t \in r}

Init ==
  /\ N = (IF Which = "A" THEN 7 ELSE 10)
  /\ ord = [i \in 1..N |-> i]
  /\ kind = (IF Which = "A" THEN KindA ELSE KindB)
  /\ inp = (IF Which = "A" THEN InpA ELSE InpB)
  /\ LET v0 == [n \in 1..N |-> IF kind[n] = "v" THEN "a" ELSE None] IN
     val = [n \in 1..N |-> IF Transient(n) THEN None ELSE FreshUpTo(N, v0)[n]]
  /\ flag = [n \in 1..N |-> FALSE] /\ dirty = [n \in 1..N |-> FALSE]
  /\ auto = TRUE /\ slots = <<>> /\ evald = {} /\ raised = FALSE

\* history variables: the last operation if it was a simulate, and the values before it
VARIABLES lastsim, preval
hvars == <<lastsim, preval>>
NoSim == lastsim' = <<>> /\ preval' = val
DoSimulate == \E sd \in SubSeqs(AllSim) : sd # <<>> /\ Simulate(sd) /\ lastsim' = sd /\ preval' = val
DoAssign   == (\E n \in Node : kind[n] = "v" /\ Assign(n, "b")) /\ NoSim
DoSetAuto  == (\E b \in BOOLEAN : SetAuto(b)) /\ NoSim
DoUpdate   == UpdateAll /\ NoSim
DoTargets  == (\E n \in Node : UpdateTargets({n})) /\ NoSim
DoSave     == Len(slots) < MaxSlots /\ Save /\ NoSim
DoRestore  == (\E s \in 1..Len(slots) : Restore(s)) /\ NoSim
\* bounded exploration of the larger graph (state constraints for the thorough tier)
Depth6 == TLCGet("level") <= 6
Depth7 == TLCGet("level") <= 7
Depth8 == TLCGet("level") <= 8
Next == DoSimulate \/ DoAssign \/ DoSetAuto \/ DoUpdate \/ DoTargets \/ DoSave \/ DoRestore
SInit == Init /\ lastsim = <<>> /\ preval = val

\* every simulated variable holds a draw from its distribution evaluated at the
\* *newly drawn* values of its ancestors
AncestralOK ==
  \A j \in 1..Len(lastsim) :
     val[lastsim[j].target] =
        DrawStr(lastsim[j].d, lastsim[j].r,
                [i \in 1..Len(lastsim[j].params) |-> Fresh(val)[lastsim[j].params[i]]])
SkipUntouched ==
  lastsim # <<>> =>
    \A j \in 1..Len(AllSim) :
       (\A k \in 1..Len(lastsim) : lastsim[k].d # AllSim[j].d) =>
          val[AllSim[j].target] = preval[AllSim[j].target]
=============================================================================
