---------------------------- MODULE GooseInterface --------------------------
(* The state-passing model interface of Goose (interface.py:267-328 for      *)
(* LieselInterface; 19-230, 330-452 for the dict / dataclass / named-tuple   *)
(* interfaces; model.py:1147-1157 _copy_computational_model).                *)
(*                                                                           *)
(* The interface owns a private ("hollow") copy of the model whose content   *)
(* between calls is arbitrary residue.  A model state is a pair <<val, flag>>*)
(* over all nodes of the LieselGraph; a position is a sequence of            *)
(* <<value node, value>> pairs.                                              *)
EXTENDS LieselGraph

Clean == [n \in Node |-> FALSE]

RECURSIVE AssignAll(_, _, _, _, _, _)
\* assign the position entry by entry under auto-update setting a
AssignAll(pos, i, v, f, d, a) ==
  IF i > Len(pos) THEN <<v, f, d>>
  ELSE LET r == AssignRes(pos[i][1], pos[i][2], v, f, d, a)
       IN AssignAll(pos, i + 1, r[1], r[2], r[3], a)

\* what the model itself would reach: direct assignment on a scratch copy holding the
\* state st, followed by a full update
Ref(pos, st) ==
  LET a == AssignAll(pos, 1, st[1], st[2], Clean, FALSE)
      r == Sweep(Node, a[1], a[2], a[3])
  IN <<r[1], r[2]>>

\* LieselInterface.update_state as coded: load the whole state into the private model
\* (overwriting any residue), clear all flags, assign entry by entry with the private
\* model's auto-update setting a, full update, return the private model's state.
\* The residue `priv` is an argument on purpose: the result must not depend on it.
UpdateStateCode(pos, st, priv, a) ==
  LET v0 == [n \in Node |-> st[1][n]]          \* every node of the state is loaded
      run == AssignAll(pos, 1, v0, Clean, Clean, a)
      r == Sweep(Node, run[1], run[2], run[3])
  IN <<r[1], r[2]>>

\* extract_position: the (effective) values of the keys in the state
Extract(keys, st) == [i \in 1..Len(keys) |-> Eff(st[1])[keys[i]]]

\* an up-to-date state: nothing outdated, every cached value is the from-scratch value
UpToDate(st) == /\ \A n \in Node : ~Outd(st[2])[n]
                /\ \A n \in Node : Eff(st[1])[n] = Fresh(st[1])[n]

Pure(pos, st, priv, a) == UpToDate(st) => UpdateStateCode(pos, st, priv, a) = Ref(pos, st)
GetPut(pos, st, priv, a) ==
  UpToDate(st) => Extract([i \in 1..Len(pos) |-> pos[i][1]], UpdateStateCode(pos, st, priv, a))
                    = [i \in 1..Len(pos) |-> pos[i][2]]
=============================================================================
