---------------------------- MODULE Trace_Logging ----------------------------
(* Binds Logging.tla to the real liesel.logging functions acting on the real   *)
(* logging module: every event carries the projected state after the call and *)
(* `emit` events carry which handlers received the record.                     *)
EXTENDS Logging, TraceBatch

TInit == BatchInit /\ LInit

Proj(g) == [i \in 1..Len(hs[g]) |-> <<hs[g][i].kind, hs[g][i].level>>]
ObsOK == /\ \A g \in {"liesel", "liesel.goose"} :
              /\ Ev.obs.handlers[g] = Proj(g)'
              /\ Ev.obs.level[g] = lvl'[g]
              /\ Ev.obs.propagate[g] = prop'[g]

TSetup == IsEvent("setup") /\ Setup /\ Chk("setup_adds_one_stream_handler_level_info_no_propagation", ObsOK) /\ Step
TReset == IsEvent("reset") /\ Reset
          /\ Chk("reset_as_coded_keeps_every_second_handler", ObsOK) /\ Step
TAddFile == IsEvent("add_file") /\ AddFile(Ev.logger, Ev.level)
            /\ Chk("file_handler_appended_to_the_named_logger_with_its_level", ObsOK) /\ Step
TEmit == IsEvent("emit") /\ UNCHANGED lvars
         /\ Chk("record_delivered_to_exactly_the_handlers_on_the_propagation_chain",
                {<<p[1], p[2]>> : p \in SeqToSet(Ev.delivered)} = Delivered(Ev.logger, Ev.level))
         /\ Step
TNext == TSetup \/ TReset \/ TAddFile \/ TEmit
=============================================================================
