--------------------------- MODULE EngineBuilderLife -------------------------
(* Life-cycle of an EngineBuilder (goose/builder.py:131-520) across several    *)
(* build() calls: which model interface the kernels of each built engine are   *)
(* bound to.                                                                   *)
(*                                                                             *)
(* `set_model` is documented to set the model interface "for all kernels and   *)
(* quantity generators".  As coded it only stores the interface; build() binds *)
(* the kernels that have no model yet (and names the unnamed ones) - before    *)
(* it checks that initial values were given.  Consequences (Rebind = FALSE):   *)
(*  - a kernel bound by an earlier build keeps that model when the builder is  *)
(*    given another interface and builds again: the engine extracts and stores *)
(*    positions with the new model while the kernel samples the old one;       *)
(*  - a build rejected for missing initial values has already bound and named  *)
(*    the kernels.                                                             *)
(* Rebind = TRUE specifies the documented behaviour (build binds every kernel  *)
(* the user did not bind himself to the builder's current interface, after all *)
(* checks).                                                                    *)
EXTENDS Naturals, Sequences, FiniteSets

CONSTANTS NM,        \* model interfaces 1..NM
          MaxK, MaxE, \* bounds on kernels / engines
          Rebind

VARIABLES cur,      \* the builder's current interface (0 = none)
          kern,     \* sequence of [bound: 0..NM, user: BOOLEAN, ident: "" | "kernel_<i>" | "z<i>"]
          hasInit, hasEpochs,
          engines,  \* sequence of [model, kmodels]
          rej       \* outcome of the last call
evars == <<cur, kern, hasInit, hasEpochs, engines, rej>>

LInit == cur = 0 /\ kern = <<>> /\ hasInit = FALSE /\ hasEpochs = FALSE /\ engines = <<>> /\ rej = "none"

SetModel(m) == /\ m \in 1..NM /\ cur' = m /\ rej' = "none" /\ UNCHANGED <<kern, hasInit, hasEpochs, engines>>
\* a kernel is added unbound, or already bound by the user to interface u (u = 0: unbound); named by the user or not
AddKernel(u, named) ==
  /\ Len(kern) < MaxK /\ u \in 0..NM
  /\ kern' = Append(kern, [bound |-> u, user |-> u # 0,
                           ident |-> IF named THEN (IF Len(kern) = 0 THEN "z1" ELSE IF Len(kern) = 1 THEN "z2" ELSE "z3") ELSE ""])
  /\ rej' = "none" /\ UNCHANGED <<cur, hasInit, hasEpochs, engines>>
SetInit == hasInit' = TRUE /\ rej' = "none" /\ UNCHANGED <<cur, kern, hasEpochs, engines>>
SetEpochs == hasEpochs' = TRUE /\ rej' = "none" /\ UNCHANGED <<cur, kern, hasInit, engines>>

AutoIdent(i) == IF i = 1 THEN "kernel_00" ELSE IF i = 2 THEN "kernel_01" ELSE "kernel_02"
Bind(k, i) == [k EXCEPT !.bound = IF (Rebind /\ ~k.user) \/ k.bound = 0 THEN cur ELSE k.bound,
                        !.ident = IF k.ident = "" THEN AutoIdent(i) ELSE k.ident]
Bound == [i \in 1..Len(kern) |-> Bind(kern[i], i)]

Build ==
  /\ Len(engines) < MaxE
  /\ IF ~hasEpochs THEN rej' = "no_epochs" /\ UNCHANGED <<cur, kern, hasInit, hasEpochs, engines>>
     ELSE IF cur = 0 THEN rej' = "no_model" /\ UNCHANGED <<cur, kern, hasInit, hasEpochs, engines>>
     ELSE IF ~hasInit
          THEN /\ rej' = "no_initial_values"
               \* as coded the kernels are bound and named before this check
               /\ kern' = (IF Rebind THEN kern ELSE Bound)
               /\ UNCHANGED <<cur, hasInit, hasEpochs, engines>>
     ELSE /\ rej' = "none" /\ kern' = Bound
          /\ engines' = Append(engines, [model |-> cur, kmodels |-> [i \in 1..Len(kern) |-> Bound[i].bound]])
          /\ UNCHANGED <<cur, hasInit, hasEpochs>>

-----------------------------------------------------------------------------
\* documented: the kernels of every built engine work on the engine's model (unless the user bound one himself)
EnginesCoherent ==
  \A e \in 1..Len(engines) : \A i \in 1..Len(engines[e].kmodels) :
     kern[i].user \/ engines[e].kmodels[i] = engines[e].model
\* a rejected call changes nothing
RejectedBuildIsNoOp == [][(Build /\ rej' # "none") => kern' = kern]_evars
\* hold as coded as well: a model interface, once bound to a kernel without Rebind, and an identifier never change
IdentsStable == [][\A i \in 1..Len(kern) : kern[i].ident # "" => kern'[i].ident = kern[i].ident]_evars
UserBindingRespected == [][\A i \in 1..Len(kern) : kern[i].user => kern'[i].bound = kern[i].bound]_evars
=============================================================================
