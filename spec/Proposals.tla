------------------------------- MODULE Proposals ----------------------------
(* Proposal densities and reported acceptance probabilities of the RW, IWLS  *)
(* and MH kernels (rw.py:95-118, iwls.py:141-185, iwls_utils.py,             *)
(* mh_kernel.py:88-111) for block dimension d <= 3, over IEEE doubles.       *)
(* Vectors are sequences of float spellings, matrices sequences of rows.     *)
EXTENDS VFloat, Naturals, Sequences

Dim(x) == Len(x)
RECURSIVE DotFrom(_, _, _)
DotFrom(a, b, i) == IF i > Len(a) THEN "0.0" ELSE FAdd(FMul(a[i], b[i]), DotFrom(a, b, i + 1))
Dot(a, b) == DotFrom(a, b, 1)
MatVec(A, x) == [i \in 1..Len(A) |-> Dot(A[i], x)]
VSub(a, b) == [i \in 1..Len(a) |-> FSub(a[i], b[i])]
VAdd(a, b) == [i \in 1..Len(a) |-> FAdd(a[i], b[i])]
VScale(c, a) == [i \in 1..Len(a) |-> FMul(c, a[i])]

Det2(a, b, c, d) == FSub(FMul(a, d), FMul(b, c))
Det(A) ==
  IF Len(A) = 1 THEN A[1][1]
  ELSE IF Len(A) = 2 THEN Det2(A[1][1], A[1][2], A[2][1], A[2][2])
  ELSE FAdd(FSub(FMul(A[1][1], Det2(A[2][2], A[2][3], A[3][2], A[3][3])),
                 FMul(A[1][2], Det2(A[2][1], A[2][3], A[3][1], A[3][3]))),
            FMul(A[1][3], Det2(A[2][1], A[2][2], A[3][1], A[3][2])))
\* Cramer's rule: solution u of A u = g
ReplaceCol(A, j, g) == [i \in 1..Len(A) |-> [k \in 1..Len(A) |-> IF k = j THEN g[i] ELSE A[i][k]]]
Solve(A, g) == [j \in 1..Len(A) |-> FDiv(Det(ReplaceCol(A, j, g)), Det(A))]

Log2Pi == "1.8378770664093453"
\* log-density of N(mean, P^-1) at y
GaussLogPdfPrec(y, mean, P) ==
  LET r == VSub(y, mean) IN
  FAdd(FAdd(FMul(FMul("-0.5", Dim(y)), Log2Pi), FMul("0.5", FLog(Det(P)))),
       FMul("-0.5", Dot(r, MatVec(P, r))))

\* IWLS: proposal N(x + s^2/2 F(x)^-1 grad(x),  s^2 F(x)^-1)
MatScale(c, A) == [i \in 1..Len(A) |-> VScale(c, A[i])]
IWLSMean(x, s, g, F) == VAdd(x, VScale(FDiv(FMul(s, s), "2.0"), Solve(F, g)))
IWLSLogQ(to, from, s, gFrom, FFrom) ==
  GaussLogPdfPrec(to, IWLSMean(from, s, gFrom, FFrom), MatScale(FDiv("1.0", FMul(s, s)), FFrom))
IWLSCorrection(x, xp, s, gx, Fx, gxp, Fxp) ==
  FSub(IWLSLogQ(x, xp, s, gxp, Fxp), IWLSLogQ(xp, x, s, gx, Fx))     \* bwd - fwd

\* reported acceptance probability: min(1, pi(x') q(x|x') / (pi(x) q(x'|x)))
ReportedAcc(lpx, lpxp, corr) ==
  LET la == FAdd(FSub(lpxp, lpx), corr) IN IF FIsNaN(la) THEN "0.0" ELSE FMin("1.0", FExp(la))
=============================================================================
