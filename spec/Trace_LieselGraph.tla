-------------------------- MODULE Trace_LieselGraph -------------------------
(* Trace spec binding LieselGraph.tla to real liesel Models (C01, symbolic   *)
(* regime: node functions build canonical term strings, so cache coherence   *)
(* is decided by string equality).                                           *)
(* Hdr: n, kind (seq), inp (seq of seqs) - the driver's *construction plan*  *)
(* (never the model's own introspection), init (values after build).         *)
(* Every event carries the observed post-state: val (effective value per     *)
(* node), outd (what node.outdated reports), evald (caching nodes whose      *)
(* function was called during the operation, with multiplicity).             *)
EXTENDS LieselGraph, TraceBatch, TLC, Bags

RECURSIVE JoinS(_, _)
JoinS(args, i) == IF i > Len(args) THEN ""
                  ELSE (IF i > 1 THEN "," ELSE "") \o args[i] \o JoinS(args, i + 1)
ApplyStr(n, args) == IF \E i \in 1..Len(args) : args[i] \in {"!", "ERR"}      \* a poisoned argument: the function raises
                     THEN "ERR" ELSE "f" \o ToString(n) \o "(" \o JoinS(args, 1) \o ")"
DrawStr(d, r, pv) == "s" \o ToString(d) \o "<" \o r \o ">(" \o JoinS(pv, 1) \o ")"

TInit ==
  /\ BatchInit
  /\ N = Hdr.n /\ kind = Hdr.kind /\ inp = Hdr.inp
  \* the real model's sweep order, when the trace logs it (with the model's own total nodes appended to the graph)
  /\ ord = (IF "order" \in DOMAIN Hdr THEN Hdr.order ELSE [i \in 1..Hdr.n |-> i])
  /\ val = Hdr.init
  /\ flag = [i \in 1..Hdr.n |-> FALSE] /\ dirty = [i \in 1..Hdr.n |-> FALSE]
  /\ auto = TRUE /\ slots = <<>> /\ evald = {} /\ raised = FALSE

\* nodes whose value / flag the trace reports (the model's own total nodes, if appended, are not observed)
ObsNode == 1..(IF "nobs" \in DOMAIN Hdr THEN Hdr.nobs ELSE Hdr.n)
\* the observed post-state must equal the spec's post-state; all invariants hold
Obs ==
  /\ Chk("operation_raises_iff_a_swept_node_function_raises", Ev.raised = raised')
  /\ Chk("values_equal_spec", \A i \in ObsNode : Ev.val[i] = Eff(val')[i])
  /\ Chk("outdated_flags_equal_spec", \A i \in ObsNode : Ev.outd[i] = Outd(flag')[i])
  /\ Chk("evaluated_exactly_the_outdated_ones_once",
         Len(Ev.evald) = Cardinality(evald' \cap ObsNode) /\ SeqToSet(Ev.evald) = evald' \cap ObsNode)
  /\ Chk("coherent_up_to_date_nodes_hold_from_scratch_values",
         \A i \in ObsNode : ~Ev.outd[i] => Ev.val[i] = Fresh(val')[i])
  /\ Chk("flag_iff_dirty", \A i \in Node : kind[i] = "c" => (flag'[i] <=> dirty'[i]))

TAssign ==
  /\ IsEvent("assign")
  /\ Chk("assign_to_value_node", kind[Ev.n] = "v")
  /\ Assign(Ev.n, Ev.x) /\ Obs /\ Step
TSetAuto == IsEvent("set_auto") /\ SetAuto(Ev.b) /\ Obs /\ Step
TUpdateAll ==
  /\ IsEvent("update_all") /\ UpdateAll /\ Obs
  /\ Chk("full_update_leaves_no_node_outdated", Ev.raised \/ \A i \in ObsNode : ~Ev.outd[i])
  /\ Step
TUpdateTargets ==
  /\ IsEvent("update_targets")
  /\ UpdateTargets(SeqToSet(Ev.targets)) /\ Obs
  /\ Chk("targets_and_ancestors_up_to_date",
         Ev.raised \/ \A i \in Targets(SeqToSet(Ev.targets)) \cap ObsNode : ~Ev.outd[i])
  /\ Step
TSave == IsEvent("save") /\ Save /\ Obs /\ Step
TRestore == IsEvent("restore") /\ Restore(Ev.slot) /\ Obs /\ Step

\* the nodes are popped, a value is assigned outside any model, and the model is rebuilt from the same objects
TRebuild ==
  /\ IsEvent("rebuild")
  /\ Rebuild(Ev.n, Ev.x, IF "order" \in DOMAIN Ev THEN Ev.order ELSE ord) /\ Obs /\ Step

\* Model.set_seed (a node that depends on several seeds is evaluated once per assignment: the count is not compared)
TSetSeed ==
  /\ IsEvent("set_seed")
  /\ SetSeed([i \in 1..Len(Ev.assigned) |-> <<Ev.assigned[i][1], Ev.assigned[i][2]>>])
  /\ Chk("operation_raises_iff_a_swept_node_function_raises", Ev.raised = raised')
  /\ Chk("values_equal_spec", \A i \in ObsNode : Ev.val[i] = Eff(val')[i])
  /\ Chk("outdated_flags_equal_spec", \A i \in ObsNode : Ev.outd[i] = Outd(flag')[i])
  /\ Chk("coherent_up_to_date_nodes_hold_from_scratch_values",
         \A i \in ObsNode : ~Ev.outd[i] => Ev.val[i] = Fresh(val')[i])
  /\ Chk("evaluated_exactly_the_outdated_ones_once", SeqToSet(Ev.evald) = evald' \cap ObsNode)
  /\ Step

\* the model is written with save_model and read back; the history goes on with the copy
TReload ==
  /\ IsEvent("reload") /\ Reload
  /\ Chk("model_read_back_is_in_the_state_it_was_saved_in", 
         /\ \A i \in ObsNode : Ev.val[i] = Eff(val')[i] /\ Ev.outd[i] = Outd(flag')[i]
         /\ Ev.evald = <<>> /\ ~Ev.raised /\ Ev.auto = auto')
  /\ Obs /\ Step

\* low-level node API
TFlagOutdated == IsEvent("flag_outdated") /\ FlagOutdated(Ev.n) /\ Obs /\ Step
TNodeUpdate ==
  /\ IsEvent("node_update")
  /\ Chk("driver_updates_single_nodes_only_when_their_inputs_are_up_to_date", InputsUpToDate(Ev.n))
  /\ NodeUpdate(Ev.n) /\ Obs /\ Step

TClearState == IsEvent("clear_state") /\ ClearState(Ev.n) /\ Obs /\ Step

TNext == TClearState \/ TFlagOutdated \/ TNodeUpdate \/ TReload \/ TSetSeed \/ TRebuild \/ TAssign \/ TSetAuto \/ TUpdateAll \/ TUpdateTargets \/ TSave \/ TRestore
=============================================================================
