------------------------------ MODULE MC_Results ----------------------------
(* Every error table over codes {0,1,2} for small (K, C, T) and every split  *)
(* of the T transitions into warm-up / posterior epochs.                     *)
EXTENDS Results, TLC
CONSTANTS KK, CC, TT
VARIABLES tbl, sched
Scheds == {<<Cfg(FAST, TT, 1)>>, <<Cfg(POST, TT, 1)>>}
          \cup {<<Cfg(BURNIN, a, 1), Cfg(POST, TT - a, 1)>> : a \in 1..(TT - 1)}
          \cup (IF TT >= 3 THEN {<<Cfg(SLOW, 1, 1), Cfg(POST, 1, 1), Cfg(POST, TT - 2, 1)>>} ELSE {})
Init == /\ sched \in Scheds
        /\ tbl \in [1..KK -> [1..CC -> [1..TT -> {0, 1, 2}]]]
Next == UNCHANGED <<tbl, sched>>
Inv == Conservation(tbl, sched, KK, CC)
\* the error log lists exactly the transitions at which some chain erred
LogExact == \A k \in 1..KK :
   LET tr == LogTransitions(tbl, sched, k, CC, FALSE) IN
   {tr[i] + 1 : i \in 1..Len(tr)} = {j \in 1..TT : \E c \in 1..CC : tbl[k][c][j] # 0}
=============================================================================
