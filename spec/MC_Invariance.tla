----------------------------- MODULE MC_Invariance --------------------------
(* Every instance with |S| = 3, pi in 0..PiMax (not all zero), proposal      *)
(* weights in 0..WMax with positive row sums, M = 4, restricted to instances *)
(* where every acceptance probability is a multiple of 1/M.                  *)
EXTENDS Invariance, TLC
CONSTANTS PiMax, WMax
VARIABLES pi, w
Init == /\ pi \in [S -> 0..PiMax] /\ (\E x \in S : pi[x] > 0)
        /\ w \in [S -> [S -> 0..WMax]] /\ (\A x \in S : RowSum(w, x) > 0)
        /\ Exact(pi, w)
Next == UNCHANGED <<pi, w>>
DB == DetailedBalance(pi, w)
NoLeak == NoLeakToZero(pi, w)
Stat == Stationary(pi, w)
=============================================================================
