---------------------------- MODULE Trace_MHStep ----------------------------
(* Trace spec for mh_step (C05).  One trace = all calls made with one PRNG   *)
(* key; the uniform draw inside mh_step is not observable, so it is a hidden *)
(* variable: the spec keeps the feasible interval [uLo, uHi] of "the one     *)
(* uniform draw of this key" and rejects as soon as it is empty.             *)
(* For 0 < acc < 1 the case u = acc is a don't-care (non-strict bounds);     *)
(* acc = 0 and acc = 1 are decided exactly by named conjuncts.               *)
EXTENDS MHStep, TraceBatch

VARIABLES uLo, uHi

TInit == BatchInit /\ uLo = "0.0" /\ uHi = "1.0"

Inner(a) == FLt("0.0", a) /\ FLt(a, "1.0")

TStep ==
  /\ IsEvent("mh")
  /\ LET a == AccProb(Ev.cur, Ev.prop, Ev.corr) IN
     /\ Chk("error_code_90_iff_nan_ratio", Ev.code = ErrorCode(Ev.cur, Ev.prop, Ev.corr))
     /\ Chk("acc_prob_is_min_1_exp", FClose(Ev.acc, a, "1e-5", "1e-7"))
     /\ Chk("acc_in_unit_interval", FLe("0.0", Ev.acc) /\ FLe(Ev.acc, "1.0"))
     /\ Chk("nan_ratio_is_rejected", Ev.code = 90 => ~Ev.moved /\ FEq(Ev.acc, "0.0"))
     /\ Chk("zero_never_accepted", FEq(Ev.acc, "0.0") => ~Ev.moved)
     /\ Chk("one_always_accepted", FEq(Ev.acc, "1.0") => Ev.moved)
     /\ Chk("moved_flag_truthful", Ev.moved <=> (Ev.ret = "proposed"))
     /\ Chk("reject_returns_input_exactly", ~Ev.moved => Ev.ret = "input")
     /\ Chk("accept_returns_updated_state", Ev.moved => Ev.ret = "proposed")
     /\ uHi' = (IF Ev.moved /\ Inner(Ev.acc) THEN FMin(uHi, Ev.acc) ELSE uHi)
     /\ uLo' = (IF ~Ev.moved /\ Inner(Ev.acc) THEN FMax(uLo, Ev.acc) ELSE uLo)
     /\ Chk("one_uniform_draw_explains_all_decisions", FLe(uLo', uHi'))
  /\ Step

TNext == TStep
=============================================================================
