------------------------------- MODULE MC_Runs ------------------------------
(* Design check of the run-table properties on an abstract sampler: the      *)
(* digest of chain c is a function of (cid, key of chain c, init of chain c) *)
(* only - then every table is consistent; if it also depended on another     *)
(* chain's initial value (Leaky = TRUE) ChainIsolation fails.                *)
EXTENDS Runs, TLC
CONSTANTS Leaky
VARIABLE table
Inits == {"a", "b"}
Run(cid, form, multi, inits) ==
  [cid |-> cid, seedform |-> form, multi |-> multi, inits |-> inits,
   digests |-> [c \in 1..2 |-> <<cid, c, inits[c], IF Leaky THEN inits[3 - c] ELSE "-">>],
   first |-> inits, expect |-> inits]
Init == table = <<>>
Next == /\ Len(table) < 3
        /\ \E cid \in {"s1", "s2"}, form \in {"int", "key"}, m \in BOOLEAN, i \in [1..2 -> Inits] :
             table' = Append(table, Run(cid, form, m, i))
Inv == \A n \in 1..Len(table) : Consistent(SubSeq(table, 1, n - 1), table[n])
=============================================================================
