----------------------------- MODULE GooseEngine ----------------------------
(* liesel.goose.engine.Engine (engine.py:295-740) with its EpochManager,     *)
(* KernelSequence (kernel_sequence.py), chain storage (chain.py) and PRNG    *)
(* key discipline, for ONE chain (chains are vmapped copies that differ only *)
(* in the root of their key tree and in their initial model state).          *)
(*                                                                           *)
(* One named action per critical section of the code:                        *)
(*   AppendEpoch / AppendEpochRejected    Engine.append_epoch                *)
(*   SampleNextBegin / SampleAllBegin     entry of sample_next/all_epochs    *)
(*   StartEpoch                           _start_epoch (manager.next, chain  *)
(*                                        advance, decides on end_warmup)    *)
(*   EndWarmup(k)                         _end_warmup, per kernel call       *)
(*   InitialValues                        _handle_inital_values_epoch        *)
(*   KStart(k)                            _kernel_start_epoch                *)
(*   ChunkBegin                           one iteration of the for-loop in   *)
(*                                        _sample_for_duration: key split    *)
(*   Transition(k)                        kernel k inside scan_f             *)
(*   IterEnd                              end of scan_f: advance time,       *)
(*                                        extract position into the chunk    *)
(*   ChunkAppend                          chains.append(chunk) with thinning *)
(*   KEnd(k)                              _end_epoch: kernel end_epoch       *)
(*   Tune(k) / NoTune                     _tune_kernels                      *)
(*   Return                               epoch := None; sample_all loops    *)
(*                                                                           *)
(* FlagSet = TRUE is the intended design (after _end_warmup the engine       *)
(* remembers that the warm-up has ended); FlagSet = FALSE models the code    *)
(* before the fix of finding C07 (flag never set).                           *)
EXTENDS Epochs, TLC

CONSTANTS FlagSet     \* BOOLEAN

\* parameters of one engine, fixed by the initial predicate (variables so that one
\* TLC run covers several engines and a trace spec can take them from a header)
VARIABLES K,          \* number of kernels in the sequence
          J,          \* jitted_sample_duration (chunk length)
          NeedsHist,  \* subset of 1..K: kernels with needs_history
          NQ          \* number of quantity generators
params == <<K, J, NeedsHist, NQ>>

NoEpoch == [idx |-> -1]
Kernels == 1..K

VARIABLES mode,        \* "none" | "one" | "all": which public sampling call is running
          pc,          \* position inside sample_next_epoch
          kk,          \* next kernel to be called in the current round
          epoch,       \* active EpochState or NoEpoch
          warmupEnded, \* Engine._warmup_has_ended
          inChunk,     \* iterations done in the current chunk
          chunkbuf,    \* positions extracted in the current chunk
          chains,      \* per started epoch: stored positions (after thinning)
          counter,     \* ListEpochChain._states_counter of the current epoch
          nInfo,       \* per started epoch: number of stored transition infos
          mstate,      \* [Kernels -> tag]: last writer tag of each kernel's block
          quants,      \* per started epoch: stored generated quantities (after thinning)
          qbuf,        \* quantities generated in the current chunk
          carry,       \* Engine._prng_key of this chain, as a path in the split tree
          round,       \* key handed to the current round of kernel calls
          log          \* history: every kernel call, in order

evars == <<mode, pc, kk, epoch, warmupEnded, inChunk, chunkbuf, chains, counter, nInfo,
           mstate, quants, qbuf, carry, round, log>>
vars  == <<mvars, evars, params>>

Tag(i, t) == <<i, t>>
AllAt(tg) == [k \in Kernels |-> tg]

\* call records -------------------------------------------------------------
Call(k, kind, ep, extra, key) ==
  [k |-> k, kind |-> kind, idx |-> ep.idx, type |-> ep.type, time |-> ep.time,
   tie |-> ep.tie, extra |-> extra, key |-> key]
NoEp == [idx |-> -1, type |-> -1, time |-> -1, tie |-> -1]

\* PRNG: _split_prng_key(n): child 0 becomes the carry, children 1..n are handed out
SplitCarry   == carry \o <<0>>
HandOut(j)    == carry \o <<j>>
KernelKey(r, k) == r \o <<k - 1>>      \* jax.random.split(prng_key, len(kernels))[k-1]

EInit ==
  /\ MInit
  /\ mode = "none" /\ pc = "idle" /\ kk = 1 /\ epoch = NoEpoch /\ warmupEnded = FALSE
  /\ inChunk = 0 /\ chunkbuf = <<>> /\ chains = <<>> /\ counter = 1 /\ nInfo = <<>>
  /\ mstate = AllAt(Tag(0, 0))
  /\ quants = <<>> /\ qbuf = <<>>
  \* Engine.__init__: one split for init_states, each kernel gets its own sub-key
  /\ carry = <<0>>
  /\ round = <<>>
  /\ log = [k \in Kernels |-> Call(k, "init_state", NoEp, 0, KernelKey(<<1>>, k))]

-----------------------------------------------------------------------------
AppendEpoch(c) ==
  /\ mode = "none" /\ MAppend(c) /\ UNCHANGED evars

AppendEpochRejected(c) ==
  /\ mode = "none" /\ MAppendRejected(c) /\ UNCHANGED evars

SampleNextBegin ==
  /\ mode = "none" /\ pc = "idle" /\ HasMore
  /\ mode' = "one" /\ pc' = "start"
  /\ UNCHANGED <<mvars, kk, epoch, warmupEnded, inChunk, chunkbuf, chains, counter, nInfo,
                 mstate, carry, round, log, quants, qbuf>>

SampleNextRejected == mode = "none" /\ pc = "idle" /\ ~HasMore /\ UNCHANGED <<mvars, evars>>   \* RuntimeError
\* after a chunk mismatch (below) the epoch stays active: every later sampling call raises "Epoch is active and not
\* completed" (sample_all_epochs only if an epoch is left; otherwise it returns without doing anything)
SampleStuck == mode = "none" /\ pc = "stuck" /\ UNCHANGED <<mvars, evars>>

SampleAllBegin ==
  /\ mode = "none" /\ pc = "idle"
  /\ IF HasMore THEN mode' = "all" /\ pc' = "start" ELSE UNCHANGED <<mode, pc>>
  /\ UNCHANGED <<mvars, kk, epoch, warmupEnded, inChunk, chunkbuf, chains, counter, nInfo,
                 mstate, carry, round, log, quants, qbuf>>

\* _start_epoch
StartEpoch ==
  /\ pc = "start" /\ epoch = NoEpoch
  /\ MNext
  /\ LET c == cfgs[ptr + 1] IN
     /\ epoch' = [idx |-> ptr, type |-> c.type, dur |-> c.dur, thin |-> c.thin,
                  time |-> nextStart, tie |-> 0]
     /\ chains' = Append(chains, <<>>) /\ nInfo' = Append(nInfo, 0) /\ counter' = 1
     /\ quants' = Append(quants, <<>>)
     /\ IF ~warmupEnded /\ c.type = POST
        THEN /\ pc' = "endwarm" /\ kk' = 1
             /\ carry' = SplitCarry /\ round' = HandOut(1)
        ELSE /\ pc' = (IF c.type = INITIAL THEN "init" ELSE "prestart") /\ kk' = 1
             /\ UNCHANGED <<carry, round>>
  /\ UNCHANGED <<mode, warmupEnded, inChunk, chunkbuf, mstate, log, qbuf>>

\* _end_warmup, one kernel call at a time
EndWarmup(k) ==
  /\ pc = "endwarm" /\ kk = k
  /\ log' = Append(log, Call(k, "end_warmup", NoEp, 0, KernelKey(round, k)))
  /\ IF k = K
     THEN /\ warmupEnded' = (IF FlagSet THEN TRUE ELSE warmupEnded)
          /\ pc' = "prestart" /\ kk' = 1
     ELSE kk' = k + 1 /\ UNCHANGED <<warmupEnded, pc>>
  /\ UNCHANGED <<mvars, mode, epoch, inChunk, chunkbuf, chains, counter, nInfo, mstate,
                 carry, round, quants, qbuf>>

\* _handle_inital_values_epoch: no kernel call; initial position at index 0
\* quantity generators (if any) are evaluated on the initial state, after the epoch's
\* time was advanced by one; each generator costs one split of the carry
RECURSIVE InitGenCalls(_, _)
InitGenCalls(g, c) ==
  IF g > NQ THEN <<>>
  ELSE <<Call(g, "generate", [idx |-> 0, type |-> INITIAL, time |-> 1, tie |-> 1], 0, c \o <<1>>)>>
       \o InitGenCalls(g + 1, c \o <<0>>)
RECURSIVE Splits(_, _)
Splits(c, n) == IF n = 0 THEN c ELSE Splits(c \o <<0>>, n - 1)
QRec(ms, tie, time) == [seen |-> ms, tie |-> tie, time |-> time]
InitialValues ==
  /\ pc = "init"
  /\ chains' = [chains EXCEPT ![Len(chains)] = <<mstate>>]
  /\ quants' = [quants EXCEPT ![Len(quants)] = IF NQ > 0 THEN <<QRec(mstate, 1, 1)>> ELSE <<>>]
  /\ log' = log \o InitGenCalls(1, carry)
  /\ carry' = Splits(carry, NQ)
  /\ epoch' = NoEpoch
  /\ pc' = "return"
  /\ UNCHANGED <<mvars, mode, kk, warmupEnded, inChunk, chunkbuf, counter, nInfo, mstate,
                 round, qbuf>>

\* _kernel_start_epoch: split once, then one call per kernel
PreStart ==
  /\ pc = "prestart"
  /\ carry' = SplitCarry /\ round' = HandOut(1)
  /\ pc' = "kstart" /\ kk' = 1
  /\ UNCHANGED <<mvars, mode, epoch, warmupEnded, inChunk, chunkbuf, chains, counter, nInfo,
                 mstate, log, quants, qbuf>>

KStart(k) ==
  /\ pc = "kstart" /\ kk = k
  /\ log' = Append(log, Call(k, "start_epoch", epoch, 0, KernelKey(round, k)))
  /\ IF k = K THEN pc' = "sampling" /\ kk' = 1 /\ inChunk' = 0
              ELSE kk' = k + 1 /\ UNCHANGED <<pc, inChunk>>
  /\ UNCHANGED <<mvars, mode, epoch, warmupEnded, chunkbuf, chains, counter, nInfo, mstate,
                 carry, round, quants, qbuf>>

\* one iteration of the for-loop of _sample_for_duration: split J+1 keys
ChunkBegin ==
  /\ pc = "sampling" /\ epoch.tie < epoch.dur
  /\ epoch.dur % J = 0          \* otherwise the engine raises (builder guarantees it)
  /\ pc' = "iter" /\ kk' = 1 /\ inChunk' = 0 /\ chunkbuf' = <<>> /\ qbuf' = <<>>
  /\ round' = carry /\ carry' = SplitCarry      \* keys of the chunk: round \o <<1..J>>
  /\ UNCHANGED <<mvars, mode, epoch, warmupEnded, chains, counter, nInfo, mstate, log, quants>>

\* _sample_for_duration refuses a duration that is not a multiple of the chunk length: the call raises with the epoch
\* already started (end_warmup / start_epoch calls made, chains advanced) and the engine cannot sample any more
ChunkMismatch ==
  /\ pc = "sampling" /\ epoch.tie = 0 /\ epoch.dur % J # 0
  /\ pc' = "stuck" /\ mode' = "none"
  /\ UNCHANGED <<mvars, kk, epoch, warmupEnded, inChunk, chunkbuf, chains, counter, nInfo, mstate, carry, round, log,
                 quants, qbuf>>

\* kernel k inside scan_f; iteration j of the chunk uses key round \o <<j>>,
\* key_trans = that \o <<0>>, kernel key = key_trans \o <<k-1>>
Transition(k) ==
  /\ pc = "iter" /\ kk = k
  /\ LET key == KernelKey((round \o <<inChunk + 1>>) \o <<0>>, k) IN
     log' = Append(log, Call(k, "transition", epoch,
                             [adaptive |-> IsAdapt(epoch.type), seen |-> mstate], key))
  /\ mstate' = [mstate EXCEPT ![k] = Tag(epoch.idx, epoch.tie + 1)]
  /\ IF k = K THEN pc' = "iterend" /\ kk' = 1 ELSE kk' = k + 1 /\ pc' = pc
  /\ UNCHANGED <<mvars, mode, epoch, warmupEnded, inChunk, chunkbuf, chains, counter, nInfo,
                 carry, round, quants, qbuf>>

\* end of scan_f: advance time, extract the position of *this* iteration
\* and run the quantity generators on the state after all kernels, with the advanced
\* epoch; key_quants = (round \o <<j>>) \o <<1>> is split once per generator
IterEnd ==
  /\ pc = "iterend"
  /\ epoch' = [epoch EXCEPT !.time = @ + 1, !.tie = @ + 1]
  /\ chunkbuf' = Append(chunkbuf, mstate)
  /\ qbuf' = (IF NQ > 0 THEN Append(qbuf, QRec(mstate, epoch.tie + 1, epoch.time + 1)) ELSE qbuf)
  /\ log' = log \o [g \in 1..NQ |->
                      Call(g, "generate", [idx |-> epoch.idx, type |-> epoch.type, time |-> epoch.time + 1,
                                           tie |-> epoch.tie + 1], 0,
                           KernelKey((round \o <<inChunk + 1>>) \o <<1>>, g))]
  /\ inChunk' = inChunk + 1
  /\ pc' = (IF inChunk + 1 = J THEN "append" ELSE "iter")
  /\ UNCHANGED <<mvars, mode, kk, warmupEnded, chains, counter, nInfo, mstate, carry, round,
                 quants>>

\* after the jitted call: chains.append(chunk) with thinning
\* (ListEpochChain.append: keep entry i iff (counter + i) % thin = 0, i = 0..J-1)
RECURSIVE Kept(_, _, _, _)
Kept(buf, ctr, thin, i) ==
  IF i > Len(buf) THEN <<>>
  ELSE (IF (ctr + i - 1) % thin = 0 THEN <<buf[i]>> ELSE <<>>) \o Kept(buf, ctr, thin, i + 1)
ChunkAppend ==
  /\ pc = "append"
  /\ chains' = [chains EXCEPT ![Len(chains)] = @ \o Kept(chunkbuf, counter, epoch.thin, 1)]
  /\ counter' = (IF epoch.thin > 1 THEN counter + Len(chunkbuf) ELSE counter)
  /\ nInfo' = [nInfo EXCEPT ![Len(nInfo)] = @ + Len(chunkbuf)]
  /\ quants' = [quants EXCEPT ![Len(quants)] = @ \o Kept(qbuf, counter, epoch.thin, 1)]
  /\ chunkbuf' = <<>> /\ qbuf' = <<>> /\ inChunk' = 0
  /\ pc' = (IF epoch.tie = epoch.dur THEN "preend" ELSE "sampling")
  /\ UNCHANGED <<mvars, mode, kk, epoch, warmupEnded, mstate, carry, round, log>>

\* _end_epoch
PreEnd ==
  /\ pc = "preend"
  /\ carry' = SplitCarry /\ round' = HandOut(1)
  /\ pc' = "kend" /\ kk' = 1
  /\ UNCHANGED <<mvars, mode, epoch, warmupEnded, inChunk, chunkbuf, chains, counter, nInfo,
                 mstate, log, quants, qbuf>>

KEnd(k) ==
  /\ pc = "kend" /\ kk = k
  /\ log' = Append(log, Call(k, "end_epoch", epoch, 0, KernelKey(round, k)))
  /\ IF k = K THEN pc' = "pretune" /\ kk' = 1 ELSE kk' = k + 1 /\ pc' = pc
  /\ UNCHANGED <<mvars, mode, epoch, warmupEnded, inChunk, chunkbuf, chains, counter, nInfo,
                 mstate, carry, round, quants, qbuf>>

\* _tune_kernels
PreTune ==
  /\ pc = "pretune"
  /\ IF IsAdapt(epoch.type)
     THEN carry' = SplitCarry /\ round' = HandOut(1) /\ pc' = "tune" /\ kk' = 1
     ELSE UNCHANGED <<carry, round, kk>> /\ pc' = "finish"
  /\ UNCHANGED <<mvars, mode, epoch, warmupEnded, inChunk, chunkbuf, chains, counter, nInfo,
                 mstate, log, quants, qbuf>>

History == IF NeedsHist # {} THEN chains[Len(chains)] ELSE <<"none">>
Tune(k) ==
  /\ pc = "tune" /\ kk = k
  /\ log' = Append(log, Call(k, "tune", epoch, [hist |-> History], KernelKey(round, k)))
  /\ IF k = K THEN pc' = "finish" /\ kk' = 1 ELSE kk' = k + 1 /\ pc' = pc
  /\ UNCHANGED <<mvars, mode, epoch, warmupEnded, inChunk, chunkbuf, chains, counter, nInfo,
                 mstate, carry, round, quants, qbuf>>

Finish ==
  /\ pc = "finish"
  /\ epoch' = NoEpoch /\ pc' = "return"
  /\ UNCHANGED <<mvars, mode, kk, warmupEnded, inChunk, chunkbuf, chains, counter, nInfo,
                 mstate, carry, round, log, quants, qbuf>>

\* return of sample_next_epoch; sample_all_epochs loops while has_more
Return ==
  /\ pc = "return"
  /\ IF mode = "all" /\ HasMore THEN pc' = "start" /\ mode' = mode
                                ELSE pc' = "idle" /\ mode' = "none"
  /\ UNCHANGED <<mvars, kk, epoch, warmupEnded, inChunk, chunkbuf, chains, counter, nInfo,
                 mstate, carry, round, log, quants, qbuf>>

InternalStep ==
  \/ StartEpoch \/ InitialValues \/ PreStart \/ ChunkBegin \/ IterEnd \/ ChunkAppend
  \/ PreEnd \/ PreTune \/ Finish \/ Return
  \/ \E k \in Kernels : EndWarmup(k) \/ KStart(k) \/ Transition(k) \/ KEnd(k) \/ Tune(k)
Internal == InternalStep /\ UNCHANGED params

-----------------------------------------------------------------------------
(* The documented life-cycle as a function of the consumed schedule.         *)
RECURSIVE StoredIdx(_, _, _)
StoredIdx(dur, thin, t) ==     \* iterations k, 2k, ... <= dur
  IF t > dur THEN <<>> ELSE (IF t % thin = 0 THEN <<t>> ELSE <<>>) \o StoredIdx(dur, thin, t + 1)
StoredOf(i, c) == [j \in 1..Len(StoredIdx(c.dur, c.thin, 1)) |->
                     AllAt(Tag(i, StoredIdx(c.dur, c.thin, 1)[j]))]

Strip(r) == [k |-> r.k, kind |-> r.kind, idx |-> r.idx, type |-> r.type, time |-> r.time,
             tie |-> r.tie]
Rec(k, kind, i, ty, time, tie) == [k |-> k, kind |-> kind, idx |-> i, type |-> ty,
                                   time |-> time, tie |-> tie]
PerKernel(f(_)) == [k \in Kernels |-> f(k)]

RECURSIVE TransLog(_, _, _, _)
TransLog(i, c, t0, t) ==
  IF t >= c.dur THEN <<>>
  ELSE PerKernel(LAMBDA k : Rec(k, "transition", i, c.type, t0 + t, t)) \o TransLog(i, c, t0, t + 1)

EpochLog(i, c, t0, firstPost) ==
  (IF firstPost THEN PerKernel(LAMBDA k : Rec(k, "end_warmup", -1, -1, -1, -1)) ELSE <<>>)
  \o PerKernel(LAMBDA k : Rec(k, "start_epoch", i, c.type, t0, 0))
  \o TransLog(i, c, t0, 0)
  \o PerKernel(LAMBDA k : Rec(k, "end_epoch", i, c.type, t0 + c.dur, c.dur))
  \o (IF IsAdapt(c.type)
      THEN PerKernel(LAMBDA k : Rec(k, "tune", i, c.type, t0 + c.dur, c.dur)) ELSE <<>>)

RECURSIVE Canon(_, _, _, _)
\* s: consumed configs (1-based, s[1] is the initial epoch), n: next to emit
Canon(s, n, t0, seenPost) ==
  IF n > Len(s) THEN <<>>
  ELSE IF s[n].type = INITIAL THEN Canon(s, n + 1, t0 + s[n].dur, seenPost)
  ELSE EpochLog(n - 1, s[n], t0, s[n].type = POST /\ ~seenPost)
       \o Canon(s, n + 1, t0 + s[n].dur, seenPost \/ s[n].type = POST)

CanonLog == PerKernel(LAMBDA k : Rec(k, "init_state", -1, -1, -1, -1))
            \o Canon(SubSeq(cfgs, 1, ptr), 1, 0, FALSE)

-----------------------------------------------------------------------------
(* Properties.                                                               *)
Idle == pc = "idle"

\* C07: the kernel call log is the documented one - whatever the interleaving
\* of append_epoch / sample_next_epoch / sample_all_epochs
KernelCalls == SelectSeq(log, LAMBDA r : r.kind # "generate")
LifecycleOK == Idle => [i \in 1..Len(KernelCalls) |-> Strip(KernelCalls[i])] = CanonLog

EndWarmupAtMostOnce ==
  \A k \in Kernels : Cardinality({i \in 1..Len(log) : log[i].k = k /\ log[i].kind = "end_warmup"}) <= 1

AdaptiveIffAdaptation ==
  \A i \in 1..Len(log) : log[i].kind = "transition" => (log[i].extra.adaptive <=> IsAdapt(log[i].type))

\* tuning history = this epoch's stored chain, iff some kernel asked for one
TuneHistoryOK ==
  \A i \in 1..Len(log) : log[i].kind = "tune" =>
     log[i].extra.hist = (IF NeedsHist # {} THEN StoredOf(log[i].idx, cfgs[log[i].idx + 1])
                          ELSE <<"none">>)

\* C08: stored chain = initial values at index 0, then states after iterations
\* k, 2k, ... of each epoch, each after all kernels ran; independent of J
StoredOK ==
  Idle => /\ Len(chains) = ptr
          /\ \A e \in 1..ptr :
               chains[e] = (IF cfgs[e].type = INITIAL THEN <<AllAt(Tag(0, 0))>>
                            ELSE StoredOf(e - 1, cfgs[e]))
          /\ \A e \in 1..ptr : nInfo[e] = (IF cfgs[e].type = INITIAL THEN 0 ELSE cfgs[e].dur)

\* generated quantities: one per stored iteration, computed from the state after all kernels
\* of that iteration with the advanced epoch, thinned like the positions
QuantsOK ==
  Idle => /\ Len(quants) = ptr
          /\ \A e \in 1..ptr :
               quants[e] = (IF NQ = 0 THEN <<>>
                            ELSE IF cfgs[e].type = INITIAL THEN <<QRec(AllAt(Tag(0, 0)), 1, 1)>>
                            ELSE [j \in 1..Len(StoredIdx(cfgs[e].dur, cfgs[e].thin, 1)) |->
                                    LET t == StoredIdx(cfgs[e].dur, cfgs[e].thin, 1)[j] IN
                                    QRec(AllAt(Tag(e - 1, t)), t, SumDur(cfgs, 1, e - 1) + t)])

\* C09 (composition): kernel k starts from the state its predecessor left
OrderRespected ==
  \A i \in 1..Len(log) : log[i].kind = "transition" =>
     LET r == log[i] IN
     /\ \A k2 \in Kernels : k2 < r.k => r.extra.seen[k2] = Tag(r.idx, r.tie + 1)
     /\ \A k2 \in Kernels : k2 >= r.k => r.extra.seen[k2] # Tag(r.idx, r.tie + 1)

\* C10: every kernel call gets a fresh key
IsPrefixOf(p, q) == Len(p) <= Len(q) /\ SubSeq(q, 1, Len(p)) = p
KeysFresh ==
  /\ \A i, j \in 1..Len(log) : i # j => ~IsPrefixOf(log[i].key, log[j].key)
  /\ \A i \in 1..Len(log) : ~IsPrefixOf(carry, log[i].key)
=============================================================================
