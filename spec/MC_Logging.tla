------------------------------ MODULE MC_Logging -----------------------------
EXTENDS Logging
DoSetup == Setup
DoReset == Reset
DoAddFile == \E lg \in {"liesel", "liesel.goose"}, L \in {10, 30} : AddFile(lg, L)
Next == DoSetup \/ DoReset \/ DoAddFile
Spec == LInit /\ [][Next]_lvars
=============================================================================
