------------------------------- MODULE MHStep -------------------------------
(* liesel.goose.mh.mh_step (mh.py:17-71): the Metropolis-Hastings decision.  *)
(*                                                                           *)
(* All quantities are IEEE floats (VFloat).  `Accept` is the decision rule   *)
(* the property demands (strict: a proposal is accepted only if the uniform  *)
(* draw lies *below* the acceptance probability).  `AcceptAsLe` is the       *)
(* non-strict variant; MC_MHStep shows that it violates ZeroNeverAccepted    *)
(* for a draw of exactly 0 (design-level explanation of finding C05).        *)
EXTENDS VFloat, Naturals

LogAcc(cur, prop, corr) == FAdd(FSub(prop, cur), corr)
NaNCase(cur, prop, corr) == FIsNaN(LogAcc(cur, prop, corr))
AccProb(cur, prop, corr) ==
  IF NaNCase(cur, prop, corr) THEN "0.0"
  ELSE FMin("1.0", FExp(LogAcc(cur, prop, corr)))
ErrorCode(cur, prop, corr) == IF NaNCase(cur, prop, corr) THEN 90 ELSE 0

Accept(u, a)     == FLt(u, a)
AcceptAsLe(u, a) == FLe(u, a)

\* full outcome of one step for uniform draw u
Outcome(cur, prop, corr, u, strict) ==
  LET a == AccProb(cur, prop, corr)
      m == IF strict THEN Accept(u, a) ELSE AcceptAsLe(u, a)
  IN [code |-> ErrorCode(cur, prop, corr), acc |-> a, moved |-> m,
      ret |-> IF m THEN "proposed" ELSE "input",
      cur |-> cur, prop |-> prop, corr |-> corr, u |-> u]

-----------------------------------------------------------------------------
(* Properties of an outcome o (u in [0,1)).                                  *)
ProbInUnitInterval(o) == FLe("0.0", o.acc) /\ FLe(o.acc, "1.0")
ZeroNeverAccepted(o)  == FEq(o.acc, "0.0") => ~o.moved
OneAlwaysAccepted(o)  == FEq(o.acc, "1.0") => o.moved
NaNCode90Rejected(o)  == /\ (o.code = 90) <=> FIsNaN(LogAcc(o.cur, o.prop, o.corr))
                         /\ (o.code = 90 => ~o.moved /\ FEq(o.acc, "0.0"))
                         /\ o.code \in {0, 90}
AcceptOnlyBelow(o)    == o.moved => FLt(o.u, o.acc)
MovedFlagTruthful(o)  == o.moved <=> (o.ret = "proposed")
RejectReturnsInput(o) == ~o.moved => o.ret = "input"
OutcomeOK(o) == /\ ProbInUnitInterval(o) /\ ZeroNeverAccepted(o) /\ OneAlwaysAccepted(o)
                /\ NaNCode90Rejected(o) /\ AcceptOnlyBelow(o)
                /\ MovedFlagTruthful(o) /\ RejectReturnsInput(o)
=============================================================================
