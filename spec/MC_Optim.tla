------------------------------- MODULE MC_Optim -----------------------------
(* Every loss history of length <= MaxLen over a small alphabet, every       *)
(* patience / tolerance / iteration index: code-shaped stopper agrees with   *)
(* the documented rule outside the don't-care iterations; the restored index *)
(* is the first minimum of the final patience window.                        *)
EXTENDS Optim, TLC
CONSTANTS MaxLen, Losses, Ps, Atols, Rtols
VARIABLES buf, s, i
Seqs(n) == [1..n -> Losses]
Init == /\ \E n \in 1..MaxLen : buf \in Seqs(n)
        /\ s \in [p : Ps, atol : Atols, rtol : Rtols, max_iter : {Len(buf)}]
        /\ s.p <= Len(buf)
        /\ i \in 0..(Len(buf) - 1)
Next == UNCHANGED <<buf, s, i>>
\* the buffer as seen at iteration i
Seen == [j \in 1..Len(buf) |-> IF j <= i + 1 THEN buf[j] ELSE "0.0"]
AgreeInv == Agree(i, Seen, s)
BestInv == (i >= s.p - 1 /\ ~HasNaN(WindowDoc(i, Seen, s.p))) =>
              BestInWindow(i, Seen, s.p, WhichBest(i, Seen, s.p))
\* vacuity guards (must be violated): early stopping does happen, and does not always
ReachStop   == ~(i > s.p /\ StopEarlyCode(i, Seen, s.p, s.atol, s.rtol))
ReachNoStop == ~(i > s.p /\ ~StopEarlyCode(i, Seen, s.p, s.atol, s.rtol))
=============================================================================
