---------------------------- MODULE Trace_Proposals -------------------------
(* Trace spec for C06: transitions of real RW / IWLS / MH kernels on model   *)
(* families with analytic gradient and Hessian.  For every transition whose  *)
(* proposal x' is known (accepted transitions; for RW also rejected ones when*)
(* the Gaussian step could be replayed) the event carries x, x', the step    *)
(* size, the reported acceptance probability and analytic leaves computed by *)
(* the driver in float64: log pi, gradient and information F at x and x'.    *)
EXTENDS Proposals, TraceBatch

TInit == BatchInit
Close(a, b) == FClose(a, b, Hdr.rtol, Hdr.atol)

TRW ==
  /\ IsEvent("rw")
  /\ Chk("rw_reported_acceptance_is_symmetric_mh_ratio",
         Close(Ev.acc, ReportedAcc(Ev.lp_x, Ev.lp_xp, "0.0")))
  /\ Step

TIWLS ==
  /\ IsEvent("iwls")
  /\ Chk("iwls_reported_acceptance_is_mh_ratio_with_gaussian_proposal_densities",
         Close(Ev.acc, ReportedAcc(Ev.lp_x, Ev.lp_xp,
                                   IWLSCorrection(Ev.x, Ev.xp, Ev.s, Ev.g_x, Ev.F_x, Ev.g_xp, Ev.F_xp))))
  /\ Step

\* large blocks (dimension 40): the two Gaussian proposal log-densities are computed by the driver in float64 (the
\* spec's exact linear algebra is for small blocks), the spec combines them into the acceptance probability
TIWLSBig ==
  /\ IsEvent("iwls_big")
  /\ Chk("iwls_reported_acceptance_is_mh_ratio_with_gaussian_proposal_densities",
         Close(Ev.acc, ReportedAcc(Ev.lp_x, Ev.lp_xp, FSub(Ev.bwd, Ev.fwd))))
  /\ Step

TMH ==
  /\ IsEvent("mh")
  /\ Chk("mh_reported_acceptance_uses_declared_correction",
         Close(Ev.acc, ReportedAcc(Ev.lp_x, Ev.lp_xp, Ev.corr)))
  /\ Step

\* a rejected transition leaves the block unchanged; an accepted one moves to the proposal
TMoved ==
  /\ IsEvent("moved")
  /\ Chk("rejected_transition_leaves_position_unchanged", Ev.moved \/ Ev.after = Ev.before)
  /\ Chk("reported_probability_in_unit_interval", FLe("0.0", Ev.acc) /\ FLe(Ev.acc, "1.0"))
  \* on a target whose density is finite everywhere no ratio is undefined (error code 90 = NaN ratio)
  /\ Chk("no_undefined_ratio_on_a_regular_target", Hdr.regular => Ev.code = 0)
  \* IWLS at a point whose information matrix is not positive definite has no forward proposal density: it stays
  /\ Chk("no_move_from_a_point_without_a_forward_proposal_density",
         ("fwd_defined" \in DOMAIN Ev /\ ~Ev.fwd_defined) => ~Ev.moved)
  /\ Step

\* the accept / reject decisions of the random-walk kernel are those of a uniform draw from the sub-key that did not
\* draw the proposal (proposal and acceptance use independent randomness)
TRWKeys ==
  /\ IsEvent("rw_keys")
  /\ Chk("acceptance_draw_is_independent_of_the_proposal_draw", Ev.explained_by_other_subkey = Ev.inner)
  /\ Step

TNext == TRWKeys \/ TRW \/ TIWLS \/ TIWLSBig \/ TMH \/ TMoved
=============================================================================
