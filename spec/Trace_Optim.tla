----------------------------- MODULE Trace_Optim ----------------------------
(* Trace spec for C20.  Events:                                              *)
(*  "stopper": one evaluation of the real Stopper (eager or jitted) on a     *)
(*             loss buffer: stop_early, stop_now, which_best                 *)
(*  "run":     one complete optim_flat run: OptimResult + the per-iteration  *)
(*             mini-batches and sub-keys recorded by hook H1                 *)
EXTENDS Optim, TraceBatch

TInit == BatchInit

S(e) == [p |-> e.p, atol |-> e.atol, rtol |-> e.rtol, max_iter |-> e.max_iter]

TStopper ==
  /\ IsEvent("stopper")
  /\ LET s == S(Ev) IN
     /\ Chk("never_stops_before_a_full_window", Ev.i < s.p - 1 => ~Ev.stop_early)
     /\ Chk("stops_early_exactly_when_documented_rule_says",
            Ev.i > s.p => (Ev.stop_early <=> StopEarlyDoc(Ev.i, Ev.buf, s.p, s.atol, s.rtol)))
     /\ Chk("early_stop_only_if_rule_holds",
            (Ev.stop_early /\ Ev.i >= s.p - 1) => Rule(WindowDoc(Ev.i, Ev.buf, s.p), s.atol, s.rtol))
     /\ Chk("stop_now_is_early_stop_or_iteration_limit",
            Ev.stop_now <=> (Ev.stop_early \/ Ev.i >= s.max_iter - 1))
     /\ Chk("best_iteration_is_first_minimum_of_patience_window",
            (Ev.i >= s.p - 1 /\ ~HasNaN(WindowDoc(Ev.i, Ev.buf, s.p))) =>
               /\ Ev.which_best = WhichBest(Ev.i, Ev.buf, s.p)
               /\ BestInWindow(Ev.i, Ev.buf, s.p, Ev.which_best))
  /\ Step

AllDistinct(q) == Cardinality(SeqToSet(q)) = Len(q)

TRun ==
  /\ IsEvent("run")
  /\ Chk("run_completed", Ev.crash = "")
  /\ LET sLoop == [p |-> Ev.eff_p, atol |-> Ev.atol, rtol |-> Ev.rtol, max_iter |-> Ev.max_iter]
         rec == Ev.loss_validation
         full == Padded(rec, Ev.max_iter)
     IN
     /\ Chk("loop_stops_at_first_iteration_where_the_rule_says",
            StopsExactlyWhenRuleSays(rec, Ev.iteration, sLoop))
     /\ Chk("best_iteration_minimises_validation_loss_in_final_patience_window",
            \* (a patience window longer than the iteration limit is the whole history)
            LET pe == IF Ev.user_p > Ev.max_iter THEN Ev.max_iter ELSE Ev.user_p IN
            Ev.iteration >= pe - 1 =>
               /\ Ev.iteration_best = WhichBest(Ev.iteration, full, pe)
               /\ BestInWindow(Ev.iteration, full, pe, Ev.iteration_best))
     /\ Chk("returned_position_is_recorded_position_at_best_iteration",
            IF Ev.restore THEN Ev.position = Ev.hist_position[Ev.iteration_best + 1]
            ELSE Ev.position = Ev.hist_position[Ev.iteration + 1])
     /\ Chk("position_history_starts_with_the_start_position", Ev.hist_position[1] = Ev.start_position)
     /\ Chk("history_lengths_or_nan_padding",
            /\ Ev.len_train = Ev.len_validation /\ Ev.len_position = Ev.len_train
            /\ IF Ev.prune THEN Ev.len_train = Ev.iteration + 1
               ELSE Ev.len_train = Ev.max_iter /\ Ev.nan_from = Ev.iteration + 1)
     /\ Chk("model_state_consistent_with_position",
            \A j \in 1..Len(Ev.state_vals) : FClose(Ev.state_vals[j], Ev.recomputed_vals[j], "1e-5", "1e-5"))
     \* (-(n_train / n_validation * log-likelihood + log-prior) of the validation model)
     /\ Chk("recorded_validation_loss_is_the_validation_models_loss_at_the_recorded_position",
            /\ Len(Ev.loss_validation_recomputed) = Len(rec)
            /\ \A j \in 1..Len(rec) : FClose(rec[j], Ev.loss_validation_recomputed[j], "1e-4", "1e-4"))
     /\ Chk("one_batch_record_per_iteration", Len(Ev.batches) = Ev.iteration)
     /\ \A t \in 1..Len(Ev.batches) :
          Chk("batches_partition_floor_n_over_size_observations",
              BatchesOK(Ev.batches[t].batches, Ev.n, Ev.batch_size))
     \* which observations form the batches is drawn from the batch seed (three seeds: not three times the same split)
     /\ Chk("batch_membership_is_drawn_from_the_batch_seed",
            ("first_batches_other_seeds" \in DOMAIN Ev /\ Len(Ev.batches) > 0) =>
               \E j \in 1..Len(Ev.first_batches_other_seeds) : Ev.first_batches_other_seeds[j] # Ev.batches[1].batches)
     \* (the two conjuncts of the open known finding come last: a trace stops at its first failing conjunct)
     /\ Chk("fresh_batch_key_in_every_iteration",
            Ev.batch_size < Ev.n => AllDistinct([t \in 1..Len(Ev.batches) |-> Ev.batches[t].subkey]))
     /\ Chk("every_observation_used_in_some_batch",
            (Len(Ev.batches) >= 30 /\ Ev.n <= 12 /\ Ev.batch_size < Ev.n) =>
               UNION {UNION {SeqToSet(Ev.batches[t].batches[b]) : b \in 1..Len(Ev.batches[t].batches)}
                      : t \in 1..Len(Ev.batches)} = 0..(Ev.n - 1))
  /\ Step

TNext == TStopper \/ TRun
=============================================================================
