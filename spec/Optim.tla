-------------------------------- MODULE Optim -------------------------------
(* liesel.goose.optim: Stopper (optim.py:102-198) and the while-loop of      *)
(* optim_flat (optim.py:450-615).                                            *)
(*                                                                           *)
(* A loss history buffer `buf` is a sequence of max_iter IEEE floats; entry  *)
(* j+1 holds the loss after iteration j, unwritten entries are 0.0 (as in    *)
(* the code).  Iteration counters are 0-based as in the code.                *)
EXTENDS VFloat, Naturals, Integers, Sequences, FiniteSets

Max2(a, b) == IF a >= b THEN a ELSE b
Min2(a, b) == IF a <= b THEN a ELSE b

RECURSIVE MinFrom(_, _)
MinFrom(w, j) == IF j = Len(w) THEN w[j] ELSE FMin(w[j], MinFrom(w, j + 1))   \* NaN-propagating
MinF(w) == MinFrom(w, 1)

\* the documented rule on a window w (oldest first)
Rule(w, atol, rtol) ==
  LET best == MinF(w)
      diff == FSub(w[1], best)
  IN FLe(diff, atol) \/ FLe(FDiv(diff, FAbs(best)), rtol)

\* --- as documented: after a full window, on the last p recorded losses -------------
WindowDoc(i, buf, p) == SubSeq(buf, i - p + 2, i + 1)
StopEarlyDoc(i, buf, p, atol, rtol) == i + 1 >= p /\ Rule(WindowDoc(i, buf, p), atol, rtol)
\* "after a full window": documentation and code wording admit i = p-1 and i = p
\* as the first stopping opportunity; both readings are accepted
DontCare(i, p) == i \in {p - 1, p}
StopNowDoc(i, buf, s) == StopEarlyDoc(i, buf, s.p, s.atol, s.rtol) \/ i >= s.max_iter - 1

\* --- as coded: lax.dynamic_slice clamps the start so that the slice fits -----------
WindowCode(i, buf, p) ==
  LET s == Min2(Max2(i - p + 1, 0), Len(buf) - p) IN SubSeq(buf, s + 1, s + p)
StopEarlyCode(i, buf, p, atol, rtol) == Rule(WindowCode(i, buf, p), atol, rtol) /\ i > p
StopNowCode(i, buf, s) == StopEarlyCode(i, buf, s.p, s.atol, s.rtol) \/ i >= s.max_iter - 1

\* code and documentation agree outside the don't-care iterations
Agree(i, buf, s) ==
  /\ (i < s.p - 1 => ~StopEarlyCode(i, buf, s.p, s.atol, s.rtol))
  /\ (i > s.p => (StopEarlyCode(i, buf, s.p, s.atol, s.rtol) <=> StopEarlyDoc(i, buf, s.p, s.atol, s.rtol)))

\* --- best iteration within the final patience window ----------------------------------
HasNaN(w) == \E j \in 1..Len(w) : FIsNaN(w[j])
ArgMinFirst(w) == CHOOSE j \in 1..Len(w) :
                    /\ FSame(w[j], MinF(w))
                    /\ \A j2 \in 1..(j - 1) : ~FSame(w[j2], MinF(w))
WhichBest(i, buf, p) == i - p + ArgMinFirst(WindowDoc(i, buf, p))      \* 0-based iteration
BestInWindow(i, buf, p, b) ==
  /\ b \in (i - p + 1)..i
  /\ \A j \in (i - p + 1)..i : ~FLt(buf[j + 1], buf[b + 1])
  /\ \A j \in (i - p + 1)..(b - 1) : FLt(buf[b + 1], buf[j + 1])      \* first minimum on ties

\* --- the while-loop: first iteration at which the stopper says stop ---------------------
\* `rec` = recorded validation losses (entries 0..iteration), padded with zeros
Padded(rec, n) == [j \in 1..n |-> IF j <= Len(rec) THEN rec[j] ELSE "0.0"]
\* the buffer as the loop saw it at iteration i (later entries still unwritten)
SeenAt(rec, n, i) == [j \in 1..n |-> IF j <= i + 1 THEN rec[j] ELSE "0.0"]
StopsExactlyWhenRuleSays(rec, iter, s) ==
  /\ Len(rec) = iter + 1
  /\ \A i \in 0..(iter - 1) : DontCare(i, s.p) \/ ~StopNowDoc(i, SeenAt(rec, s.max_iter, i), s)
  /\ DontCare(iter, s.p) \/ StopNowDoc(iter, SeenAt(rec, s.max_iter, iter), s)
  \* and it may only use the early opportunity if the rule holds there
  /\ iter < s.max_iter - 1 => Rule(WindowDoc(iter, SeenAt(rec, s.max_iter, iter), s.p), s.atol, s.rtol)

\* --- mini-batches -------------------------------------------------------------------
BatchesOK(bs, n, size) ==
  /\ Len(bs) = n \div size
  /\ \A b \in 1..Len(bs) : Len(bs[b]) = size /\ \A x \in 1..size : bs[b][x] \in 0..(n - 1)
  /\ Cardinality(UNION {{bs[b][x] : x \in 1..size} : b \in 1..Len(bs)}) = (n \div size) * size
=============================================================================
