--------------------------------- MODULE Gibbs ------------------------------
(* Full conditionals of the two built-in Gibbs kernels                       *)
(* (model/distreg.py:255-276 tau2_gibbs_kernel; model/goose.py:200-224       *)
(* finite_discrete_gibbs_kernel), over IEEE doubles.                         *)
EXTENDS VFloat, Naturals, Sequences

\* inverse-gamma full conditional of a smoothing variance tau2 with prior IG(a, b) and
\* (possibly rank-deficient) Gaussian prior N(0, tau2 K^-) on beta:
\*   shape a + rank(K)/2,  scale b + beta' K beta / 2
IGShape(a, rank) == FAdd(a, FDiv(rank, "2.0"))
IGScale(b, q)    == FAdd(b, FDiv(q, "2.0"))           \* q = beta' K beta
\* log-density of IG(ag, bg) at t up to an additive constant
IGLogKernel(ag, bg, t) == FSub(FMul(FNeg(FAdd(ag, "1.0")), FLog(t)), FDiv(bg, t))

\* the conditional's log-kernel and the model's joint log-density differ by a constant
\* as functions of tau2: equal differences over a grid
CondMatchesModel(ag, bg, grid, lp, rtol, atol) ==
  \A i \in 1..Len(grid) : \A j \in 1..Len(grid) :
     FClose(FSub(IGLogKernel(ag, bg, grid[i]), IGLogKernel(ag, bg, grid[j])),
            FSub(lp[i], lp[j]), rtol, atol)

\* a draw of the kernel is scale / Gamma(shape, 1)
IsIGDraw(draw, gammaDraw, bg, rtol) == FClose(FMul(draw, gammaDraw), bg, rtol, "0.0")

\* finite-discrete conditional: probabilities proportional to exp(logit)
RECURSIVE SumExp(_, _, _)
SumExp(lg, m, i) == IF i > Len(lg) THEN "0.0" ELSE FAdd(FExp(FSub(lg[i], m)), SumExp(lg, m, i + 1))
RECURSIVE MaxOf(_, _)
MaxOf(lg, i) == IF i = Len(lg) THEN lg[i] ELSE FMax(lg[i], MaxOf(lg, i + 1))
CondProb(lg, k) == FDiv(FExp(FSub(lg[k], MaxOf(lg, 1))), SumExp(lg, MaxOf(lg, 1), 1))
=============================================================================
