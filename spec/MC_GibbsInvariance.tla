-------------------------- MODULE MC_GibbsInvariance ------------------------
(* Design theorem for Gibbs kernels (C13 / C04): on a finite product space   *)
(* A x B with integer target pi, the kernel that redraws block a from the    *)
(* exact conditional pi(a | b) = pi(a, b) / sum_a' pi(a', b) leaves pi       *)
(* invariant (in cross-multiplied integers: no division), for each block,    *)
(* hence for any blockwise sequence.  A kernel that draws from a conditional *)
(* with a *different* weight (Wrong = TRUE: the weight of one state is       *)
(* doubled, e.g. a wrong shape or rate parameter) is refuted.                *)
EXTENDS Naturals, FiniteSets, TLC
CONSTANTS A, B, PiMax, Wrong
VARIABLE pi
Init == pi \in [A \X B -> 0..PiMax] /\ (\E s \in A \X B : pi[s] > 0)
Next == UNCHANGED pi
RECURSIVE Sum(_, _)
Sum(f, T) == IF T = {} THEN 0 ELSE LET x == CHOOSE y \in T : TRUE IN f[x] + Sum(f, T \ {x})
\* weight the kernel uses for state <<a, b>> when redrawing a
Wt(a, b) == IF Wrong /\ a = CHOOSE x \in A : TRUE THEN 2 * pi[<<a, b>>] ELSE pi[<<a, b>>]
Da(b) == Sum([a \in A |-> Wt(a, b)], A)
\* inflow into <<a2, b>> (times Da(b)) equals pi[<<a2, b>>] (times Da(b))
InvariantA == \A b \in B : \A a2 \in A :
   Da(b) > 0 => Sum([a \in A |-> pi[<<a, b>>] * Wt(a2, b)], A) = pi[<<a2, b>>] * Da(b)
Db(a) == Sum([b \in B |-> pi[<<a, b>>]], B)
InvariantB == \A a \in A : \A b2 \in B :
   Db(a) > 0 => Sum([b \in B |-> pi[<<a, b>>] * pi[<<a, b2>>]], B) = pi[<<a, b2>>] * Db(a)
=============================================================================
