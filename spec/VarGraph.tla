-------------------------------- MODULE VarGraph ----------------------------
(* Growth: the variable graph on top of the node graph (nodes.py:1044-1125   *)
(* Var.all_input_vars / all_output_vars; model.py _build_var_graph).         *)
(* Nodes 1..N with ordered inputs inp[n] (topological numbering); own[n] is  *)
(* the variable that owns node n (0 = none).  The input variables of a       *)
(* variable are the variables reached from the inputs of its nodes through   *)
(* nodes that belong to no variable (the search stops at the first variable).*)
EXTENDS Naturals, Sequences, FiniteSets

SeqSet(s) == {s[i] : i \in 1..Len(s)}
NodesOf(own, v) == {n \in DOMAIN own : own[n] = v}

RECURSIVE Reach(_, _, _, _, _)
\* variables reached from the node set `todo` (all ids < bound), not entering variable `self`
Reach(inp, own, self, todo, acc) ==
  IF todo = {} THEN acc
  ELSE LET n == CHOOSE x \in todo : \A y \in todo : x >= y IN
       IF own[n] # 0 /\ own[n] # self
       THEN Reach(inp, own, self, todo \ {n}, acc \cup {own[n]})
       ELSE Reach(inp, own, self, (todo \ {n}) \cup SeqSet(inp[n]), acc)

InputVars(inp, own, v) ==
  Reach(inp, own, v, UNION {SeqSet(inp[n]) : n \in NodesOf(own, v)} \ NodesOf(own, v), {})
Vars(own) == {own[n] : n \in DOMAIN own} \ {0}
OutputVars(inp, own, v) == {w \in Vars(own) : v \in InputVars(inp, own, w)}
VarEdges(inp, own) == {<<a, b>> : a \in Vars(own), b \in Vars(own)} \cap
                      {e \in (Vars(own) \X Vars(own)) : e[1] \in InputVars(inp, own, e[2])}
=============================================================================
