import tlc2.value.impl.BoolValue;
import tlc2.value.impl.IntValue;
import tlc2.value.impl.StringValue;
import tlc2.value.impl.Value;

/** TLC module override for VFloat.tla: IEEE-754 doubles carried as strings. */
public class VFloat {
  static double d(final Value v) {
    if (v instanceof IntValue) {
      return (double) ((IntValue) v).val;
    }
    final String s = ((StringValue) v).val.toString().trim();
    switch (s) {
      case "inf": case "+inf": case "Inf": case "+Infinity": return Double.POSITIVE_INFINITY;
      case "-inf": case "-Inf": return Double.NEGATIVE_INFINITY;
      case "nan": case "-nan": case "NaN": return Double.NaN;
      default: return Double.parseDouble(s);
    }
  }
  static Value s(final double x) { return new StringValue(Double.toString(x)); }
  static Value b(final boolean x) { return x ? BoolValue.ValTrue : BoolValue.ValFalse; }

  public static Value FAdd(final Value a, final Value c) { return s(d(a) + d(c)); }
  public static Value FSub(final Value a, final Value c) { return s(d(a) - d(c)); }
  public static Value FMul(final Value a, final Value c) { return s(d(a) * d(c)); }
  public static Value FDiv(final Value a, final Value c) { return s(d(a) / d(c)); }
  public static Value FNeg(final Value a) { return s(-d(a)); }
  public static Value FAbs(final Value a) { return s(Math.abs(d(a))); }
  public static Value FExp(final Value a) { return s(Math.exp(d(a))); }
  public static Value FLog(final Value a) { return s(Math.log(d(a))); }
  public static Value FSqrt(final Value a) { return s(Math.sqrt(d(a))); }
  public static Value FPow(final Value a, final Value c) { return s(Math.pow(d(a), d(c))); }
  public static Value FMin(final Value a, final Value c) { return s(Math.min(d(a), d(c))); }
  public static Value FMax(final Value a, final Value c) { return s(Math.max(d(a), d(c))); }
  public static Value FLt(final Value a, final Value c) { return b(d(a) < d(c)); }
  public static Value FLe(final Value a, final Value c) { return b(d(a) <= d(c)); }
  public static Value FEq(final Value a, final Value c) { return b(d(a) == d(c)); }
  public static Value FIsNaN(final Value a) { return b(Double.isNaN(d(a))); }
  public static Value FIsInf(final Value a) { return b(Double.isInfinite(d(a))); }
  public static Value FIsFinite(final Value a) { final double x = d(a); return b(!Double.isNaN(x) && !Double.isInfinite(x)); }
  static boolean same(final double x, final double y) {
    return (Double.isNaN(x) && Double.isNaN(y)) || x == y;
  }
  public static Value FSame(final Value a, final Value c) { return b(same(d(a), d(c))); }
  public static Value FClose(final Value a, final Value c, final Value rtol, final Value atol) {
    final double x = d(a), y = d(c);
    if (same(x, y)) { return BoolValue.ValTrue; }
    if (Double.isNaN(x) || Double.isNaN(y) || Double.isInfinite(x) || Double.isInfinite(y)) {
      return BoolValue.ValFalse;
    }
    return b(Math.abs(x - y) <= d(atol) + d(rtol) * Math.abs(y));
  }
  public static Value FOfInt(final Value a) { return s(d(a)); }
  public static Value FToF32(final Value a) { return s((double) (float) d(a)); }
  public static Value FFloor(final Value a) { return IntValue.gen((int) Math.floor(d(a))); }
}
