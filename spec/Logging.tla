------------------------------- MODULE Logging ------------------------------
(* liesel/logging.py: setup_logger / reset_logger / add_file_handler as a      *)
(* state machine over the logger hierarchy root <- liesel <- liesel.goose,     *)
(* together with the delivery rule of the standard library (effective level   *)
(* of the emitting logger, then every handler on the propagation chain whose  *)
(* own level admits the record).                                              *)
(*                                                                           *)
(* `reset_logger` is documented to remove *all* handlers of the liesel logger. *)
(* As coded it removes handlers from the list it is iterating over, so every  *)
(* second handler survives (ResetAsCoded = TRUE); with ResetAsCoded = FALSE   *)
(* the documented behaviour is specified.                                     *)
EXTENDS Naturals, Sequences, FiniteSets

CONSTANTS ResetAsCoded, MaxHandlers

Loggers == {"root", "liesel", "liesel.goose"}
Parent(lg) == IF lg = "liesel.goose" THEN "liesel" ELSE "root"
Levels == {0, 10, 20, 30, 40}

VARIABLES hs,     \* logger -> sequence of handlers [kind, level]
          lvl,    \* logger -> own level (0 = NOTSET)
          prop    \* logger -> propagate flag
lvars == <<hs, lvl, prop>>

LInit ==
  /\ hs = [lg \in Loggers |-> IF lg = "root" THEN <<[kind |-> "probe", level |-> 0]>> ELSE <<>>]
  /\ lvl = [lg \in Loggers |-> IF lg = "root" THEN 30 ELSE 0]
  /\ prop = [lg \in Loggers |-> TRUE]

Setup ==
  /\ Len(hs["liesel"]) < MaxHandlers
  /\ lvl' = [lvl EXCEPT !["liesel"] = 20]
  /\ prop' = [prop EXCEPT !["liesel"] = FALSE]
  /\ hs' = [hs EXCEPT !["liesel"] = Append(@, [kind |-> "stream", level |-> 0])]

\* survivors of `for h in handlers: handlers.remove(h)`: the elements at even positions
Survivors(s) == [i \in 1..(Len(s) \div 2) |-> s[2 * i]]

Reset ==
  /\ lvl' = [lvl EXCEPT !["liesel"] = 0]
  /\ prop' = [prop EXCEPT !["liesel"] = TRUE]
  /\ hs' = [hs EXCEPT !["liesel"] = IF ResetAsCoded THEN Survivors(@) ELSE <<>>]

AddFile(lg, level) ==
  /\ lg \in Loggers \ {"root"} /\ level \in Levels \ {0}
  /\ Len(hs[lg]) < MaxHandlers
  /\ hs' = [hs EXCEPT ![lg] = Append(@, [kind |-> "file", level |-> level])]
  /\ UNCHANGED <<lvl, prop>>

-----------------------------------------------------------------------------
RECURSIVE Effective(_)
Effective(lg) == IF lvl[lg] # 0 \/ lg = "root" THEN lvl[lg] ELSE Effective(Parent(lg))

\* loggers whose handlers see a record emitted by lg
RECURSIVE ChainOf(_)
ChainOf(lg) == {lg} \cup (IF lg # "root" /\ prop[lg] THEN ChainOf(Parent(lg)) ELSE {})

\* handlers (logger, position) that receive a record of level L emitted by logger lg
Delivered(lg, L) ==
  IF L < Effective(lg) THEN {}
  ELSE {<<g, i>> \in Loggers \X (1..MaxHandlers) : g \in ChainOf(lg) /\ i <= Len(hs[g]) /\ L >= hs[g][i].level}

-----------------------------------------------------------------------------
\* the documented effect of reset_logger
ResetRemovesAllHandlers == [][Reset => hs'["liesel"] = <<>>]_lvars
\* after a reset the liesel loggers behave like unconfigured loggers: a record reaches the
\* root logger's handlers iff the root's level admits it, and nothing else
AfterResetOnlyRoot ==
  [][Reset => \A L \in Levels \ {0} :
        LET d == Delivered("liesel", L)' IN
        /\ \A p \in d : p[1] = "root"
        /\ (d # {} <=> L >= lvl["root"])]_lvars
\* holds as coded as well: setup never loses a handler, levels and flags are those documented
SetupState == [][Setup => /\ lvl'["liesel"] = 20 /\ ~prop'["liesel"]
                          /\ Len(hs'["liesel"]) = Len(hs["liesel"]) + 1]_lvars
\* while the liesel logger does not propagate, nothing reaches the root logger
NoDuplicationViaRoot ==
  ~prop["liesel"] => \A lg \in {"liesel", "liesel.goose"}, L \in Levels \ {0} :
                        \A p \in Delivered(lg, L) : p[1] # "root"
=============================================================================
