---------------------------- MODULE MC_Composition --------------------------
(* Instances: two kernels over three parameters / three kernels over four;   *)
(* every sequence of <= MaxCalls transitions with every proposal over {0,1}  *)
(* and both acceptance outcomes.                                             *)
EXTENDS Composition, TLC
CONSTANT MaxCalls
Bound == Len(calls) <= MaxCalls
Own2 == <<{1}, {2, 3}>>
Dep2 == <<{1, 2}, {3}, {1, 2, 3}>>
Ord2 == <<1, 2>>
Own3 == <<{2}, {1, 4}, {3}>>
Dep3 == <<{1}, {2, 3}, {1, 2, 3, 4}>>
Ord3 == <<2, 3, 1>>
=============================================================================
