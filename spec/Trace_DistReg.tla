---------------------------- MODULE Trace_DistReg ----------------------------
(* Binds DistReg.tla to the real DistRegBuilder: one event per builder call    *)
(* with the outcome and what is observable through public attributes (inputs   *)
(* of the current predictor variables, keyword inputs of the response's        *)
(* distribution node, reachable groups).                                       *)
EXTENDS DistReg, TraceBatch
TInit == BatchInit /\ DInit

Observed ==
  /\ Chk("call_accepted_or_rejected_as_specified", Ev.rej = rej')
  /\ Chk("predictor_inputs_are_the_smooths_in_order_of_addition",
         \A p \in Preds : Ev.pred_in[p] = (IF Has(p)' THEN predIn'[p] ELSE <<>>))
  /\ Chk("response_distribution_takes_every_predictor", Ev.resp_in = respIn')
  /\ Chk("one_group_per_accepted_smooth", SeqToSet(Ev.groups) = made')

TOp ==
  /\ IsEvent("distreg_op")
  /\ CASE Ev.op = "response" -> AddResponse
       [] Ev.op = "predictor" -> AddPredictor(Ev.p)
       [] Ev.op = "p_smooth" -> AddPSmooth(Ev.p, Ev.name)
       [] Ev.op = "np_smooth" -> AddNPSmooth(Ev.p, Ev.name)
  /\ Observed /\ Step
TNext == TOp
=============================================================================
